"""Abstract AST children and abstract language values for the node-semantics proofs (DESIGN A.3).

*Abstract child*: `child.evaluate(env)` is not executed. The p-th evaluation of the run (p = current length of the ghost
trace) appends the child's id to the ghost trace (a z3 Seq(Int)) and, depending on the uninterpreted functions below,
either raises a CklRuntimeError (ERR(p)) or yields the abstract value VAL(p).
*Abstract value*: an integer id with an uninterpreted KIND; `isBoolean()`, `isReturn()`, `.value` ... on it are answered
from KIND, so that the real node code branches on symbolic outcomes instead of enumerating them.  The singletons
TRUE/FALSE/NULL have fixed ids and every value of kind true/false/null *is* that singleton.
Lists of children may have symbolic length (elem kind 'absnode'); loop-carried value locals are ids (elem kind 'value').
"""
import z3

from pyvc.values import Obj, PList, PyClass, Builtin, SElem, SInt, SBool, SStr, zi, mk_bool
from pyvc.interp import PyRaise
from .common import Vals

SEQ = z3.SeqSort(z3.IntSort())
EMPTY = z3.Empty(SEQ)

VAL = z3.Function("VAL", z3.IntSort(), z3.IntSort())        # value id yielded by the p-th evaluation
ERR = z3.Function("ERR", z3.IntSort(), z3.BoolSort())       # the p-th evaluation raises a language error
ERRVAL = z3.Function("ERRVAL", z3.IntSort(), z3.IntSort())  # ... with this error value id
KIND = z3.Function("KIND", z3.IntSort(), z3.IntSort())
RETVAL = z3.Function("RETVAL", z3.IntSort(), z3.IntSort())  # payload of a `return` control value

K_TRUE, K_FALSE, K_NULL, K_BREAK, K_CONTINUE, K_RETURN, K_LIST, K_SET, K_MAP, K_OBJECT, K_STRING, K_FUNC, K_OTHER = range(13)
TRUE_ID, FALSE_ID, NULL_ID = -1, -2, -3
KIND_OF_METHOD = {"isBreak": (K_BREAK,), "isContinue": (K_CONTINUE,), "isReturn": (K_RETURN,), "isNull": (K_NULL,),
                  "isBoolean": (K_TRUE, K_FALSE), "isTrue": (K_TRUE,), "isFalse": (K_FALSE,), "isList": (K_LIST,), "isSet": (K_SET,),
                  "isMap": (K_MAP,), "isObject": (K_OBJECT,), "isString": (K_STRING,), "isFunc": (K_FUNC,),
                  "isCollection": (K_LIST, K_SET)}
FALSE_METHODS = ("isInt", "isDecimal", "isDate", "isPattern", "isInput", "isOutput", "isNode", "isNumerical", "isAtomic")


def is_ctrl(v):
    k = KIND(v)
    return z3.Or(k == K_BREAK, k == K_CONTINUE, k == K_RETURN)


def val_id(v, V):
    """z3 id of a value as seen by a postcondition (abstract value, or one of the singletons)"""
    if isinstance(v, SElem):
        return v.z
    if v is V.TRUE:
        return z3.IntVal(TRUE_ID)
    if v is V.FALSE:
        return z3.IntVal(FALSE_ID)
    if v is V.NULL:
        return z3.IntVal(NULL_ID)
    return None


class NodeKit:
    def __init__(self, world, V=None, other_kinds=(K_OTHER,)):
        self.w = world
        self.V = V or Vals(world)
        self.cls = PyClass("AbsNode", None, [world.object_cls])
        self.cls.methods["evaluate"] = Builtin("AbsNode.evaluate", self._evaluate)
        self.cls.methods["collectVars"] = Builtin("AbsNode.collectVars", lambda it, a, k, n: None)
        self.errcls = world.import_module("ckl.errors").ns["CklRuntimeError"]
        kit = self

        def wrap(it_, z):
            return kit.node_z(z)

        def unwrap(it_, v):
            if isinstance(v, Obj) and v.cls is kit.cls:
                return zi(v.fields["id"])
            return None
        world.elem_kinds["absnode"] = (wrap, unwrap)

        def wrapv(it_, z):
            return SElem(z, "value")

        def unwrapv(it_, v):
            r = val_id(v, kit.V)
            return r
        world.elem_kinds["value"] = (wrapv, unwrapv)

    # ------------------------------------------------------------------ hooks (installed per unit via prepare)
    def install(self, world):
        V = self.V

        def elem_attr(it, obj, name, node):
            if obj.sort != "value":
                it.unsupported(f"attribute {name} of opaque {obj.sort}", node)
            k = KIND(obj.z)
            if name in KIND_OF_METHOD:
                ks = KIND_OF_METHOD[name]
                return Builtin("absvalue." + name, lambda it_, a, kw, n: mk_bool(z3.Or(*[k == c for c in ks])))
            if name in FALSE_METHODS:
                # kinds this harness does not distinguish are folded into `other`: the node code under contract must not
                # depend on them (any use of a payload of such a kind is out-of-subset below)
                return Builtin("absvalue." + name, lambda it_, a, kw, n: it_.fresh_bool(name))
            if name == "value":
                # payload: truth value of a boolean, wrapped value of a `return`
                if it.path.branch(z3.Or(k == K_TRUE, k == K_FALSE)):
                    return mk_bool(k == K_TRUE)
                if it.path.branch(k == K_RETURN):
                    return SElem(RETVAL(obj.z), "value")
                it.unsupported("payload of an abstract value that is neither boolean nor return", node)
            if name == "type":
                return Builtin("absvalue.type", lambda it_, a, kw, n: it_.fresh_str("typename"))
            if name == "pos":
                return SElem(z3.Int(it.fresh("pos")), "pos")
            if name == "info":
                return ""
            if name == "name":      # the name of a function value (any text)
                return it.fresh_str("funcname")
            if name in ("asBreak", "asContinue", "asReturn"):
                return Builtin("absvalue." + name, lambda it_, a, kw, n: obj)
            it.unsupported(f"attribute {name} of an abstract value", node)
        world.hooks["elem_attr"] = elem_attr

        def elem_identical(it, a, b):
            ia, ib = val_id(a, V) if not isinstance(a, SElem) or a.sort == "value" else None, \
                val_id(b, V) if not isinstance(b, SElem) or b.sort == "value" else None
            if ia is not None and ib is not None:
                return mk_bool(ia == ib)
            return None
        world.hooks["elem_identical"] = elem_identical

        def elem_isinstance(it, v, cl, n):
            if v.sort != "value":
                return cl.name == "object"
            m = {"ValueControlReturn": K_RETURN, "ValueControlBreak": K_BREAK, "ValueControlContinue": K_CONTINUE, "ValueNull": K_NULL,
                 "ValueList": K_LIST, "ValueSet": K_SET, "ValueMap": K_MAP, "ValueObject": K_OBJECT, "ValueString": K_STRING}
            if cl.name in m:
                return it.path.branch(KIND(v.z) == m[cl.name])
            if cl.name == "ValueBoolean":
                return it.path.branch(z3.Or(KIND(v.z) == K_TRUE, KIND(v.z) == K_FALSE))
            if cl.name in ("Value", "object"):
                return True
            if cl.name in ("FuncLambda", "ValueFunc"):
                return it.path.branch(KIND(v.z) == K_FUNC)
            return False
        world.hooks["elem_isinstance"] = elem_isinstance

        def elem_eq(it, a, b):
            return mk_bool(a.z == b.z)
        world.hooks["elem_eq"] = elem_eq

    def axioms(self, it):
        """singletons: fixed ids, and every value of kind true/false/null is the singleton"""
        it.path.assume(z3.And(KIND(z3.IntVal(TRUE_ID)) == K_TRUE, KIND(z3.IntVal(FALSE_ID)) == K_FALSE,
                              KIND(z3.IntVal(NULL_ID)) == K_NULL), check=False)
        it.ghost["trace"] = EMPTY
        it.ghost["exc_at"] = {}

    def singleton_axiom(self, it, idz):
        it.path.assume(z3.And(z3.Implies(KIND(idz) == K_TRUE, idz == TRUE_ID), z3.Implies(KIND(idz) == K_FALSE, idz == FALSE_ID),
                              z3.Implies(KIND(idz) == K_NULL, idz == NULL_ID), KIND(idz) >= 0, KIND(idz) <= K_OTHER), check=False)

    # ------------------------------------------------------------------ construction
    def node(self, name, on_eval=None):
        return self.node_z(z3.Int(name), on_eval, name)

    def node_z(self, z, on_eval=None, label=None):
        o = Obj(self.cls, {"id": SInt(z) if not isinstance(z, int) else z, "on_eval": on_eval, "pos": None}, label=label or str(z))
        o.fresh = False
        return o

    def nodes_sym(self, name):
        pl = PList(sym=z3.Const(name, SEQ), kind="absnode", label=name)
        pl.fresh = False
        return pl

    def value(self, idz):
        return SElem(idz, "value")

    # ------------------------------------------------------------------ evaluation of an abstract child
    def _evaluate(self, it, a, k, n):
        node, env = a[0], (a[1] if len(a) > 1 else None)
        f = node.fields
        tr = it.ghost.get("trace", EMPTY)
        p = z3.Length(tr)
        it.ghost["trace"] = z3.Concat(tr, z3.Unit(zi(f["id"])))
        it.trace.append(("eval", f["id"], env))
        if f["on_eval"] is not None:
            f["on_eval"](it, node, env, p)
        if it.path.branch(ERR(p)):
            e = Obj(self.errcls, {"value": SElem(ERRVAL(p), "value"), "msg": it.fresh_str("msg"), "pos": None,
                                  "stacktrace": PList([]), "args": ()}, label="childerr")
            e.fields["_at"] = p
            it.ghost["last_exc"] = e
            raise PyRaise(e)
        v = VAL(p)
        self.singleton_axiom(it, v)
        return SElem(v, "value")


def trace(it):
    return it.ghost.get("trace", EMPTY)
