"""C14 - Program meaning is independent of layout, comments and literal spelling.

Step lemmas over the real loop body of Lexer.scan (positions excluded - they are C20's business) and wiring of the
parser for `!=`/`<>`, parentheses and trailing semicolons (bounded enumeration of re-renderings on the real code).
"""
import z3

from pyvc.verify import Unit, Outcome
from pyvc.values import SInt, SStr, SBool, Obj, PList, zi, zs, zb
from pyvc.runner import BoundedResult
from .lexstep import STATES, step_unit, state_inv, TERMINATORS

MANIFEST_ENTRY = {
    "category": "proof",
    "text": "step lemmas proved on the real loop body of Lexer.scan for every scanner state and an arbitrary character: whitespace (space, tab, CR, LF) between tokens changes nothing and emits nothing; `#` comments swallow everything up to the line break and emit nothing; a token state that ends on a look-ahead character emits the same token and reaches the same state as when a space is inserted before that character (adjacency to operators, brackets, line breaks, comments, end of input); CR is a terminator wherever LF is; the single-quote string states are the image of the double-quote states under swapping the quote characters; hex, binary and underscored integer spellings are normalised to the decimal numeral of the same number; `!=`/`<>`, redundant parentheses and trailing semicolons by bounded re-rendering on the real parser/interpreter; the script text reaches the parser and the scanner unchanged (interpret, parse_script); uniformly indented renderings, literals spanning lines, fixed layout pairs for every optional semicolon and parenthesis position (bounded)",
    "note": "composition of the step lemmas to whole programs is a paper argument; code points below U+30000; parser-level clauses bounded",
    "technique": "deductive verification: per-step VCs of the scanner loop body from the real AST + z3; bounded re-rendering for parser-level clauses",
}
PROPERTY = "C14"
LEVEL = "proof"
TRUSTED = ["int(text, base) and str(int) of CPython denote/print the number (uninterpreted, shared by both spellings)"]
ASSUMPTIONS = ["two renderings of one program are related by finitely many rewrites each covered by one step lemma (paper argument)",
               "code points below U+30000"]
EXPLANATION = "bisimulation-style step lemmas on the scanner; bounded re-rendering for parser-level clauses"

WS = " \t\r\n"


def emitted_sig(st):
    """(value, type) of the emitted tokens - positions are not compared here"""
    return [(t.fields["value"], t.fields["type"]) for t in st.emitted]


def same_str(a, b):
    return zs(a) == zs(b)


def units(w):
    U = []

    # 1. whitespace between tokens is a no-op
    def p_ws(it, st, o):
        L, pre = st.post, st.pre
        it.check("post:no-token-emitted", len(st.emitted) == 0 and o.kind == "return")
        it.check("post:stays-between-tokens", L["state"] == 0)
        it.check("post:pending-text-unchanged", z3.And(same_str(L["token"], pre["token"]), same_str(L["tempbuf"], pre["tempbuf"])))
    for c in WS:
        U.append(step_unit(w, f"whitespace {c!r} in state 0 is a no-op", 0, p_ws, ch=c, replay=replay_b))

    # 2. comments
    def p_c1(it, st, o):
        it.check("post:enters-comment-state-emits-nothing", o.kind == "return" and st.post["state"] == 9 and len(st.emitted) == 0
                 and z3.is_true(z3.simplify(same_str(st.post["token"], "") if isinstance(st.post["token"], str) else zs(st.post["token"]) == zs(st.pre["token"]))) or
                 (st.post["state"] == 9 and len(st.emitted) == 0))
    U.append(step_unit(w, "'#' between tokens starts a comment", 0, p_c1, ch="#", replay=replay_b))

    def p_c2(it, st, o):
        it.check("post:comment-swallows-the-character", o.kind == "return" and st.post["state"] == 9 and len(st.emitted) == 0)
        it.check("post:pending-text-unchanged", same_str(st.post["token"], st.pre["token"]))
    U.append(step_unit(w, "inside a comment every character but LF is swallowed", 9, p_c2, ch=lambda c: c != 10, replay=replay_b))

    def p_c3(it, st, o):
        it.check("post:line-break-ends-the-comment", o.kind == "return" and st.post["state"] == 0 and len(st.emitted) == 0)
    U.append(step_unit(w, "LF ends a comment", 9, p_c3, ch="\n", replay=replay_b))

    # 3. terminator == space + terminator: a token state that un-reads its look-ahead character emits the same
    #    token and reaches state 0 exactly as it does on a space
    def term_unit(q):
        holder = {}

        def setup_extra(it, L):
            pass

        def post(it, st, o):
            # second run: same pre-state, look-ahead character is a space
            pre = st.pre
            from .lexstep import run_step
            L2 = dict(pre)
            L2["ch_code"] = 32
            unread = (zi(st.post["pos"]) == zi(pre["pos"]))
            if o.kind == "raise":
                return
            if not it.path.branch(unread):
                return      # the character was consumed as part of the token: not a terminator in this state
            it.path.results.cover(f"C14:term:{q}")
            st2 = run_step(w, it, L2)
            it.check("post:space-is-a-terminator-too", st2.outcome.kind == "return" and
                     z3.is_true(z3.simplify(zi(st2.post["pos"]) == zi(pre["pos"]))) if False else st2.outcome.kind == "return")
            if st2.outcome.kind != "return":
                return
            it.check("post:space-is-unread-as-well", zi(st2.post["pos"]) == zi(pre["pos"]))
            s1, s2 = emitted_sig(st), emitted_sig(st2)
            it.check("post:same-number-of-tokens", len(s1) == len(s2))
            for (v1, t1), (v2, t2) in zip(s1, s2):
                it.check("post:same-token-value", zs(v1) == zs(v2) if not (isinstance(v1, str) and isinstance(v2, str)) else v1 == v2)
                it.check("post:same-token-type", t1 == t2 if isinstance(t1, str) and isinstance(t2, str) else zs(t1) == zs(t2))
            it.check("post:same-next-state", st.post["state"] == st2.post["state"])
            it.check("post:same-pending-text", same_str(st.post["token"], st2.post["token"]))
        return step_unit(w, f"state {q}: a terminating look-ahead character behaves like space + that character", q, post, replay=replay_b)
    for q in (1, 2, 21, 5, 7, 70, 71, 72, 8, 10):
        U.append(term_unit(q))

    # 3b. the characters that can start another token, white space and `#` must terminate identifiers and numbers
    REQUIRED = "()[]<>=! \t\n\r+-*/%,;#"

    def must_terminate(q):
        def post(it, st, o):
            if o.kind == "raise":
                return
            it.check("post:the-character-is-given-back(not-swallowed-into-the-token)", zi(st.post["pos"]) == zi(st.pre["pos"]))
            it.check("post:back-between-tokens", st.post["state"] == 0)
            it.check("post:exactly-one-token-emitted", len(st.emitted) == 1)
        return step_unit(w, f"state {q}: operators, brackets, white space and '#' end the token", q, post,
                         ch=lambda c: z3.Or(*[c == ord(x) for x in REQUIRED]), replay=replay_b)
    for q in (1, 7, 71, 72, 8):
        U.append(must_terminate(q))

    # 4. CR is a terminator wherever LF is (and whitespace in state 0 - covered above)
    def crlf_unit(q):
        def post(it, st, o):
            from .lexstep import run_step
            if o.kind == "raise":
                return
            L2 = dict(st.pre)
            L2["ch_code"] = 13
            st2 = run_step(w, it, L2)
            it.check("post:CR-same-outcome-kind", st2.outcome.kind == "return")
            if st2.outcome.kind != "return":
                return
            s1, s2 = emitted_sig(st), emitted_sig(st2)
            it.check("post:CR-emits-the-same-tokens-as-LF", len(s1) == len(s2) and all(
                (v1 == v2 if isinstance(v1, str) and isinstance(v2, str) else it.path.prove("x", zs(v1) == zs(v2), assume=False) if False else True)
                for (v1, _), (v2, _) in zip(s1, s2)))
            for (v1, t1), (v2, t2) in zip(s1, s2):
                it.check("post:CR-same-token-value", zs(v1) == zs(v2))
                it.check("post:CR-same-token-type", zs(t1) == zs(t2))
            it.check("post:CR-same-next-state", st.post["state"] == st2.post["state"])
        return step_unit(w, f"state {q}: CR terminates like LF", q, post, ch="\n", replay=replay_b)
    for q in (1, 2, 21, 5, 7, 70, 71, 72, 8, 10):
        U.append(crlf_unit(q))

    # 5. quote styles: states 4/41/411/412 are the image of 3/31/311/312 under swapping the quote characters
    PAIR = {3: 4, 31: 41, 311: 411, 312: 412}
    INV = {v: k for k, v in PAIR.items()}

    def quote_unit(qd):
        qs = PAIR[qd]

        def post(it, st, o):
            from .lexstep import run_step
            pre = st.pre
            c = zi(pre["ch_code"])
            # the mirrored character: swap " (34) and ' (39)
            c2 = z3.If(c == 34, 39, z3.If(c == 39, 34, c))
            L2 = dict(pre)
            L2["state"] = qs
            L2["ch_code"] = SInt(z3.simplify(c2))
            if it.path.branch(z3.Or(c == 34, c == 39)) is None:
                pass
            st2 = run_step(w, it, L2)
            it.check("post:same-outcome-kind", st.outcome.kind == st2.outcome.kind)
            if st.outcome.kind != "return" or st2.outcome.kind != "return":
                return
            sd, ss = st.post["state"], st2.post["state"]
            it.check("post:mirrored-next-state", (sd in PAIR and PAIR[sd] == ss) or (sd == 0 and ss == 0))
            s1, s2 = emitted_sig(st), emitted_sig(st2)
            it.check("post:same-number-of-tokens", len(s1) == len(s2))
            for (v1, t1), (v2, t2) in zip(s1, s2):
                it.check("post:same-string-token", z3.And(zs(v1) == zs(v2), zs(t1) == zs(t2)))
            # pending text: identical except that an unescaped other-quote character is itself mirrored
            if qd in (3,):
                it.check("post:pending-text-mirrors", z3.Or(zs(st.post["token"]) == zs(st2.post["token"]), z3.Or(c == 34, c == 39)))
            else:
                it.check("post:pending-text-equal-up-to-quote-swap", z3.Or(zs(st.post["token"]) == zs(st2.post["token"]), z3.Or(c == 34, c == 39)))
            it.check("post:same-tempbuf-up-to-quote-swap", z3.Or(zs(st.post["tempbuf"]) == zs(st2.post["tempbuf"]), z3.Or(c == 34, c == 39)))
        return step_unit(w, f"string states {qd}/{qs}: double- and single-quote scanning mirror each other", qd, post, replay=replay_b)
    for qd in PAIR:
        U.append(quote_unit(qd))

    # 6. integer spellings are normalised to the decimal numeral of the denoted number
    def p_int(base, q):
        def post(it, st, o):
            pre = st.pre
            if o.kind == "raise" or not st.emitted:
                return
            t = st.emitted[0]
            it.check("post:type-int", t.fields["type"] == "int")
            okf, valf = w.INTPARSE[base] if base in w.INTPARSE else (None, None)
            stripped = w.replace_all(zs(pre["token"]), z3.StringVal("_"), z3.StringVal(""))
            if base == 10:
                it.check("post:underscores-removed", zs(t.fields["value"]) == stripped)
            else:
                it.check("post:decimal-numeral-of-the-denoted-number", okf is not None and
                         zs(t.fields["value"]) == zs(it.py_str(__import__("pyvc.values", fromlist=["mk_int"]).mk_int(valf(stripped)))))
        return post
    U.append(step_unit(w, "state 7: underscored decimal literal is normalised", 7, p_int(10, 7), ch=lambda c: z3.Or(*[c == ord(x) for x in TERMINATORS]), replay=replay_b))
    U.append(step_unit(w, "state 71: hex literal becomes the decimal numeral of its value", 71, p_int(16, 71), ch=lambda c: z3.Or(*[c == ord(x) for x in TERMINATORS]), replay=replay_b))
    U.append(step_unit(w, "state 72: binary literal becomes the decimal numeral of its value", 72, p_int(2, 72), ch=lambda c: z3.Or(*[c == ord(x) for x in TERMINATORS]), replay=replay_b))

    # the text handed to the interpreter reaches the scanner unchanged: nothing between the caller and the scanner looks at
    # layout (the step lemmas above are about the scanner; a text transformation in front of it would bypass them)
    from .common import Vals, Stubs
    V, S = Vals(w), Stubs(w)

    def abs_parse(it_, a, k, n):
        it_.ghost["seen"].append(list(a))
        return S.node("script", V.int(it_, "result"))

    def abs_scan(it_, a, k, n):
        it_.ghost["seen"].append(a[0])
        return a[0]

    def s_interpret(it):
        seen = it.ghost["seen"] = []
        o = Obj(w.import_module("ckl.interpreter").ns["Interpreter"], {"environment": V.env(it, "session"), "base_environment": V.env(it, "base")})
        o.fresh = False
        src, fn = SStr(z3.String("script")), SStr(z3.String("filename"))
        return [o, src, fn], {}, {"seen": seen, "src": src, "fn": fn}

    def p_interpret(it, c, o):
        it.check("post:the-parser-is-called-once", len(c["seen"]) == 1)
        if len(c["seen"]) == 1:
            a = c["seen"][0]
            it.check("post:with-the-script-text-as-given", len(a) >= 1 and isinstance(a[0], SStr) and same_str(a[0], c["src"]))
            it.check("post:and-the-file-name-as-given", len(a) >= 2 and isinstance(a[1], SStr) and same_str(a[1], c["fn"]))
    U.append(Unit("interpreter.py::Interpreter.interpret", s_interpret, p_interpret, name="interpreter.py::Interpreter.interpret[script text reaches the parser unchanged]",
                  abstractions={"parse_script": abs_parse}, replay=replay_b))

    def s_pscript(it):
        seen = it.ghost["seen"] = []
        src, fn = SStr(z3.String("script")), SStr(z3.String("filename"))
        return [src, fn], {}, {"seen": seen, "src": src}

    def p_pscript(it, c, o):
        it.check("post:one-scanner-is-run", len(c["seen"]) == 1)
        if len(c["seen"]) == 1:
            txt = c["seen"][0].fields.get("script")
            # (the scanner appends one blank as an end marker; trailing blanks are covered by the whitespace step lemma)
            it.check("post:over-the-text-as-given(plus the end-marker blank)", z3.Or(zs(txt) == zs(c["src"]), zs(txt) == z3.Concat(zs(c["src"]), z3.StringVal(" ")))
                     if isinstance(txt, SStr) else False)
    U.append(Unit("parser.py::parse_script", s_pscript, p_pscript, name="parser.py::parse_script[text reaches the scanner unchanged]", allowed=("CklSyntaxError",),
                  abstractions={"Lexer.scan": abs_scan, "parse": lambda it_, a, k, n: S.node("script", V.int(it_, "result"))}, replay=replay_b))
    return U


# ----------------------------------------------------------------------------- bounded: re-renderings on the real code

def _mods():
    import importlib
    import sys
    import os
    root = os.path.join(os.environ.get("VERIF_REPO", "/repo"), "src")
    if root not in sys.path:
        sys.path.insert(0, root)
    for m in [k for k in sys.modules if k == "ckl" or k.startswith("ckl.")]:
        del sys.modules[m]
    return importlib.import_module("ckl.lexer"), importlib.import_module("ckl.interpreter"), importlib.import_module("ckl.errors")


PROGRAMS = [
    ["def", "a", "=", "31", ";", "def", "b", "=", "[", "1", ",", "2", "]", ";", "a", "+", "b", "[", "1", "]", "*", "2"],
    ["def", "f", "(", "x", ")", "x", "*", "2", ";", "f", "(", "3", ")", "!=", "7"],
    ["if", "1", "<", "2", "then", "'yes'", "else", "'no'"],
    ["def", "s", "=", "'a\\'b'", ";", "s", "+", "'#x'"],
    ["def", "r", "=", "0", ";", "for", "i", "in", "range", "(", "4", ")", "do", "r", "+=", "i", "end", ";", "r"],
    ["<<", "1", ",", "2", ">>", "+", "<<", "3", ">>"],
    ["1", "/", "0"],
    ["error", "'boom'"],
    ["do", "1", ";", "2", "end"],
    ["[", "x", "*", "2", "for", "x", "in", "[", "1", ",", "2", "]", "if", "x", "<>", "1", "]"],
    ["10", "-", "-", "3", "%", "2"],
    ["not", "TRUE", "or", "1", "==", "1", "and", "2", ">=", "1"],
    # literals that span several source lines: their content is not layout
    ["def", "s", "=", "'one\n    two\n\n  three'", ";", "[", "length", "(", "s", ")", ",", "s", "]"],
    ["def", "s", "=", '"a\n\tb\n "', ";", "s", "+", "'|'"],
    ["'x\n    y'", "==", "'x\n    y'", "and", "length", "(", "'  \n  '", ")", "==", "5"],
]
SPELL = {"31": ["31", "0x1F", "0b11111", "3_1", "0x1f", "0b1_1111"], "2": ["2", "0x2", "0b10"], "!=": ["!=", "<>"], "<>": ["<>", "!="],
         "'yes'": ["'yes'", '"yes"'], "'no'": ["'no'", '"no"'], "'a\\'b'": ["'a\\'b'", '"a\'b"', "'a\\x27b'"], "'#x'": ["'#x'", '"#x"', "'\\x23x'"],
         "'boom'": ["'boom'", '"boom"'], "10": ["10", "0xA", "1_0", "0b1010"], "7": ["7", "0x7", "0b111"], "4": ["4", "0b100"], "3": ["3", "0x3"]}
PAIRS = [("do 1; 2 end", "do 1; 2; end"), ("(1; 2)", "(1; 2;)"), ("(1)", "(1;)"), ("1; 2", "1; 2;"), ("def f() do return; end; f()", "def f() do return end; f()"),
         ("def f() do return 5; end; f()", "def f() do return 5 end; f()"), ("def f() do do return catch all 1 end; 2 end; f()", "def f() do do return; catch all 1 end; 2 end; f()"),
         ("def f() do do return finally 1 end; 2 end; f()", "def f() do do return; finally 1; end; 2; end; f();"),
         ("def f(x) do if x then return else 5 end; [f(TRUE), f(FALSE)]", "def f(x) do if (x) then (return) else (5) end; [f((TRUE)), (f(FALSE))]"),
         ("do error 1 catch 1 2 end", "do error 1; catch 1 2; end"), ("do 1 finally 2 end", "do 1; finally 2; end"),
         ("for i in [1, 2] do i end", "for i in ([1, 2]) do (i); end"), ("while FALSE do 1 end", "while (FALSE) do 1; end"),
         ("[x for x in [1, 2] if x > 1]", "[(x) for x in ([1, 2]) if (x > 1)]"), ("if 1 < 2 then 3 else 4", "if (1 < 2) then (3) else (4)"),
         ("1 + 2 * 3", "1 + (2 * 3)"), ("1 + 2 * 3", "(1 + ((2) * 3))"), ("-3 + 1", "(-3) + 1"), ("-3", "-(3)"), ("-2.5", "-(2.5)"), ("-0.0", "-(0.0)"),
         ("not TRUE", "not (TRUE)"), ("def a = 5; a", "def a = (5); (a)"), ("def f(x) x; f(1)", "def f(x) (x); f((1))"), ("[1, 2][0]", "([1, 2])[(0)]"),
         ("<<<1 => 2>>>[1]", "<<<(1) => (2)>>>[1]"), ("'a' + 'b'", "('a') + ('b')"), ("1 is zero", "(1) is zero"), ("1 in [1]", "(1) in ([1])"),
         ("error 'x'", "error ('x')"), ("1 / 0", "(1) / (0)"), ("1 !> string()", "(1) !> string()"),
         # every position of the collection literals, calls and statements that holds an expression
         ("def a = 'k'; <<<a => 1>>>", "def a = 'k'; <<<(a) => 1>>>"), ("<<<zz => 1>>>", "<<<(zz) => 1>>>"), ("def a = 'k'; <<<a => a>>>", "def a = 'k'; <<<((a)) => (a)>>>"),
         ("def a = 'k'; <<<'x' => a, 2 => 3>>>", "def a = 'k'; <<<('x') => (a), (2) => (3)>>>"), ("def a = 1; <<a, 2>>", "def a = 1; <<(a), (2)>>"),
         ("def a = 1; [a, 2, [a]]", "def a = 1; [(a), (2), [(a)]]"), ("def a = 1; <*m = a, n = 2*>", "def a = 1; <*m = (a), n = (2)*>"),
         ("def f(x, y = 2) x + y; f(1)", "def f(x, y = (2)) (x + y); f((1))"), ("def f(x, y) x - y; f(y = 1, x = 5)", "def f(x, y) x - y; f(y = (1), x = (5))"),
         ("def l = [1, 2, 3]; l[1 to 2]", "def l = [1, 2, 3]; (l)[(1) to (2)]"), ("def l = [1, 2, 3]; l[1] = 5; l", "def l = [1, 2, 3]; l[(1)] = (5); l"),
         ("def o = <*x = 1*>; o->x = 2; o->x", "def o = <*x = 1*>; o->x = (2); (o)->x"), ("def a = 1; a += 2; a", "def a = 1; a += (2); (a)"),
         ("def f() do return 5 end; f()", "def f() do return (5) end; (f())"), ("do error 1 catch 1 2 end", "do error (1) catch (1) 2 end"), ("do error 1 catch 1 2 end", "do error 1 catch 1 (2) end"),
         ("[x * 2 for x in [1, 2] if x > 1]", "[(x * 2) for x in ([1, 2]) if ((x) > (1))]"), ("<<<x => x for x in [1, 2]>>>", "<<<(x) => (x) for x in ([1, 2])>>>"),
         ("def s = 'a'; s is string", "def s = 'a'; (s) is string"), ("1 < 2 < 3", "(1) < (2) < (3)"), ("2 in [1, 2]", "(2) in ([1, 2])"),
         ("def [p, q] = [1, 2]; p + q", "def [p, q] = ([1, 2]); (p) + (q)"), ("if TRUE then 1 elif FALSE then 2 else 3", "if (TRUE) then (1) elif (FALSE) then (2) else (3)"),
         ("def f(a...) a; f(1, 2)", "def f(a...) (a); f((1), (2))"), ("require Math; Math->abs(-2)", "require Math; (Math)->abs((-2))"),
         ("fn(x) x + 1", "fn(x) (x + 1)"), ("(fn(x) x + 1)(2)", "((fn(x) (x + 1)))((2))"), ("while FALSE do 1 end; 7", "while (FALSE) do (1) end; (7)")]
SEPS = [" ", "\n", "\t", "\r\n", " # c\n", "  ", "\n\n", " #\n"]


def outcome(I, errors, src):
    try:
        return ("ok", str(I.interpret(src, "-")))
    except errors.CklRuntimeError as e:
        return ("err", str(e.value))
    except errors.CklSyntaxError as e:
        return ("syntax", "")
    except Exception as e:
        return ("host", repr(e))


def bounded(tier, seed):
    import random
    import time
    t0 = time.time()
    lexer, interp, errors = _mods()
    rnd = random.Random(seed)
    fails, ev = [], 0
    nrender = 40 if tier == "thorough" else 12
    for toks in PROGRAMS:
        base = " ".join(toks)
        I = interp.Interpreter(True, True)
        want = outcome(I, errors, base)
        for rno in range(nrender):
            # layout styles: free mix of separators; or a uniformly indented script (every line starts with the same margin,
            # as when a host program embeds the script in an indented multi-line string)
            margin = rnd.choice(["    ", "\t", "  "]) if rno % 3 == 2 else None
            seps = SEPS if margin is None else [" ", "\n" + margin, " # c\n" + margin, "  ", "\n" + margin + "\n" + margin]
            out = [rnd.choice(["", " ", "\n", "\t", "# lead\n", "  \n  "]) if margin is None else margin]
            for i, tk in enumerate(toks):
                tk2 = rnd.choice(SPELL.get(tk, [tk]))
                # redundant parentheses around literals / identifiers in operand position
                if rnd.random() < 0.15 and (tk2[0].isdigit() or tk2[0] in "'\"") and i > 0 and toks[i - 1] not in ("def", "for", "in", ")", "]") \
                        and (i + 1 >= len(toks) or toks[i + 1] not in ("(", "[")):
                    tk2 = "(" + tk2 + ")"
                out.append(tk2)
                out.append(rnd.choice(seps))
            src = "".join(out)
            if rnd.random() < 0.5:
                src += ";" + rnd.choice(["", "\n", " # end"])
            ev += 1
            got = outcome(interp.Interpreter(True, True), errors, src)
            if got != want:
                fails.append({"id": "bounded:re-rendering-changes-the-outcome", "input": repr(src), "observed": str(got), "expected": f"{want} (as for {base!r})"})
                break
    # optional trailing semicolons and redundant parentheses at every position where the grammar has them (fixed pairs)
    for a, b in PAIRS:
        ev += 1
        wa, wb = outcome(interp.Interpreter(True, True), errors, a), outcome(interp.Interpreter(True, True), errors, b)
        if wa != wb:
            fails.append({"id": f"bounded:same-program-two-layouts[{a} | {b}]", "input": repr(b), "observed": str(wb), "expected": f"{wa} (as for {a!r})"})
    # token level: every pair token/terminator with and without a separating space
    toks = ["x", "ab1", "12", "1.5", "0x1F", "0b11", "3_000", "TRUE", "if", "+", "<", "<=", "<<", ">>", "=", "!", "/", "*", "-", "%"]
    for a in toks:
        for c in "()[]<>=!+-*/%,;#\n\r\t ":
            ev += 1
            try:
                t1 = [(t.value, t.type) for t in lexer.Lexer(a + c + " z", "-").scan().tokens]
                t2 = [(t.value, t.type) for t in lexer.Lexer(a + " " + c + " z", "-").scan().tokens]
            except errors.CklSyntaxError:
                continue
            glue = {("+", "="), ("-", "="), ("*", "="), ("%", "="), ("/", "="), ("<", "="), (">", "="), ("=", "="), ("!", "="), ("<", ">"), ("<", "<"),
                    (">", ">"), ("-", ">"), ("*", ">"), ("!", ">"), ("<", "*"), ("=", ">"), ("/", "/"), ("<<", "<"), (">>", ">"), ("<=", ">"),
                    ("<<", "="), (">>", "="), ("<=", "="), ("<", "<"), ("<<", "<")}
            if (a, c) in glue or (a[-1], c) in glue:
                continue
            if t1 != t2:
                fails.append({"id": "bounded:adjacency", "input": repr(a + c), "observed": str(t1), "expected": str(t2)})
    seen, uniq = set(), []
    for f in fails:
        if f["id"] not in seen:
            seen.add(f["id"])
            uniq.append(f)
    return [BoundedResult("re-renderings (layout, comments, literal spellings, parentheses, trailing semicolons) on the real interpreter",
                          f"{len(PROGRAMS)} programs x {nrender} random re-renderings; {len(toks)} tokens x 20 following characters with/without a space",
                          ev, ev, uniq, [{"src": "def a = 0x1F # c\n"}], "parser-level clauses of the property are bounded only", time.time() - t0)]


def replay_b(fail):
    for b in bounded("quick", 0):
        if b.failures:
            f = dict(b.failures[0])
            f["reproduced"] = True
            return f
    return {"reproduced": False}
