"""C03 - Names resolve lexically and calls bind arguments as declared."""
import itertools
import z3

from pyvc.verify import Unit, Outcome
from pyvc.interp import Loop, PyRaise
from pyvc.values import SInt, SStr, SElem, SBool, Obj, PList, PDict, Builtin, zi, zs, zb, mk_bool, mk_int
from pyvc.runner import BoundedResult
from .common import Vals, StubFuncs, cls_name
from .nodekit import NodeKit, trace, val_id, VAL, ERR, KIND, EMPTY, SEQ, K_FUNC, K_OBJECT, K_MAP, TRUE_ID, NULL_ID

MANIFEST_ENTRY = {
    'category': 'proof',
    'text': "environment frames are maps of arbitrary content with an abstract parent chain (the parent's methods replaced by the same contract - induction over the chain): put writes exactly the receiver frame; set updates the nearest frame that defines the name, never adds a key, raises when none does; get/isDefined follow the chain; newEnv allocates a fresh child; a lambda node captures the environment of its evaluation, a call evaluates the body exactly once in a fresh child of the captured (not the caller's) environment, binds parameters in declaration order, evaluates a default in the callee frame at call time only when the argument is absent and rejects missing arguments; def puts into the current frame, assignment requires a definition and updates through set; invoke evaluates arguments left to right once each, expands spreads, calls execute exactly once and appends one stack-trace line; method calls walk the prototype chain and pass the original receiver first; argument matching (named, positional, rest) is proved against the binding spec for up to 3 parameters x 3 arguments (symbolic-bounded); the pipeline form by structural check of the parsed tree (bounded); destructuring assignment updates the nearest enclosing binding of every target and never creates one (two targets, symbolic-bounded); prototype walks end on cyclic and non-object prototypes",
    'note': 'getBase and the prototype walk on concrete chains of depth <= 4 (symbolic-bounded); Args.setArgs / spread expansion unrolled (bounded); children abstract',
    'technique': 'deductive verification: heap-view postconditions on symbolic frames (pyvc + z3), event traces for call semantics; symbolic-bounded unrolling for argument matching',
}
PROPERTY = "C03"
LEVEL = "proof"
TRUSTED = ["induction over the parent chain from the per-frame contract (the parent's set/get/isDefined are the same contract)"]
ASSUMPTIONS = ["children abstract; parameter lists <= 3, argument lists <= 3 for the matching rules (symbolic-bounded)"]
EXPLANATION = "heap-view contracts for environments, trace contracts for lambda/def/assign/invoke, bounded binding spec"

PDEF = z3.Function("PARENT_DEFINES", z3.StringSort(), z3.BoolSort())     # summary of the abstract parent chain
PVAL = z3.Function("PARENT_LOOKUP", z3.StringSort(), z3.IntSort())


def sym_frame(w, it, name, parent):
    E = w.import_module("ckl.functions").ns["Environment"]
    pd = PDict([], label=name + ".map")
    pd.sym_dom = z3.Array(name + ".dom", z3.StringSort(), z3.BoolSort())
    pd.sym_val = z3.Array(name + ".val", z3.StringSort(), z3.IntSort())
    pd.key_kind = "str"
    pd.val_sort = "value"
    pd.fresh = False
    o = Obj(E, {"map": pd, "parent": parent}, label=name)
    o.fresh = False
    return o


def units(w):
    V = Vals(w)
    K = NodeKit(w, V)
    F = StubFuncs(w)
    U = []
    funcs = w.import_module("ckl.functions").ns
    nodes = w.import_module("ckl.nodes").ns
    vals = w.import_module("ckl.values").ns
    ENV = funcs["Environment"]

    def install(world):
        K.install(world)
        world.hooks["value_as_elem"] = lambda it, v, node: SElem(val_id(v, V), "value") if val_id(v, V) is not None else it.unsupported("value in frame")

    # an abstract parent: its methods are the contract (summary functions PDEF / PVAL), calls are logged
    class ParentAbs:
        def __init__(self):
            self.cls = None

    def abstract_parent(it):
        from pyvc.values import PyClass
        cls = PyClass("AbsEnvironment", None, [w.object_cls])
        log = []

        def p_set(it_, a, k, n):
            log.append(("set", a[1], a[2]))
            if not it_.path.branch(PDEF(zs(a[1]))):
                e = Obj(w.import_module("ckl.errors").ns["CklRuntimeError"], {"value": V.opaque(it_, "ev"), "msg": "", "pos": None, "stacktrace": PList([])})
                e.fields["_from_parent"] = True
                raise PyRaise(e)
            return None

        def p_get(it_, a, k, n):
            log.append(("get", a[1]))
            if not it_.path.branch(PDEF(zs(a[1]))):
                e = Obj(w.import_module("ckl.errors").ns["CklRuntimeError"], {"value": V.opaque(it_, "ev"), "msg": "", "pos": None, "stacktrace": PList([])})
                e.fields["_from_parent"] = True
                raise PyRaise(e)
            return SElem(PVAL(zs(a[1])), "value")

        def p_isdef(it_, a, k, n):
            log.append(("isDefined", a[1]))
            return mk_bool(PDEF(zs(a[1])))
        cls.methods.update({"set": Builtin("AbsEnvironment.set", p_set), "get": Builtin("AbsEnvironment.get", p_get),
                            "isDefined": Builtin("AbsEnvironment.isDefined", p_isdef)})
        o = Obj(cls, {}, label="parent")
        o.fresh = False
        return o, log

    def env_unit(method, has_parent, post):
        def setup(it):
            K.axioms(it)
            parent, log = abstract_parent(it) if has_parent else (None, [])
            fr = sym_frame(w, it, "fr", parent)
            name, v = SStr(z3.String("name")), SElem(z3.Int("v"), "value")
            args = {"put": [fr, name, v], "set": [fr, name, v], "get": [fr, name], "isDefined": [fr, name], "remove": [fr, name]}[method]
            m = fr.fields["map"]
            return args, {}, {"fr": fr, "dom": m.sym_dom, "val": m.sym_val, "name": name.z, "v": v.z, "log": log, "parent": parent}

        def body(it, c):
            fn = w.func(f"functions.py::Environment.{method}")
            args = [c["fr"], SStr(c["name"])] + ([SElem(c["v"], "value")] if method in ("put", "set") else [])
            return Outcome("return", it.call_func(fn, args, {}))
        return Unit(f"functions.py::Environment.{method}", setup, post, name=f"functions.py::Environment.{method}[{'with' if has_parent else 'no'} parent]",
                    body=body, prepare=install, allowed=("CklRuntimeError", "KeyError") if method == "remove" else ("CklRuntimeError",))

    def frame_now(c):
        m = c["fr"].fields["map"]
        return m.sym_dom, m.sym_val

    def unchanged(c):
        d, v = frame_now(c)
        return z3.And(d == c["dom"], v == c["val"])

    def p_put(it, c, o):
        d, v = frame_now(c)
        it.check("post:exactly-the-receiver-frame-is-written(local binding)", z3.And(d == z3.Store(c["dom"], c["name"], True), v == z3.Store(c["val"], c["name"], c["v"])))
        it.check("post:parent-chain-not-touched", len(c["log"]) == 0)
    for hp in (False, True):
        U.append(env_unit("put", hp, p_put))

    def p_set(hp):
        def post(it, c, o):
            d, v = frame_now(c)
            here = z3.Select(c["dom"], c["name"])
            if o.kind == "return":
                it.check("post:set-never-adds-a-key", d == c["dom"])
                it.check("post:nearest-defining-frame-updated",
                         z3.If(here, z3.And(v == z3.Store(c["val"], c["name"], c["v"]), len(c["log"]) == 0),
                               z3.And(v == c["val"], len(c["log"]) == 1 and c["log"][0][0] == "set")))
                if not hp:
                    it.check("post:succeeds-only-if-defined", here)
            else:
                it.check("raises:only-when-no-frame-defines-the-name", z3.And(z3.Not(here), z3.Not(PDEF(c["name"])) if hp else True))
                it.check("raises:frame-unchanged", unchanged(c))
        return post
    for hp in (False, True):
        U.append(env_unit("set", hp, p_set(hp)))

    def p_get(hp):
        def post(it, c, o):
            here = z3.Select(c["dom"], c["name"])
            it.check("post:frame-unchanged", unchanged(c))
            if o.kind == "return":
                r = val_id(o.value, V)
                it.check("post:returns-a-value", r is not None)
                if r is not None:
                    it.check("post:nearest-binding-wins", z3.If(here, r == z3.Select(c["val"], c["name"]), z3.And(hp, PDEF(c["name"]), r == PVAL(c["name"]))))
            else:
                it.check("raises:only-when-undefined-in-the-whole-chain", z3.And(z3.Not(here), z3.Not(PDEF(c["name"])) if hp else True))
        return post
    for hp in (False, True):
        U.append(env_unit("get", hp, p_get(hp)))

    def p_isdef(hp):
        def post(it, c, o):
            here = z3.Select(c["dom"], c["name"])
            r = o.value.z if isinstance(o.value, SBool) else z3.BoolVal(bool(o.value))
            it.check("post:defined-iff-some-frame-of-the-chain-defines-it", r == (z3.Or(here, PDEF(c["name"])) if hp else here))
            it.check("post:frame-unchanged", unchanged(c))
        return post
    for hp in (False, True):
        U.append(env_unit("isDefined", hp, p_isdef(hp)))

    def p_remove(it, c, o):
        d, v = frame_now(c)
        it.check("post:only-the-receiver-frame-loses-the-name", z3.And(d == z3.Store(c["dom"], c["name"], False), len(c["log"]) == 0))
    U.append(env_unit("remove", True, p_remove))

    def s_newenv(it):
        fr = sym_frame(w, it, "fr", None)
        return [fr], {}, {"fr": fr, "dom": fr.fields["map"].sym_dom}

    def p_newenv(it, c, o):
        it.check("post:fresh-child-frame", o.kind == "return" and cls_name(o.value) == "Environment" and o.value.fresh and o.value is not c["fr"])
        it.check("post:parent-is-the-receiver", o.value.fields.get("parent") is c["fr"])
        it.check("post:child-starts-empty", isinstance(o.value.fields.get("map"), PDict) and not o.value.fields["map"].is_sym() and len(o.value.fields["map"].entries) == 0)
        it.check("post:receiver-unchanged", c["fr"].fields["map"].sym_dom is c["dom"])
    U.append(Unit("functions.py::Environment.newEnv", s_newenv, p_newenv, allowed=()))

    def base_unit(depth):
        def setup(it):
            chain = [sym_frame(w, it, "f0", None)]
            for i in range(1, depth):
                chain.append(sym_frame(w, it, f"f{i}", chain[-1]))
            return [chain[-1]], {}, {"root": chain[0]}
        return Unit("functions.py::Environment.getBase", setup,
                    lambda it, c, o: it.check("post:returns-the-root-of-the-chain", o.kind == "return" and o.value is c["root"]),
                    name=f"functions.py::Environment.getBase[depth {depth}]", allowed=(), bounded="parent chains of depth <= 4")
    for d in (1, 2, 3, 4):
        U.append(base_unit(d))

    # ================================================================== lambda node captures; call runs in a fresh child of the captured frame
    def conc_frame(it, name, parent, bindings=None):
        pd = PDict([[k, v] for k, v in (bindings or {}).items()])
        pd.fresh = False
        o = Obj(ENV, {"map": pd, "parent": parent}, label=name)
        o.fresh = False
        return o

    def s_nodelambda(it):
        K.axioms(it)
        env = conc_frame(it, "defenv", None)
        body = K.node("body")
        d1 = K.node("dflt")
        node = Obj(nodes["NodeLambda"], {"args": PList(["a", "b"]), "defs": PList([None, d1]), "body": body, "pos": None})
        node.fresh = False
        return [node, env], {}, {"env": env, "body": body, "d1": d1}

    def p_nodelambda(it, c, o):
        f = o.value
        it.check("post:result-is-a-FuncLambda", o.kind == "return" and cls_name(f) == "FuncLambda")
        it.check("post:captures-the-environment-of-evaluation(identity)", f.fields.get("lexicalEnv") is c["env"])
        it.check("post:parameters-and-defaults-in-declaration-order", [x for x in f.fields["argNames"].items] == ["a", "b"]
                 and f.fields["defValues"].items[0] is None and f.fields["defValues"].items[1] is c["d1"])
        it.check("post:body-is-the-node-body-nothing-evaluated-at-definition-time", f.fields.get("body") is c["body"] and z3.is_true(z3.simplify(z3.Length(trace(it)) == 0)))
    U.append(Unit("nodes.py::NodeLambda.evaluate", s_nodelambda, p_nodelambda, allowed=(), prepare=install))

    def call_unit(present):
        """FuncLambda.execute with parameters (a, b = default, c): `present` says which arguments are passed"""
        def setup(it):
            K.axioms(it)
            lex = conc_frame(it, "lexical", None, {"free": V.TRUE})
            caller = conc_frame(it, "caller", None, {"callervar": V.FALSE})
            seen = {}

            def on_body(it_, node, env, p):
                seen["body_env"] = env
                seen["body_at"] = p

            def on_dflt(it_, node, env, p):
                seen["dflt_env"] = env
                seen["dflt_at"] = p
                seen["dflt_bound_a"] = [e[0] for e in env.fields["map"].entries]
            body = K.node("body", on_eval=on_body)
            dflt = K.node("dflt", on_eval=on_dflt)
            f = Obj(funcs["FuncLambda"], {"name": "lambda", "secure": True, "lexicalEnv": lex, "argNames": PList(["a", "b", "c"]),
                                          "defValues": PList([None, dflt, None]), "body": body, "info": ""})
            f.fresh = False
            given = {n: SElem(z3.Int("arg_" + n), "value") for n in present}
            args = V.args(it, given, ["a", "b", "c"])
            return [f, args, caller, V.pos(it, "cpos")], {}, {"lex": lex, "caller": caller, "seen": seen, "given": given}

        def post(it, c, o):
            seen = c["seen"]
            missing = [n for n in ("a", "c") if n not in present]
            if missing:
                it.check("raises:missing-argument-without-default-is-a-language-error", o.kind == "raise" and o.exc_class == "CklRuntimeError")
                it.check("raises:body-not-evaluated", "body_env" not in seen)
                return
            if o.kind == "raise":
                if it.ghost.get("last_exc") is not o.exc:
                    # not a child's error: the body yielded a stray break/continue, which a call rejects
                    bv = VAL(seen["body_at"]) if "body_at" in seen else None
                    it.check("raises:only-a-child-error-or-a-stray-break/continue-of-the-body", bv is not None and
                             z3.And(o.exc_class == "CklRuntimeError", z3.Or(KIND(bv) == 3, KIND(bv) == 4)))
                if "body_env" not in seen:
                    return
            env = seen.get("body_env")
            it.check("post:body-evaluated-exactly-once", env is not None and sum(1 for e in it.trace if e[0] == "eval" and e[1] is not None and str(e[1].z if hasattr(e[1], 'z') else e[1]) == "body") == 1)
            it.check("post:body-frame-is-freshly-allocated", isinstance(env, Obj) and env.fresh)
            it.check("post:body-frame-is-a-child-of-the-captured-frame-not-of-the-caller", env.fields.get("parent") is c["lex"] and env is not c["caller"])
            it.check("post:caller-frame-untouched", [e[0] for e in c["caller"].fields["map"].entries] == ["callervar"])
            bound = {e[0]: e[1] for e in env.fields["map"].entries}
            it.check("post:exactly-the-parameters-are-bound", list(bound.keys()) == ["a", "b", "c"])
            for n in present:
                it.check(f"post:parameter-{n}-bound-to-its-argument", bound.get(n) is c["given"][n])
            if "b" in present:
                it.check("post:default-not-evaluated-when-the-argument-is-present", "dflt_env" not in seen)
            else:
                it.check("post:default-evaluated-at-call-time-in-the-callee-frame-after-earlier-parameters",
                         seen.get("dflt_env") is env and seen.get("dflt_bound_a") == ["a"])
                it.check("post:parameter-b-bound-to-the-default-value", val_id(bound.get("b"), V) is not None)
                if val_id(bound.get("b"), V) is not None:
                    it.check("post:default-value-is-what-the-default-expression-yielded", val_id(bound["b"], V) == VAL(seen["dflt_at"]))
        return Unit("functions.py::FuncLambda.execute", setup, post, name=f"functions.py::FuncLambda.execute[args {','.join(present) or 'none'}]",
                    prepare=install, replay=replay_prog)
    for present in ([], ["a"], ["c"], ["a", "c"], ["a", "b", "c"], ["b", "c"]):
        U.append(call_unit(present))

    # ================================================================== def / assignment
    def s_def(it):
        K.axioms(it)
        fr = sym_frame(w, it, "fr", None)
        node = Obj(nodes["NodeDef"], {"identifier": SStr(z3.String("name")), "expression": K.node("e"), "info": "", "pos": None})
        node.fresh = False
        return [node, fr], {}, {"fr": fr, "dom": fr.fields["map"].sym_dom, "val": fr.fields["map"].sym_val}

    def p_def(it, c, o):
        m = c["fr"].fields["map"]
        if o.kind == "raise":
            it.check("raises:only-operand-error-frame-unchanged", z3.And(m.sym_dom == c["dom"], m.sym_val == c["val"]))
            return
        it.check("post:right-hand-side-evaluated-exactly-once", z3.Length(trace(it)) == 1)
        it.check("post:binds-in-the-current-frame", z3.And(m.sym_dom == z3.Store(c["dom"], z3.String("name"), True),
                                                           m.sym_val == z3.Store(c["val"], z3.String("name"), VAL(z3.IntVal(0)))))
    U.append(Unit("nodes.py::NodeDef.evaluate", s_def, p_def, prepare=install))

    def s_assign(it):
        K.axioms(it)
        parent, log = abstract_parent(it)
        fr = sym_frame(w, it, "fr", parent)
        node = Obj(nodes["NodeAssign"], {"identifier": SStr(z3.String("name")), "expression": K.node("e"), "pos": None})
        node.fresh = False
        return [node, fr], {}, {"fr": fr, "dom": fr.fields["map"].sym_dom, "val": fr.fields["map"].sym_val, "log": log}

    def p_assign(it, c, o):
        m = c["fr"].fields["map"]
        here = z3.Select(c["dom"], z3.String("name"))
        defined = z3.Or(here, PDEF(z3.String("name")))
        p = z3.Length(trace(it))
        if o.kind == "raise" and it.ghost.get("last_exc") is not o.exc and not o.exc.fields.get("_from_parent"):
            it.check("raises:undefined-variable-is-an-error-before-anything-is-evaluated", z3.And(z3.Not(defined), p == 0))
            it.check("raises:no-binding-created", z3.And(m.sym_dom == c["dom"], m.sym_val == c["val"]))
            return
        it.check("post:assignment-never-creates-a-binding", m.sym_dom == c["dom"])
        if o.kind == "return":
            it.check("post:was-defined", defined)
            it.check("post:nearest-enclosing-binding-updated", z3.If(here, m.sym_val == z3.Store(c["val"], z3.String("name"), VAL(z3.IntVal(0))),
                                                                     z3.And(m.sym_val == c["val"], any(l[0] == "set" for l in c["log"]))))
    U.append(Unit("nodes.py::NodeAssign.evaluate", s_assign, p_assign, prepare=install))

    # destructuring assignment: every target is an assignment (updates the nearest enclosing binding, never creates one)
    def s_assign_destr(it):
        K.axioms(it)
        parent, log = abstract_parent(it)
        fr = sym_frame(w, it, "fr", parent)
        vals_ = V.list_of(it, [SElem(z3.Int("rhs0"), "value"), SElem(z3.Int("rhs1"), "value")], "rhs")
        it.assume(z3.String("name0") != z3.String("name1"))
        node = Obj(nodes["NodeAssignDestructuring"], {"identifiers": PList([SStr(z3.String("name0")), SStr(z3.String("name1"))]),
                                                      "expression": Obj(nodes["NodeLiteral"], {"value": vals_, "pos": None}), "pos": None})
        node.fresh = False
        return [node, fr], {}, {"fr": fr, "dom": fr.fields["map"].sym_dom, "val": fr.fields["map"].sym_val, "log": log}

    def p_assign_destr(it, c, o):
        m = c["fr"].fields["map"]
        it.check("post:destructuring-assignment-never-creates-a-binding", m.sym_dom == c["dom"])
        if o.kind == "return":
            n0, n1 = z3.String("name0"), z3.String("name1")
            for i, nm in enumerate((n0, n1)):
                here = z3.Select(c["dom"], nm)
                it.check(f"post:target-{i}-was-defined", z3.Or(here, PDEF(nm)))
                sets = [l for l in c["log"] if l[0] == "set"]
                it.check(f"post:target-{i}: the-nearest-enclosing-binding-is-updated",
                         z3.If(here, z3.Select(m.sym_val, nm) == z3.Int(f"rhs{i}"),
                               z3.Or(*[z3.And(zs(l[1]) == nm, (l[2].z if isinstance(l[2], SElem) else z3.IntVal(-7)) == z3.Int(f"rhs{i}")) for l in sets]) if sets else False))
    U.append(Unit("nodes.py::NodeAssignDestructuring.evaluate", s_assign_destr, p_assign_destr, prepare=install,
                  bounded="two targets", replay=replay_prog))

    # ================================================================== invoke: evaluation order, single execute, stack trace
    def s_invoke(nargs, spread_at):
        def setup(it):
            K.axioms(it)
            calls = []

            def beh(it_, vals_):
                calls.append(vals_)
                return SElem(z3.Int("fnresult"), "value")
            fn = F.func("callee", ["p0", "p1", "p2", "rest..."], beh)
            argnodes = []
            for i in range(nargs):
                if i == spread_at:
                    inner = K.node(f"a{i}")
                    argnodes.append(Obj(nodes["NodeSpread"], {"expression": inner, "pos": None}))
                else:
                    argnodes.append(K.node(f"a{i}"))
            env = conc_frame(it, "env", None)
            return [fn, PList([None] * nargs), PList(argnodes), env, V.pos(it, "cpos")], {}, {"calls": calls, "n": nargs}
        return setup

    def p_invoke(nargs, spread_at):
        def post(it, c, o):
            ids = [z3.Int(f"a{i}") for i in range(nargs)]
            exp = EMPTY
            for x in ids:
                exp = z3.Concat(exp, z3.Unit(x))
            if o.kind == "return":
                it.check("post:arguments-evaluated-left-to-right-exactly-once", trace(it) == z3.simplify(exp))
                it.check("post:execute-called-exactly-once", len(c["calls"]) == 1)
                it.check("post:result-is-the-callee-result", val_id(o.value, V) == z3.Int("fnresult"))
                if len(c["calls"]) == 1 and spread_at is None:
                    vs = c["calls"][0]
                    it.check("post:positional-arguments-bound-in-order", len(vs) >= nargs and all(
                        z3.is_true(z3.simplify(val_id(vs[i], V) == VAL(z3.IntVal(i)))) for i in range(min(nargs, 3))))
            else:
                it.check("raises:language-error", o.exc_class == "CklRuntimeError")
        return post
    for nargs in (0, 1, 2, 3):
        U.append(Unit("nodes.py::invoke", s_invoke(nargs, None), p_invoke(nargs, None), name=f"nodes.py::invoke[{nargs} positional args]",
                      prepare=install, bounded="argument lists of length <= 3", replay=replay_prog))

    # ================================================================== method call: prototype chain, receiver first
    def s_method(depth, where, tail=None):
        def setup(it):
            K.axioms(it)
            calls = []

            def beh(it_, vals_):
                calls.append(vals_)
                return SElem(z3.Int("fnresult"), "value")
            fn = F.func("m", ["self", "x"], beh)
            other = F.func("shadowed", ["self", "x"], beh)
            objs = []
            for i in range(depth):
                ents = []
                if i == where:
                    ents.append(("m", fn))
                if i > where and where >= 0:
                    ents.append(("m", other))          # a definition further up the chain must not win
                objs.append(V.object_of(it, ents, f"o{i}"))
            for i in range(depth - 1):
                objs[i].fields["value"].entries.append(["_proto_", objs[i + 1]])
            if tail and tail.startswith("cycle"):
                objs[-1].fields["value"].entries.append(["_proto_", objs[int(tail[5:] or 0)]])   # the chain runs into a cycle (through the start or not)
            elif tail == "scalar":
                objs[-1].fields["value"].entries.append(["_proto_", V.int(it, "notanobject")])
            recv = objs[0]
            node = Obj(nodes["NodeDerefInvoke"], {"objectExpr": Obj(nodes["NodeLiteral"], {"value": recv, "pos": None}), "member": "m",
                                                  "names": PList([None]), "args": PList([K.node("arg")]), "pos": V.pos(it)})
            node.fresh = False
            return [node, conc_frame(it, "env", None)], {}, {"calls": calls, "fn": fn, "recv": recv, "where": where}
        return setup

    def p_method(depth, where):
        def post(it, c, o):
            if where < 0:
                it.check("raises:member-not-found-is-a-language-error", o.kind == "raise" and o.exc_class == "CklRuntimeError" and len(c["calls"]) == 0)
                return
            if o.kind == "raise":
                it.check("raises:only-an-argument-error-propagated", it.ghost.get("last_exc") is o.exc and len(c["calls"]) == 0)
                return
            it.check("post:returns-callee-result", val_id(o.value, V) == z3.Int("fnresult"))
            it.check("post:first-definition-along-the-prototype-chain-is-called-once", len(c["calls"]) == 1)
            if len(c["calls"]) == 1:
                vs = c["calls"][0]
                it.check("post:original-receiver-is-passed-first-then-the-arguments", len(vs) == 2 and vs[0] is c["recv"]
                         and z3.is_true(z3.simplify(val_id(vs[1], V) == VAL(z3.IntVal(0)))))
        return post
    for depth in (1, 2, 3, 4, 5):
        for where in range(-1, depth):
            for tail in [None, "scalar"] + [f"cycle{k}" for k in range(depth)]:
                U.append(Unit("nodes.py::NodeDerefInvoke.evaluate", s_method(depth, where, tail), p_method(depth, where),
                              name=f"nodes.py::NodeDerefInvoke.evaluate[chain {depth}, member at {where}" + (f", chain ends in a {tail}" if tail == "scalar" else f", chain runs into a cycle at {tail[5:]}" if tail else "") + "]",
                              prepare=install, bounded="prototype chains of depth <= 3 (<= 5 in the thorough tier)", replay=replay_prog,
                              config={"max_unroll": 8, "unroll_overflow_is_nontermination": True}))
                U[-1].thorough_only = depth > 3

    # member read through the chain (NodeDeref, object branch) and ValueObject.resolveItem: same walk, same ends
    def s_read(depth, where, tail, target):
        def setup(it):
            K.axioms(it)
            objs = []
            for i in range(depth):
                ents = [("m", SElem(z3.Int(f"found{i}"), "value"))] if (i == where or (i > where >= 0)) else []
                objs.append(V.object_of(it, ents, f"o{i}"))
            for i in range(depth - 1):
                objs[i].fields["value"].entries.append(["_proto_", objs[i + 1]])
            if tail and tail.startswith("cycle"):
                objs[-1].fields["value"].entries.append(["_proto_", objs[int(tail[5:] or 0)]])
            elif tail == "scalar":
                objs[-1].fields["value"].entries.append(["_proto_", V.int(it, "notanobject")])
            if target == "resolveItem":
                return [objs[0], "m"], {}, {"where": where}
            node = Obj(nodes["NodeDeref"], {"expression": Obj(nodes["NodeLiteral"], {"value": objs[0], "pos": None}),
                                            "index": Obj(nodes["NodeLiteral"], {"value": V._mk("ValueString", {"value": "m"}), "pos": None}),
                                            "default_value": None, "pos": V.pos(it)})
            node.fresh = False
            return [node, conc_frame(it, "env", None)], {}, {"where": where}
        return setup

    def p_read(target):
        def post(it, c, o):
            w_ = c["where"]
            if w_ < 0:
                it.check("post:a-member-found-nowhere-on-the-chain-reads-as-absent", o.kind == "return" and (o.value is V.NULL or o.value is None))
            else:
                it.check("post:the-first-definition-along-the-chain-is-read", o.kind == "return" and isinstance(o.value, SElem)
                         and z3.eq(o.value.z, z3.Int(f"found{w_}")))
        return post
    for target, qual in (("NodeDeref", "nodes.py::NodeDeref.evaluate"), ("resolveItem", "values.py::ValueObject.resolveItem")):
        for depth in (1, 2, 3, 4, 5):
            for where in range(-1, depth):
                for tail in [None, "scalar"] + [f"cycle{k}" for k in range(depth)]:
                    U.append(Unit(qual, s_read(depth, where, tail, target), p_read(target),
                                  name=f"{qual}[chain {depth}, member at {where}" + (f", chain ends in a {tail}" if tail == "scalar" else f", chain runs into a cycle at {tail[5:]}" if tail else "") + "]",
                                  prepare=install, bounded="prototype chains of depth <= 3 (<= 5 in the thorough tier)", replay=replay_prog, allowed=(),
                                  config={"max_unroll": 8, "unroll_overflow_is_nontermination": True}))
                    U[-1].thorough_only = depth > 3

    # ================================================================== Args.setArgs against the binding spec (symbolic-bounded)
    def bind_spec(params, rest, names, values):
        """from the property: named first; positionals to the remaining parameters in order; surplus to rest"""
        A, R = {}, []
        for nm, v in zip(names, values):
            if nm is not None:
                if nm not in params:
                    return "error"
                A[nm] = v
        seen_named = False
        for nm, v in zip(names, values):
            if nm is None:
                if seen_named:
                    return "error"
                free = [p for p in params if p not in A]
                if free:
                    A[free[0]] = v
                elif rest is None:
                    return "error"
                else:
                    R.append(v)
            else:
                seen_named = True
        return A, R

    def setargs_unit(params, rest, names):
        def setup(it):
            K.axioms(it)
            a = Obj(vals["Args"], {"argNames": PList(list(params)), "args": PDict([]), "restArgName": rest, "pos": V.pos(it)})
            values = [SElem(z3.Int(f"v{i}"), "value") for i in range(len(names))]
            return [a, PList(list(names)), PList(values)], {}, {"a": a, "values": values}

        def post(it, c, o):
            spec = bind_spec(params, rest, names, c["values"])
            if spec == "error":
                it.check("raises:unknown-name/surplus-without-rest/positional-after-named-is-a-language-error", o.kind == "raise" and o.exc_class == "CklRuntimeError")
                return
            A, R = spec
            it.check("post:binds", o.kind == "return")
            got = {e[0]: e[1] for e in c["a"].fields["args"].entries}
            it.check("post:parameters-bound-as-the-spec-says", all(got.get(k) is v for k, v in A.items()) and
                     set(got.keys()) - ({rest} if rest else set()) == set(A.keys()))
            if rest:
                rl = got.get(rest)
                it.check("post:surplus-positionals-go-to-the-rest-list-in-order", rl is not None and cls_name(rl) == "ValueList"
                         and len(rl.fields["value"].items) == len(R) and all(x is y for x, y in zip(rl.fields["value"].items, R)))
        return Unit("values.py::Args.setArgs", setup, post, name=f"values.py::Args.setArgs[params={params},rest={rest},names={names}]",
                    prepare=install, bounded="<= 3 parameters, <= 3 arguments", replay=replay_prog)
    for params in ([], ["a"], ["a", "b"], ["a", "b", "c"]):
        for rest in (None, "r..."):
            for n in range(0, 4):
                for names in itertools.product([None, "a", "b", "zz"], repeat=n):
                    if len([x for x in names if x is not None]) != len(set(x for x in names if x is not None)):
                        continue
                    if sum(1 for x in names if x is not None) > 2:
                        continue
                    U.append(setargs_unit(params, rest, list(names)))
    return U


# ----------------------------------------------------------------------------- bounded programs (real interpreter)

def _interp():
    import importlib
    import sys
    import os
    root = os.path.join(os.environ.get("VERIF_REPO", "/repo"), "src")
    if root not in sys.path:
        sys.path.insert(0, root)
    for m in [k for k in sys.modules if k == "ckl" or k.startswith("ckl.")]:
        del sys.modules[m]
    return importlib.import_module("ckl.interpreter"), importlib.import_module("ckl.errors"), importlib.import_module("ckl.parser")


PROGS = [
    ("def x = 1; def f() x; def g() do def x = 2; f() end; g()", "1"),
    ("def mk() do def n = 0; fn() do n += 1; n end end; def c1 = mk(); def c2 = mk(); c1(); c1(); [c1(), c2()]", "[3, 1]"),
    ("def x = 1; def f() do x = 5; x end; [f(), x]", "[5, 5]"),
    ("def x = 1; def f() do def x = 5; x end; [f(), x]", "[5, 1]"),
    ("def f() do y = 1 end; do f() catch all 'undefined' end", "'undefined'"),
    ("def adder(a) fn(b) fn(c) a + b + c; def f1 = adder(1); def f2 = f1(2); [f2(3), adder(1)(2)(3)]", "[6, 6]"),
    ("def compose(f, g) fn(x) f(g(x)); compose(fn(x) x * 2, fn(x) x + 1)(5)", "12"),
    ("def f(a, b = a * 2, c = b + 1) [a, b, c]; [f(1), f(1, 5), f(1, c = 0), f(b = 3, a = 2)]", "[[1, 2, 3], [1, 5, 6], [1, 2, 0], [2, 3, 4]]"),
    ("def f(a, rest...) [a, rest...]; [f(1), f(1, 2, 3)]", "[[1, []], [1, [2, 3]]]"),
    ("def f(a, b, c) [a, b, c]; [f(...[1, 2, 3]), f(1, ...[2, 3]), f(...<<<'c' => 3, 'a' => 1, 'b' => 2>>>)]", "[[1, 2, 3], [1, 2, 3], [1, 2, 3]]"),
    # named arguments first, positional ones fill the remaining parameters in order, surplus positionals go to the rest parameter
    ("def f(a, b = 5) [a, b]; f(1, a = 2)", "[2, 1]"),
    ("def g(a, b, r...) [a, b, r...]; g(1, 2, 3, a = 9)", "[9, 1, [2, 3]]"),
    ("def k(a, b, c = 0) [a, b, c]; 10 !> k(20, a = 1)", "[1, 10, 20]"),
    ("def h(a, b, c) [a, b, c]; [h(1, 2, b = 9), h(1, c = 7, b = 8), do h(c = 3, 1, 2) catch all 'positional after named' end]", "[[1, 9, 2], [1, 8, 7], 'positional after named']"),
    ("def h(a, b, c) [a, b, c]; h(1, 2, ...<<<'a' => 0>>>)", "[0, 1, 2]"),
    # member lookup follows the prototype chain and ends on a cyclic chain or a prototype that is not an object
    ("def o = <*a = 1*>; o->_proto_ = o; [o->a, o->x]", "[1, NULL]"),
    ("def o = <*a = 1*>; def p = <*_proto_ = o, b = 2*>; o->_proto_ = p; [p->a, p->zz, do p->zz() catch all 'no member' end]", "[1, NULL, 'no member']"),
    ("def o = <*_proto_ = 5, a = 1*>; [o->a, o->x, do o->x() catch all 'no member' end]", "[1, NULL, 'no member']"),
    ("def base = <*f = fn(self) self->k, k = 1*>; def o = <*_proto_ = base, k = 2*>; o->f()", "2"),
    # destructuring assignment updates enclosing bindings
    ("def a = 1; def b = 2; def swap() do [a, b] = [b, a]; end; swap(); [a, b]", "[2, 1]"),
    ("def mk() do def lo = 0; def hi = 1; fn() do [lo, hi] = [hi, lo + hi]; lo end end; def nxt = mk(); nxt(); nxt(); nxt(); nxt()", "3"),
    ("def a = 'top'; def f() do def b = 'mid'; def g() do [a, b] = ['set', 'set'] end; g(); b end; [f(), a]", "['set', 'set']"),
    ("def f() do [zz1, zz2] = [1, 2] end; do f() catch all 'undefined' end", "'undefined'"),
    ("def f(x, a) [x, a]; 1 !> f(2)", "[1, 2]"), ("def f(x, a = 9) [x, a]; [1 !> f(), 1 !> f(a = 3)]", "[[1, 9], [1, 3]]"),
    ("def o = <*v = 3, m = fn(self, k) self->v * k*>; o->m(2)", "6"),
    ("def base = <*m = fn(self) self->tag*>; def o = <*_proto_ = base, tag = 'child'*>; o->m()", "'child'"),
    ("def base = <*m = fn(self) 'base'*>; def mid = <*_proto_ = base, m = fn(self) 'mid'*>; def o = <*_proto_ = mid*>; o->m()", "'mid'"),
    ("def f(a) a; do f() catch all 'missing' end", "'missing'"), ("def f(a) a; do f(1, 2) catch all 'too many' end", "'too many'"),
    ("def f(a) a; do f(b = 1) catch all 'unknown' end", "'unknown'"),
    ("def x = 'g'; def f(x) do def g() x; g() end; f('param')", "'param'"),
    ("def n = 0; def d() do n += 1; n end; def f(a = d()) a; f(); f(); [f(), n]", "[3, 3]"),
    ("def x = 0; for i in [1, 2] do def y = i; x += y end; [x, y]", "[3, 2]"),
    # every call gets fresh bindings: a default expression is evaluated at each call that needs it (never remembered)
    ("def collect(x, acc = []) do append(acc, x); acc end; [collect(1), collect(2), collect(3, [0])]", "[[1], [2], [0, 3]]"),
    ("def reg(k, m = <<<>>>) do m[k] = 1; m end; [reg('a'), reg('b')]", "[<<<'a' => 1>>>, <<<'b' => 1>>>]"),
    ("def n = 0; def nxt() do n += 1; n end; def f(a = nxt()) a; [f(), f(), f(10), f()]", "[1, 2, 10, 3]"),
    ("def f = fn(x, s = <<>>) do append(s, x); s end; [f(1), f(2)]", "[<<1>>, <<2>>]"),
    # member lookup follows the prototype chain at every call: a call site remembers nothing about earlier receivers
    ("def base = <*m = fn(self, x) 'base:' + x*>; def o = <*_proto_ = base*>; def r = []; for i in [1, 2] do append(r, o->m('x')); o->m = fn(self, x) 'own:' + x end; r", "['base:x', 'own:x']"),
    ("def top = <*m = fn(self) 'top'*>; def mid = <*_proto_ = top*>; def o = <*_proto_ = mid*>; def call() o->m(); def r = [call()]; mid->m = fn(self) 'mid'; append(r, call()); r", "['top', 'mid']"),
    ("def a = <*m = fn(self) 'a'*>; def b = <*m = fn(self) 'b'*>; def o = <*_proto_ = a*>; def r = []; for p in [a, b, a] do o->_proto_ = p; append(r, o->m()) end; r", "['a', 'b', 'a']"),
    ("def a = <*m = fn(self) 'a'*>; def o = <*_proto_ = a*>; def r = []; for i in [1, 2] do append(r, o->m()); a->m = fn(self) 'a2' end; r", "['a', 'a2']"),
]


def bounded(tier, seed):
    import time
    t0 = time.time()
    interp, errors, parser = _interp()
    fails, ev = [], 0
    import signal

    class _Alarm(BaseException):
        pass

    def _raise(*a):
        raise _Alarm()
    signal.signal(signal.SIGALRM, _raise)
    for src, exp in PROGS:
        ev += 1
        try:
            signal.setitimer(signal.ITIMER_REAL, 5.0)
            try:
                obs = str(interp.Interpreter(True, True).interpret(src, "-"))
            finally:
                signal.setitimer(signal.ITIMER_REAL, 0)
        except _Alarm:
            obs = "does not terminate within 5 s"
        except Exception as e:
            obs = repr(e)
        if obs != exp:
            fails.append({"id": "bounded:scoping-program", "input": src, "observed": obs, "expected": exp})
    # pipeline form: structure of the parsed tree
    for src in ("x !> f(a)", "x !> f(a, b = 1)", "x !> m->f(a)", "x !> (fn(p, q) p)(a)"):
        ev += 1
        try:
            node = parser.parse_script(src, "-")
            ok = type(node).__name__ == "NodeFuncall" and node.names[0] is None and type(node.args[0]).__name__ == "NodeIdentifier" \
                and node.args[0].value == "x" and len(node.args) >= 2
            obs = type(node).__name__ + "(" + ", ".join(type(a).__name__ for a in getattr(node, "args", [])) + ")"
        except Exception as e:
            ok, obs = False, repr(e)
        if not ok:
            fails.append({"id": "bounded:pipeline-inserts-left-operand-first", "input": src, "observed": obs, "expected": "NodeFuncall with x as first positional argument"})
    return [BoundedResult("scoping/binding programs and pipeline parse structure (real interpreter)", f"{ev} programs", ev, ev, fails[:3],
                          [{"src": PROGS[1][0]}], "cross-check of the proof part; pipeline form is bounded only", time.time() - t0)]


def replay_prog(fail):
    for b in bounded("quick", 0):
        if b.failures:
            f = dict(b.failures[0])
            f["reproduced"] = True
            return f
    return {"reproduced": False}
