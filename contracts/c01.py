"""C01 - Parsing is total: every source text yields a program or a syntax error.

Lexer: the loop body of Lexer.scan is proved, for every scanner state and an arbitrary character, to raise nothing but
CklSyntaxError (with message and position), to re-establish the per-state invariant, and to make progress
(lexicographic variant (|script| - pos, rank(state))): the scanner terminates and never raises a host exception.
Lexer cursor methods: proved against the abstract token sequence (contracts/parserproof.py).
Parser functions: contracts/parserproof.py (abstract token stream, sub-parsers by contract), plus bounded fuzzing.
"""
import z3

from pyvc.verify import Unit, Outcome
from pyvc.values import SInt, SStr, SBool, Obj, PList, zi, zs, zb
from pyvc.runner import BoundedResult
from .lexstep import STATES, RANK, step_unit, state_inv

MANIFEST_ENTRY = {
    'category': 'proof',
    'text': 'scanner: for every state and an arbitrary character one execution of the real loop body raises only CklSyntaxError carrying a message and a SourcePos, re-establishes the per-state invariant and decreases the lexicographic variant (remaining characters, state rank) - so scanning terminates without host exceptions for every text; parser: every parse function is verified on an abstract token sequence with its sub-parsers replaced by the contract (returns a node after consuming at least one token, or raises CklSyntaxError with message and position, cursor stays within the token list), every loop consumes a token per iteration, nodes returned by sub-parsers are not modified (frame), parse() returns a program only when all tokens are consumed, parse_script converts a host stack overflow into a syntax error; identifier tokens are never keywords (scanner-step obligation the parser units rely on); bounded stand-in: exhaustive short token sequences, mutations of grammatical programs and character noise on the real parser under a 2 s alarm; no parse function writes module-level state (the outcome depends on the text alone), cross-checked by probe texts parsed before and after thousands of other texts in one process; the same texts parsed in fresh processes under different string-hash seeds give the same program text / message / position (bounded)',
    'note': 'nesting deeper than the host stack: RecursionError is modelled as an outcome of parse() and proved to be converted by parse_script (where it strikes is not modelled); numeral shapes of int/decimal tokens assumed by the parser units are bounded only (fuzzing); re.compile raises only re.error/OverflowError/RecursionError (guarded); code points below U+30000; composition over iterations / recursion is the standard inductive argument',
    'technique': 'deductive verification: per-step VCs of the scanner loop body and per-function VCs of the parser on an abstract token stream (pyvc + z3); bounded fuzzing as cross-check',
}
PROPERTY = "C01"
LEVEL = "proof"
UNIT_BUDGET_S = 600
TRUSTED = ["structural induction over loop iterations and recursive calls from the per-step / per-function obligations"]
ASSUMPTIONS = ["nesting depth below the host recursion limit (the property quantifies depth <= 40)", "code points below U+30000 (z3's character range)"]
EXPLANATION = "scanner: inductive invariant + variant per state; parser: per-function contracts on an abstract token stream; bounded fuzzing"


def units(w):
    U = []

    def post_for(q):
        def post(it, st, o):
            if o.kind == "raise":
                p = o.exc.fields.get("pos")
                it.check("raises:syntax-error-carries-message-and-position", isinstance(p, Obj) and p.cls.name == "SourcePos"
                         and o.exc.fields.get("msg") is not None)
                return
            L, pre = st.post, st.pre
            q2 = L["state"]
            it.check("post:next-state-is-a-known-state", isinstance(q2, int) and q2 in STATES)
            if isinstance(q2, int) and q2 in STATES:
                for i, c in enumerate(state_inv(q2, L)):
                    it.check(f"inv:step:state-invariant[{i}]", c)
            # termination: (|script| - pos, rank(state)) decreases lexicographically
            adv = zi(L["pos"]) == zi(pre["pos"]) + 1
            same = zi(L["pos"]) == zi(pre["pos"])
            r0, r1 = RANK.get(q, 0), RANK.get(q2, 0) if isinstance(q2, int) else 3
            it.check("variant:progress-or-lower-rank", z3.Or(adv, z3.And(same, r1 < r0)))
            it.check("post:cursor-stays-in-the-text", z3.And(zi(L["pos"]) >= 0, zi(L["pos"]) <= zi(pre["n"])))
            # what the parser units assume about every token (contracts/parserproof.py TOKEN_WF): word classes are disjoint
            from .parserproof import WORDS_NOT_IDENTIFIERS
            from pyvc.values import zs, is_strlike
            for t in st.emitted:
                ty, va = t.fields["type"], t.fields["value"]
                it.check("post:emitted-token-has-a-known-type", isinstance(ty, str) and ty in ("identifier", "keyword", "boolean", "string", "int", "decimal",
                                                                                          "pattern", "operator", "interpunction"), detail=repr(ty))
                if ty == "identifier":
                    it.check("post:an-identifier-token-is-never-a-keyword-or-TRUE/FALSE", z3.And(*[zs(va) != z3.StringVal(k) for k in WORDS_NOT_IDENTIFIERS]) if is_strlike(va) else False)
        return post
    for q in STATES:
        U.append(step_unit(w, f"state {q}: safety, invariant, progress", q, post_for(q), replay=replay_b))
    try:
        from .parserproof import parser_units
        U.extend(parser_units(w, "C01"))
    except ImportError:
        pass
    return U


# ----------------------------------------------------------------------------- bounded fuzzing of the real parser

ALPHABET = ["if", "then", "elif", "else", "and", "or", "not", "is", "in", "def", "fn", "for", "while", "do", "end", "finally", "catch",
            "break", "continue", "return", "error", "require", "as", "also", "x", "y", "class", "all", "keys", "unqualified", "import",
            "1", "2.5", "0x1F", "0b1", "'s'", "//a//", "TRUE", "NULL", "+", "-", "*", "/", "%", "==", "<>", "!=", "<", "<=", ">", ">=", "=",
            "+=", "!>", "->", "(", ")", "[", "]", ",", ";", "<<", ">>", "<<<", ">>>", "<*", "*>", "=>", "...", "to", "empty", "string", "list",
            "zero", "numerical", "checkerlang_x"]
PROGRAMS = [
    "def f(a, b = 2, rest...) do def x = a + b; return x * 2; end; f(1, b = 3, ...[4, 5])",
    "for [k, v] in entries <<<1 => 2>>> do if k is not zero then break else continue end",
    "def o = <*a = 1, f = fn(self) self->a*>; o->f() !> string()",
    "[x * 2 for x in range(10) if x % 2 == 0]; <<y for y in [1, 2] also for z in [3]>>",
    "do error 'x' catch 'x' 1 catch all 2 finally 3 end",
    "require Math import [sin as s, cos]; require List unqualified; require 'x/y' as Z",
    "def class P do def x = 1; def m(self) self->x end; new(P)->m()",
    "a[1 to 2] = b[0][1, 'dflt']; [p, q] = [1, 2]; def [r, s] = <<1, 2>>",
    "while not (a < b <= c and d in e or f is string) do a += 1 end",
    "1 is numerical 3 5; s is at_least 3 digits; x is not empty; -x; -(1); //a.b//",
]


def _parse_mod():
    import importlib
    import sys
    import os
    root = os.path.join(os.environ.get("VERIF_REPO", "/repo"), "src")
    if root not in sys.path:
        sys.path.insert(0, root)
    for m in [k for k in sys.modules if k == "ckl" or k.startswith("ckl.")]:
        del sys.modules[m]
    return importlib.import_module("ckl.parser"), importlib.import_module("ckl.errors"), importlib.import_module("ckl.lexer")


class _Alarm(BaseException):
    pass


def _try(parser, errors, src):
    import signal
    try:
        signal.setitimer(signal.ITIMER_REAL, 2.0)
        try:
            n = parser.parse_script(src, "fuzz")
            # every node of a program renders (the parser puts renderings of nodes into syntax error messages; the proof
            # units assume that rendering a node returned by a sub-parser is total)
            try:
                repr(n)
            except RecursionError:
                pass      # rendering a very deep tree from the host side is the harness's own recursion, not the parser's
            return ("ok", "node")
        finally:
            signal.setitimer(signal.ITIMER_REAL, 0)
    except errors.CklSyntaxError as e:
        if e.pos is None or not isinstance(e.msg, str):
            return ("bad", f"syntax error without message/position: {e.msg!r} {e.pos!r}")
        return ("syntax", e.msg)
    except _Alarm:
        return ("bad", "does not terminate within 2 s")
    except RecursionError:
        return ("bad", "host RecursionError")
    except BaseException as e:
        return ("bad", f"host {type(e).__name__}: {e}")


def _chunk(job):
    import signal
    signal.signal(signal.SIGALRM, lambda s, f: (_ for _ in ()).throw(_Alarm()))
    parser, errors, lexer = _parse_mod()
    fails, n = [], 0
    # the outcome of a parse depends on the text alone: probe texts give the same outcome before and after everything else
    # this worker parses (no state survives a parse, whatever it was fed in between)
    PROBES = ["(1 + 2) * 3", "f((a, b), [c, (d)])", "def x = (((1)))", "((", "1 +"]
    before = [_try(parser, errors, p_) for p_ in PROBES]
    for src in job:
        n += 1
        r = _try(parser, errors, src)
        if r[0] == "bad":
            fails.append((src, r[1]))
            if len(fails) > 5:
                break
        elif n % 50 == 0:
            r2 = _try(parser, errors, src)
            if r2 != r:
                fails.append((src, f"not deterministic: {r} then {r2}"))
    after = [_try(parser, errors, p_) for p_ in PROBES]
    for p_, b_, a_ in zip(PROBES, before, after):
        if a_ != b_:
            fails.append((p_, f"outcome depends on what was parsed before: first {b_}, after {n} other texts {a_}"))
    return n, fails


def fuzz_inputs(tier, seed):
    import itertools
    import random
    rnd = random.Random(seed)
    out = []
    maxlen = 3 if tier == "thorough" else 2
    for n in range(0, maxlen + 1):
        for t in itertools.product(ALPHABET, repeat=n):
            out.append(" ".join(t))
    for _ in range(60000 if tier == "thorough" else 15000):
        out.append(" ".join(rnd.choice(ALPHABET) for _ in range(rnd.randint(3, 12))))
    import re
    for p in PROGRAMS:
        toks = re.findall(r"//[^/]*//|'[^']*'|[A-Za-z_][A-Za-z_0-9]*|\d+\.?\d*|<<<|>>>|<<|>>|<\*|\*>|=>|\.\.\.|[!<>=+\-*/%]=|!>|->|<>|\S", p)
        for i in range(len(toks) + 1):
            out.append(" ".join(toks[:i]))                      # every prefix
        for i in range(len(toks)):
            out.append(" ".join(toks[:i] + toks[i + 1:]))       # single-token deletion
            for a in rnd.sample(ALPHABET, 12 if tier == "quick" else 40):
                out.append(" ".join(toks[:i] + [a] + toks[i:]))        # insertion
                out.append(" ".join(toks[:i] + [a] + toks[i + 1:]))    # substitution
    noise = "ab1 _'\"\\/#\n\t()[]<>=!+-*%.,;x0bXF{}é$@"
    for _ in range(40000 if tier == "thorough" else 10000):
        out.append("".join(rnd.choice(noise) for _ in range(rnd.randint(0, 14))))
    for s in ["0x", "0b", "0x_", "'\\x", "'\\xZ", "'\\xZZ'", '"\\x4', "//", "//[//", "///", "1.", "1._", "1__2", "0b2", "0xG", "...", "..", "<<<<>>>>",
              ">>>>>", "\\", "'", '"', "#", "# only a comment", "", " ", "\n", "\r\n", "(" * 30 + "1" + ")" * 30, "[" * 30 + "]" * 30,
              "(" * 3000 + "1" + ")" * 3000, "[" * 3000 + "]" * 3000, "f(" * 2000, "- " * 2000 + "x", "a[" * 2000, "<<" * 1500, "fn() " * 2000 + "1",
              "if a then " * 1500 + "1", "1" + " + 1" * 4000, "1" * 5000, "1." + "5" * 5000, "'" + "a" * 100000 + "'", "# c\n" * 1000]:
        out.append(s)
    return out


# texts with the same name repeated in every position that takes a list of names or members (a parser that collects such
# names in a host set or dict and lets their iteration order reach a message gives different outcomes in different processes)
REPEATS = ["def f(alpha, beta, alpha, beta, gamma, gamma) alpha", "fn(zeta, eta, zeta, eta, theta, theta) 1", "def f(a, b = 1, a = 2, b = 3) a",
           "<*alpha = 1, beta = 2, alpha = 3, beta = 4, gamma = 5, gamma = 6*>", "<<<alpha => 1, beta => 2, alpha => 3, beta => 4>>>",
           "def [alpha, beta, alpha, beta, gamma, gamma] = [1, 2, 3, 4, 5, 6]", "[alpha, beta, alpha, beta] = [1, 2, 3, 4]",
           "require Math import [PI as alpha, E as beta, PI as alpha, E as beta, PI as gamma]", "require Math import [alpha, beta, alpha, beta, gamma, gamma]",
           "f(alpha = 1, beta = 2, alpha = 3, beta = 4, gamma = 5, gamma = 6)", "for [alpha, beta, alpha, beta] in [[1, 2, 3, 4]] do alpha end",
           "def f(alpha, beta, alpha, beta) do def alpha = 1; def beta = 2; def alpha = 3 end", "def f(a, a...) a", "def f(a..., b..., a...) a",
           "<<alpha, beta, alpha, beta, gamma, gamma>>", "def f(alpha, beta, alpha", "<*alpha = 1, beta = 2, alpha = 3, beta", "def f(if, then, if, then) 1"]


def json_dumps(x):
    import json
    return json.dumps(x)


def _outcomes_in_fresh_process(texts, hashseed):
    import json
    import os
    import subprocess
    import sys
    prog = ("import sys, json\nsys.path.insert(0, sys.argv[1])\nfrom ckl.parser import parse_script\nfrom ckl.errors import CklSyntaxError\n"
            "out = []\nfor t in json.loads(sys.stdin.read()):\n"
            "    try:\n        n = parse_script(t, 'p.ckl'); out.append(['ok', repr(n)])\n"
            "    except CklSyntaxError as e:\n        out.append(['syntax', str(e.msg), str(e.pos)])\n"
            "    except BaseException as e:\n        out.append(['host', type(e).__name__])\nprint(json.dumps(out))\n")
    env = dict(os.environ, PYTHONHASHSEED=str(hashseed))
    root = os.path.join(os.environ.get("VERIF_REPO", "/repo"), "src")
    r = subprocess.run([sys.executable, "-c", prog, root], input=json.dumps(texts), capture_output=True, text=True, env=env, timeout=300)
    try:
        return json.loads(r.stdout)
    except Exception:
        return [["crash", r.stderr[-200:]]] * len(texts)


def bounded(tier, seed):
    import multiprocessing as mp
    import time
    t0 = time.time()
    inputs = fuzz_inputs(tier, seed)
    chunks = [inputs[i:i + 2000] for i in range(0, len(inputs), 2000)]
    total, fails = 0, []
    ctx = mp.get_context("fork")
    with ctx.Pool(16) as pool:
        for n, f in pool.imap_unordered(_chunk, chunks):
            total += n
            fails.extend(f)
    out = []
    seen = set()
    for src, why in fails:
        key = why[:40]
        if key in seen:
            continue
        seen.add(key)
        out.append({"id": f"bounded:parse-total[{key}]", "input": repr(src), "observed": why, "expected": "a program or CklSyntaxError(msg, pos)"})
    # the same text gives the same outcome (program text / message and position) in every process
    t1 = time.time()
    texts = REPEATS + [" ".join(p) if isinstance(p, (list, tuple)) else p for p in PROGRAMS][:60] + sorted(set(inputs))[:: max(1, len(set(inputs)) // 300)][:300]
    nproc = 8 if tier == "thorough" else 4
    runs = [_outcomes_in_fresh_process(texts, (seed * 131 + i * 7919 + 1) % 4294967295) for i in range(nproc)]
    pfails = []
    for i, t in enumerate(texts):
        outs = {json_dumps(r[i]) for r in runs}
        if len(outs) > 1 and len(pfails) < 3:
            pfails.append({"id": "bounded:same-text-same-outcome-in-every-process", "input": repr(t), "observed": " | ".join(sorted(outs))[:400], "expected": "one outcome"})
    rp = BoundedResult("the same texts parsed in fresh processes under different string-hash seeds (program rendering, message and position compared)",
                       f"{len(texts)} texts (names repeated in every list position, grammatical programs, a sample of the fuzz inputs) x {nproc} processes",
                       len(texts) * nproc, len(texts), pfails, [{"src": REPEATS[0]}], "the outcome depends on the text alone", time.time() - t1)
    return [rp, BoundedResult("fuzzing of the real parse_script (2 s alarm, determinism re-check)",
                          f"all token sequences of length <= {3 if tier == 'thorough' else 2} over a {len(ALPHABET)}-token alphabet, random sequences of 3..12 tokens, "
                          f"every prefix / single-token deletion / sampled insertion+substitution of {len(PROGRAMS)} grammatical programs, character noise",
                          total, len(set(inputs)), out, [{"src": "def f( a , b"}], "cross-check of the proof part", time.time() - t0)]


def replay_b(fail):
    for b in bounded("quick", 0):
        if b.failures:
            f = dict(b.failures[0])
            f["reproduced"] = True
            return f
    return {"reproduced": False}
