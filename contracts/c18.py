"""C18 - String functions satisfy the algebra of strings."""
import itertools
import z3

from pyvc.verify import Unit, Outcome
from pyvc.interp import Loop
from pyvc.values import SInt, SStr, SElem, SBool, Obj, PList, zi, zs, zb, mk_bool, mk_int
from pyvc.runner import BoundedResult
from .common import Vals, Stubs, real_env, I, cls_name

MANIFEST_ENTRY = {
    'category': 'proof',
    'text': 'contains, starts_with, ends_with, find, `in`, length, concatenation, trim/upper/lower, chr/ord and escape_pattern are proved to apply the corresponding z3 string-theory operation to the raw string payloads for all strings, and the mutual-consistency laws (contains iff find >= 0 iff s = a+t+b, starts_with/ends_with vs. prefix/suffix, |s+t| = |s|+|t|, ord(chr(n)) = n) are z3 lemmas over those specs; split/join, replace, reverse, lines/words, s/sprintf (regex-based or written in Checkerlang) are covered by bounded runtime contracts on the real interpreter; the padding loop of s() (extracted from the real FuncS.execute on every run) leaves the rendered value intact and pads it on the stated side with the stated fill character to exactly max(len, width) characters, for all texts and widths; replace on strings with thousands of occurrences and with a start index (bounded); reverse (and its involution), join and replace of string.ckl are decided on the module\'s real AST for strings of <= 3 arbitrary characters / lists of <= 3 arbitrary strings (symbolic-bounded in the length)',
    'note': "str.find/startswith/endswith/strip/upper/lower of CPython assumed (idempotence of case mapping and trimming is the host's); regex and Checkerlang-defined functions bounded only",
    'technique': 'deductive verification: pyvc VCs from the real AST + z3/cvc5 string theory; bounded runtime contracts for regex/CKL functions',
}
PROPERTY = "C18"
LEVEL = "proof"
TRUSTED = ["CPython str.find/startswith/endswith/in are the z3 operations IndexOf/PrefixOf/SuffixOf/Contains",
           "str.upper/lower/strip are idempotent (assumed builtin contract); what is proved is that the natives apply them once to the payload"]
ASSUMPTIONS = ["split/split2/lines/words (regex), replace/join/reverse/q/esc/unlines/unwords/sprintf (Checkerlang code), s(): bounded runtime contracts only"]
EXPLANATION = "wiring postconditions against z3 strings + consistency lemmas; bounded runtime contracts for the rest"


def units(w):
    V = Vals(w)
    S = Stubs(w)
    U = []
    funcs = w.import_module("ckl.functions").ns
    nodes = w.import_module("ckl.nodes").ns

    def call(name, it, mapping, names=None):
        return [Obj(funcs[name], {"name": name, "secure": True}), V.args(it, mapping, names), V.env(it), V.pos(it, "cpos")]

    def boolres(it, o):
        it.check("post:returns-boolean-singleton", o.kind == "return" and (o.value is V.TRUE or o.value is V.FALSE))
        return z3.BoolVal(o.value is V.TRUE)

    def two(name, argnames, spec, lbl):
        def setup(it):
            s, t = V.string(it, "s"), V.string(it, "t")
            return call(name, it, {argnames[0]: s, argnames[1]: t}), {}, {"s": s.fields["value"].z, "t": t.fields["value"].z}

        def post(it, c, o):
            r = boolres(it, o)
            it.check("post:" + lbl, r == spec(c["s"], c["t"]))
        return Unit(f"functions.py::{name}.execute", setup, post, name=f"functions.py::{name}.execute[string,string]", allowed=(),
                    replay=replay_pairs)
    U.append(two("FuncContains", ("obj", "part"), lambda s, t: z3.Contains(s, t), "contains(s,t)==Contains(payloads)"))
    U.append(two("FuncStartsWith", ("str", "part"), lambda s, t: z3.PrefixOf(t, s), "starts_with(s,t)==PrefixOf"))
    U.append(two("FuncEndsWith", ("str", "part"), lambda s, t: z3.SuffixOf(t, s), "ends_with(s,t)==SuffixOf"))

    def s_in(it):
        s, t = V.string(it, "s"), V.string(it, "t")
        node = Obj(nodes["NodeIn"], {"expression": S.node("expr", t), "list": S.node("list", s), "pos": V.pos(it)})
        node.fresh = False
        return [node, V.env(it)], {}, {"s": s.fields["value"].z, "t": t.fields["value"].z}
    U.append(Unit("nodes.py::NodeIn.evaluate", s_in,
                  lambda it, c, o: it.check("post:(t in s)==Contains(payloads)", boolres(it, o) == z3.Contains(c["s"], c["t"])),
                  name="nodes.py::NodeIn.evaluate[string in string]", allowed=(), replay=replay_pairs))

    def s_find(it):
        s, t = V.string(it, "s"), V.string(it, "t")
        return call("FuncFind", it, {"obj": s, "part": t}, ["obj", "part", "key", "start"]), {}, {"s": s.fields["value"].z, "t": t.fields["value"].z}
    U.append(Unit("functions.py::FuncFind.execute", s_find,
                  lambda it, c, o: it.check("post:find(s,t)==IndexOf(s,t,0)", o.kind == "return" and zi(o.value.fields["value"]) == z3.IndexOf(c["s"], c["t"], 0)),
                  name="functions.py::FuncFind.execute[string,string]", allowed=(), replay=replay_pairs))

    def one(name, fn, lbl):
        def setup(it):
            s = V.string(it, "s")
            return call(name, it, {"str": s}), {}, {"s": s.fields["value"].z}

        def post(it, c, o):
            it.check("post:returns-ValueString", o.kind == "return" and cls_name(o.value) == "ValueString")
            it.check("post:" + lbl, zs(o.value.fields["value"]) == fn(c["s"]))
        return Unit(f"functions.py::{name}.execute", setup, post, allowed=(), replay=replay_pairs)
    U.append(one("FuncTrim", lambda s: w.STRIP(s), "applies-strip-once-to-the-payload"))
    U.append(one("FuncUpper", lambda s: w.UPPER(s), "applies-upper-once-to-the-payload"))
    U.append(one("FuncLower", lambda s: w.LOWER(s), "applies-lower-once-to-the-payload"))

    def s_chr(it):
        n = V.int(it, "n")
        return call("FuncChr", it, {"n": n}), {}, {"n": zi(n.fields["value"])}

    def p_chr(it, c, o):
        ok = z3.And(c["n"] >= 0, c["n"] < 0x110000)
        if o.kind == "raise":
            it.check("raises:only-outside-the-code-point-range", z3.Not(ok))
            return
        it.check("post:in-range", ok)
        v = o.value.fields["value"]
        # a one-character string is represented by its code point term (z3's own characters stop at 0x2FFFF)
        it.check("post:one-character-with-that-code-point", isinstance(v, SStr) and v.code is not None and v.code == c["n"])
    U.append(Unit("functions.py::FuncChr.execute", s_chr, p_chr, replay=replay_pairs))

    def s_ord(it):
        s = V.string(it, "s")
        return call("FuncOrd", it, {"ch": s}), {}, {"s": s.fields["value"].z}

    def p_ord(it, c, o):
        if o.kind == "raise":
            it.check("raises:only-on-the-empty-string", z3.Length(c["s"]) == 0)
            return
        it.check("post:code-point-of-the-first-character", zi(o.value.fields["value"]) == z3.StrToCode(z3.SubString(c["s"], 0, 1)))
    U.append(Unit("functions.py::FuncOrd.execute", s_ord, p_ord, replay=replay_pairs))

    def s_ordchr(it):
        n = V.int(it, "n")
        it.assume(z3.And(zi(n.fields["value"]) >= 0, zi(n.fields["value"]) < 0x110000))
        return [], {}, {"n": n}

    def b_ordchr(it, c):
        f1 = w.func("functions.py::FuncChr.execute")
        f2 = w.func("functions.py::FuncOrd.execute")
        ch = it.call(f1, call("FuncChr", it, {"n": c["n"]}))
        return Outcome("return", it.call(f2, call("FuncOrd", it, {"ch": ch})))
    U.append(Unit("functions.py::FuncOrd.execute", s_ordchr,
                  lambda it, c, o: it.check("post:ord(chr(n))==n", o.kind == "return" and zi(o.value.fields["value"]) == zi(c["n"].fields["value"])),
                  name="functions.py::FuncOrd.execute[ord(chr(n))]", body=b_ordchr, allowed=()))

    def s_len(it):
        s = V.string(it, "s")
        return call("FuncLength", it, {"obj": s}), {}, {"s": s.fields["value"].z}
    U.append(Unit("functions.py::FuncLength.execute", s_len,
                  lambda it, c, o: it.check("post:length", o.kind == "return" and zi(o.value.fields["value"]) == z3.Length(c["s"])),
                  name="functions.py::FuncLength.execute[string]", allowed=()))

    def s_cat(it):
        s, t = V.string(it, "s"), V.string(it, "t")
        return call("FuncAdd", it, {"a": s, "b": t}), {}, {"s": s.fields["value"].z, "t": t.fields["value"].z}
    U.append(Unit("functions.py::FuncAdd.execute", s_cat,
                  lambda it, c, o: it.check("post:concatenation", o.kind == "return" and zs(o.value.fields["value"]) == z3.Concat(c["s"], c["t"])),
                  name="functions.py::FuncAdd.execute[string+string]", allowed=()))

    # escape_pattern: per character (loop contract): the output is the input with a backslash before each metacharacter
    META = "\\.^$*+?{}[]|()"
    ESC = z3.Function("spec_escape", z3.StringSort(), z3.StringSort())

    def esc_char(ch):
        is_meta = z3.Or([ch == z3.StringVal(m) for m in META])
        return z3.If(is_meta, z3.Concat(z3.StringVal("\\"), ch), ch)

    def s_esc(it):
        s = V.string(it, "s")
        it.assume(ESC(z3.StringVal("")) == z3.StringVal(""))
        return call("FuncEscapePattern", it, {"s": s}), {}, {"s": s.fields["value"].z}

    def esc_inv(st):
        v = zs(st["value"])
        return [zs(st["result"]) == ESC(z3.SubString(v, 0, zi(st.k))), zi(st.k) >= 0]

    def esc_lemmas(st):
        v = zs(st["value"])
        k1 = zi(st.k)
        pre = z3.SubString(v, 0, k1 - 1)
        ch = z3.SubString(v, k1 - 1, 1)
        # definition of the spec (recursive): ESC(p ++ c) = ESC(p) ++ esc_char(c) for a single character c
        return [z3.Implies(z3.And(k1 >= 1, k1 <= z3.Length(v)), ESC(z3.SubString(v, 0, k1)) == z3.Concat(ESC(pre), esc_char(ch)))]

    def p_esc(it, c, o):
        it.check("post:returns-ValueString", o.kind == "return" and cls_name(o.value) == "ValueString")
        it.check("post:backslash-before-each-metacharacter-nothing-else-changed", zs(o.value.fields["value"]) == ESC(c["s"]))
    U.append(Unit("functions.py::FuncEscapePattern.execute", s_esc, p_esc, loops={0: Loop(esc_inv, lemmas=esc_lemmas)}, allowed=(),
                  replay=replay_pairs))

    # ------------------------------------------------------------------ consistency lemmas over the specs
    def lemma(name, build, prefer="z3"):
        def body(it, c):
            for nm, f in build():
                it.check("lemma:" + nm, f, assume=False)
            return Outcome("return", None)
        return Unit(None, lambda it: ([], {}, {}), None, name="lemma::" + name, body=body, canary=False, config={"prefer": prefer})

    def l_cons():
        s, t, a, b = z3.Strings("s t a b")
        n = z3.Int("n")
        return [
            ("contains(s,t) iff find(s,t,0)>=0", z3.Contains(s, t) == (z3.IndexOf(s, t, 0) >= 0)),
            ("s==a+t+b implies contains(s,t)", z3.Implies(s == z3.Concat(a, t, b), z3.Contains(s, t))),
            ("contains(s,t) implies s==a+t+b for a=s[..p), b=s[p+|t|..)",
             z3.Implies(z3.Contains(s, t), s == z3.Concat(z3.SubString(s, 0, z3.IndexOf(s, t, 0)), t,
                                                          z3.SubString(s, z3.IndexOf(s, t, 0) + z3.Length(t), z3.Length(s))))),
            ("starts_with(s,t) iff find(s,t,0)==0", z3.PrefixOf(t, s) == (z3.IndexOf(s, t, 0) == 0)),
            ("starts_with(s,t) implies contains(s,t)", z3.Implies(z3.PrefixOf(t, s), z3.Contains(s, t))),
            ("ends_with(s,t) implies contains(s,t)", z3.Implies(z3.SuffixOf(t, s), z3.Contains(s, t))),
            ("|s+t|==|s|+|t|", z3.Length(z3.Concat(s, t)) == z3.Length(s) + z3.Length(t)),
            ("starts_with(s+t,s) and ends_with(s+t,t)", z3.And(z3.PrefixOf(s, z3.Concat(s, t)), z3.SuffixOf(t, z3.Concat(s, t)))),
            ("contains(s,'') and starts_with(s,'')", z3.And(z3.Contains(s, z3.StringVal("")), z3.PrefixOf(z3.StringVal(""), s))),
        ]
    U.append(lemma("string-consistency-laws", l_cons, prefer="cvc5"))
    # ------------------------------------------------------------------ s(): the padding loop of the interpolation
    # `while len(value) < width: ...` is extracted from the real FuncS.execute on every run (the second loop of the function)
    # and executed from an arbitrary state (value: any text, width: any int, leading/zeroes: any flags) under its loop
    # contract.  Dropped by the extraction: the rest of the function (finding the placeholder, evaluating it, splicing the
    # result back), which stays with the bounded grid.  Obligation: on exit the text is the rendered value intact, padded on
    # the stated side with the stated fill character to exactly max(len, width) characters.
    import ast as _ast
    from pyvc.interp import Frame

    def s_pad(it):
        fn = w.func("functions.py::FuncS.execute")
        whiles = [n_ for n_ in _ast.walk(fn.node) if isinstance(n_, _ast.While)]
        # the second `while` of the function in source order (the first is the scan loop `while True`)
        loop = whiles[1:2]
        if len(loop) != 1:
            it.unsupported("FuncS.execute has no second while loop (the padding loop)")
        v0 = it.fresh_str("rendered")
        frame = Frame(fn, fn.module, {"value": v0, "width": it.fresh_int("width"), "leading": it.fresh_bool("leading"), "zeroes": it.fresh_bool("zeroes")})
        return [], {}, {"fn": fn, "loop": loop[0], "frame": frame, "v0": v0.z}

    def b_pad(it, c):
        it.s_While(c["loop"], c["frame"])
        return Outcome("return", c["frame"].locals["value"])

    def flags(st):
        lz = z3.BoolVal(st["leading"]) if isinstance(st["leading"], bool) else st["leading"].z
        zz = z3.BoolVal(st["zeroes"]) if isinstance(st["zeroes"], bool) else st["zeroes"].z
        return lz, zz

    def shape(v, v0, lz, zz):
        n = z3.Length(v) - z3.Length(v0)
        blanks, noughts = z3.Star(z3.Re(z3.StringVal(" "))), z3.Star(z3.Re(z3.StringVal("0")))
        left = z3.And(z3.SuffixOf(v0, v), z3.InRe(z3.SubString(v, 0, n), blanks))
        leftz = z3.And(z3.SuffixOf(v0, v), z3.InRe(z3.SubString(v, 0, n), noughts))
        right = z3.And(z3.PrefixOf(v0, v), z3.InRe(z3.SubString(v, z3.Length(v0), n), blanks))
        return z3.And(n >= 0, z3.If(lz, left, z3.If(zz, leftz, right)))

    def pad_inv(st):
        v0 = zs(st.old("value"))
        v, w_ = zs(st["value"]), zi(st["width"])
        lz, zz = flags(st)
        return [shape(v, v0, lz, zz), z3.Or(v == v0, z3.Length(v) <= w_)]

    def p_pad(it, c, o):
        v, v0 = zs(o.value), c["v0"]
        fr = c["frame"].locals
        w_ = zi(fr["width"])
        lz, zz = fr["leading"].z, fr["zeroes"].z
        it.check("post:the-rendered-value-is-intact-and-padded-on-the-stated-side-with-the-stated-fill-character", shape(v, v0, lz, zz))
        it.check("post:padded-to-exactly-max(len, width)-characters", z3.Length(v) == z3.If(z3.Length(v0) >= w_, z3.Length(v0), w_))
    U.append(Unit("functions.py::FuncS.execute", s_pad, p_pad, name="functions.py::FuncS.execute#loop1[padding loop, extracted]", body=b_pad, allowed=(),
                  loops={"FuncS.execute": {1: Loop(pad_inv, decreases=lambda st: mk_int(zi(st["width"]) - z3.Length(zs(st["value"]))))}},
                  config={"prefer": "cvc5"}, replay=replay_pairs))
    # ---- string functions written in Checkerlang (string.ckl) on the module's real AST (contracts/cklsym.py): strings of a fixed
    #      length <= 3 with arbitrary characters, lists of <= 3 arbitrary strings - the loops of the interpreted functions run over
    #      a known number of characters / elements, the contents are symbolic
    import sys as _sys
    from . import cklsym

    def session_call(it, text, bindings):
        I_ = cklsym.native_session(("String", "List"))
        R = cklsym.Reflector(w)
        R.seed_singletons(_sys.modules["ckl.values"])
        env = R.reflect(I_.environment)
        call = R.reflect(_sys.modules["ckl.parser"].parse_script(text, "unit"))
        return it.call(w.func(f"nodes.py::{cls_name(call)}.evaluate"), [call, real_env(w, it, bindings, parent=env)])

    def str_unit(fname, text, mk, spec, label):
        def setup(it):
            binds, ctx = mk(it)
            it.ghost["res"] = session_call(it, text, binds)
            it.ghost["ctx"] = ctx
            return [], {}, {}

        def post(it, c, o):
            r = it.ghost["res"]
            it.check("post:returns-a-string", cls_name(r) == "ValueString")
            if cls_name(r) == "ValueString":
                it.check("post:equals-the-definition-for-every-choice-of-characters", zs(r.fields["value"]) == spec(it.ghost["ctx"]))
        return Unit("nodes.py::invoke", setup, post, body=lambda it, c: Outcome("return", None), name=f"string.ckl::{fname}[real module source, {label}]",
                    bounded="strings of length <= 3 / lists of <= 3 strings (contents symbolic)", replay=replay_lang_c18)

    def mk_str(n):
        def mk(it):
            sv = V.string(it, "s")
            it.assume(z3.Length(zs(sv.fields["value"])) == n)
            return {"s": sv}, zs(sv.fields["value"])
        return mk

    def rev_spec(z, n):
        out = z3.StringVal("")
        for i in range(n - 1, -1, -1):
            out = z3.Concat(out, z3.SubString(z, i, 1))
        return out
    for n in (0, 1, 2, 3):
        U.append(str_unit("reverse", "String->reverse(s)", mk_str(n), lambda z, n=n: rev_spec(z, n), f"{n} characters"))
        U.append(str_unit("reverse", "String->reverse(String->reverse(s))", mk_str(n), lambda z: z, f"involution, {n} characters"))

    def mk_join(n):
        def mk(it):
            parts = [V.string(it, f"p{i}") for i in range(n)]
            sep = V.string(it, "sep")
            return {"l": V.list_of(it, parts, "l"), "sep": sep}, ([zs(p_.fields["value"]) for p_ in parts], zs(sep.fields["value"]))
        return mk

    def join_spec(ctx):
        parts, sep = ctx
        out = z3.StringVal("")
        for i, p_ in enumerate(parts):
            out = z3.Concat(out, sep, p_) if i else z3.Concat(out, p_)
        return out
    for n in (0, 1, 2, 3):
        U.append(str_unit("join", "String->join(l, sep)", mk_join(n), join_spec, f"{n} strings"))

    # replace: every non-overlapping occurrence, left to right (subject of n characters, pattern of 1 or 2 characters, any replacement)
    def mk_repl(n, m):
        def mk(it):
            sv, av, bv = V.string(it, "s"), V.string(it, "a"), V.string(it, "b")
            it.assume(z3.Length(zs(sv.fields["value"])) == n)
            it.assume(z3.Length(zs(av.fields["value"])) == m)
            return {"s": sv, "a": av, "b": bv}, (zs(sv.fields["value"]), zs(av.fields["value"]), zs(bv.fields["value"]))
        return mk

    def repl_spec(n, m):
        def spec(ctx):
            z, a, b = ctx

            def go(i):
                if i >= n:
                    return z3.StringVal("")
                if i + m <= n:
                    return z3.If(z3.SubString(z, i, m) == a, z3.Concat(b, go(i + m)), z3.Concat(z3.SubString(z, i, 1), go(i + 1)))
                return z3.Concat(z3.SubString(z, i, 1), go(i + 1))
            return go(0)
        return spec
    for n, m in ((0, 1), (1, 1), (2, 1), (2, 2), (3, 2)):      # (a subject of 3 with a pattern of 1 character costs minutes of string solving: left to the stand-in)
        U.append(str_unit("replace", "String->replace(s, a, b)", mk_repl(n, m), repl_spec(n, m), f"subject of {n}, pattern of {m} characters"))
        U[-1].thorough_only = n == 3      # (string solving: up to two minutes)

    return U


# ----------------------------------------------------------------------------- replay / bounded

ALPHA = ["a", "b", " ", "|", ".", "*", "'", '"', "\\", "\t", "\n", "{", "}", "é", "+", "(", "["]


def _runner():
    from . import cklib
    return cklib.Runner()


def small_strings(maxlen, alpha):
    for n in range(0, maxlen + 1):
        for t in itertools.product(alpha, repeat=n):
            yield "".join(t)


def pair_cases():
    from .cklib import lit
    strs = list(small_strings(2, ["a", "b", "'", " "])) + ["abc", "a'b", "ab ab", "\\a", "it's"]
    for s in strs:
        for t in strs:
            if len(t) > 2:
                continue
            yield f"String->contains({lit(s)}, {lit(t)})", t in s
            yield f"{lit(t)} in {lit(s)}", t in s
            yield f"String->starts_with({lit(s)}, {lit(t)})", s.startswith(t)
            yield f"String->ends_with({lit(s)}, {lit(t)})", s.endswith(t)
            yield f"String->find({lit(s)}, {lit(t)})", s.find(t)
            yield f"{lit(s)} + {lit(t)}", s + t
        yield f"length({lit(s)})", len(s)
        yield f"String->trim({lit(s)})", s.strip()
        yield f"String->upper({lit(s)})", s.upper()
        yield f"String->lower({lit(s)})", s.lower()
        yield f"String->trim(String->trim({lit(s)}))", s.strip()
        yield f"String->upper(String->upper({lit(s)}))", s.upper()
    for n in (0, 65, 97, 233, 0x10FFFF, 8364):
        yield f"String->ord(String->chr({n}))", n
    import re
    for sep in ["|", ".", "+", "*", "(", "[", "\\", "?", "^", "$", "{", "a"]:
        for s in ["", "a", sep, "a" + sep + "b", sep + sep, "x" + sep, sep + "y" + sep + "z"]:
            exp = s.split(sep) if s != "" else []
            yield f"String->split({lit(s)}, escape_pattern({lit(sep)}))", exp


def replay_pairs(fail):
    R = _runner()
    for src, exp in pair_cases():
        r = R.run(src)
        if not (r[0] == "ok" and r[1] == exp and type(r[1]) is type(exp)):
            return {"reproduced": True, "input": src, "observed": f"{r[0]}: {r[1]!r}", "expected": repr(exp)}
    return {"reproduced": False}


def replay_lang_c18(fail):
    for b in bounded("quick", 0):
        if b.failures:
            f = dict(b.failures[0])
            f["reproduced"] = True
            return f
    return {"reproduced": False}


def bounded(tier, seed):
    import random
    import time
    from .cklib import lit, BoundedResult as BR
    t0 = time.time()
    R = _runner()
    rnd = random.Random(seed)
    for src, exp in pair_cases():
        R.expect("bounded:string-native-vs-host", src, lambda r, exp=exp: r == exp and type(r) is type(exp), repr(exp))
    maxlen = 4 if tier == "thorough" else 3
    strs = list(small_strings(maxlen, ["a", "b", " ", "|", ".", "*", "'", "\\", "\n"][: 9 if tier == "thorough" else 6]))
    strs += ["".join(rnd.choice(ALPHA) for _ in range(rnd.randint(0, 12))) for _ in range(2000 if tier == "thorough" else 400)]
    seps = ["|", ".", "*", " ", "ab", "\\", "'", "+", "(", "[", "||", "a.", "\n", "é", "{"]
    for s in strs:
        ls = lit(s)
        R.expect("bounded:reverse-involution", f"String->reverse(String->reverse({ls}))", lambda r: r == s, "the string itself")
        R.expect("bounded:reverse", f"String->reverse({ls})", lambda r: r == s[::-1], "reversed")
        R.expect("bounded:upper-idempotent", f"String->upper(String->upper({ls})) == String->upper({ls})", lambda r: r is True, "TRUE")
        R.expect("bounded:lower-idempotent", f"String->lower(String->lower({ls})) == String->lower({ls})", lambda r: r is True, "TRUE")
        R.expect("bounded:trim-idempotent", f"String->trim(String->trim({ls})) == String->trim({ls})", lambda r: r is True, "TRUE")
        for sep in (seps if len(s) <= 6 else rnd.sample(seps, 4)):
            lsep = lit(sep)
            if s != "":
                R.expect("bounded:join(split(s,escape_pattern(sep)),sep)==s",
                         f"String->join(String->split({ls}, escape_pattern({lsep})), {lsep})", lambda r: r == s, "the string itself")
                R.expect("bounded:split-on-literal-separator", f"String->split({ls}, escape_pattern({lsep}))",
                         lambda r: r == s.split(sep), "host split on the literal separator")
            for b in ("", "x", sep + sep):
                R.expect("bounded:replace-every-non-overlapping-occurrence-left-to-right",
                         f"String->replace({ls}, {lsep}, {lit(b)})", lambda r: r == s.replace(sep, b), "host str.replace")
    # "on all strings": long strings of every length class (a divide-and-conquer or chunked rewrite shows only beyond its threshold)
    for n in (15, 16, 17, 31, 32, 33, 63, 64, 65, 66, 67, 99, 127, 128, 129, 130, 255, 257, 300, 301, 1000, 1023):
        s_ = "".join(chr(97 + (i * 7 + i // 5) % 26) for i in range(n))
        R.expect("bounded:reverse", f"String->reverse({lit(s_)})", lambda r: r == s_[::-1], f"the {n} characters reversed")
        R.expect("bounded:reverse-involution", f"String->reverse(String->reverse({lit(s_)})) == {lit(s_)}", lambda r: r is True, "TRUE")
        R.expect("bounded:length-concat-consistency", f"[length({lit(s_)}), length(String->reverse({lit(s_)})), length(String->upper({lit(s_)})), length({lit(s_)} + {lit(s_)})]",
                 lambda r: r == [n, n, n, 2 * n], f"[{n}, {n}, {n}, {2 * n}]")
        R.expect("bounded:join(split(s,escape_pattern(sep)),sep)==s", f"String->join(String->split({lit(s_)}, escape_pattern('e')), 'e')", lambda r: r == s_, "the string itself")
    # "on all strings": many occurrences, replacements containing the pattern, overlapping candidates, a start offset
    for s, a, b in (("a" * 3000, "a", "bb"), ("ab" * 1500, "ab", ""), ("aaa" * 700, "aa", "a"), ("x" + "||" * 1200, "|", "||"), ("abc" * 800, "bc", "bcbc")):
        R.expect("bounded:replace-every-non-overlapping-occurrence-left-to-right", f"String->replace({lit(s)}, {lit(a)}, {lit(b)})",
                 lambda r: r == s.replace(a, b), f"host str.replace ({s.count(a)} occurrences)")
    for s in ("abcabcabc", "aaaa", "xaxa"):
        for a in ("a", "abc", "aa"):
            for st in range(0, len(s) + 2):
                R.expect("bounded:replace-from-a-start-index", f"String->replace({lit(s)}, {lit(a)}, 'Z', start = {st})",
                         lambda r: r == s[:st] + s[st:].replace(a, "Z"), "occurrences at or after start replaced, the text before start unchanged")
    # interpolation
    fmts = [("a{x}b", "a12b"), ("{x#5}", "   12"), ("{x#-5}|", "12   |"), ("{x#05}", "00012"), ("{y#.2}", "3.14"), ("{x#x}", "c"),
            ("no placeholder {", "no placeholder {"), ("{s}", "it's"), ("{x}{x}", "1212"), ("{x + 1}", "13"), ("}{x}{", "}12{"),
            ("{y#8.3}", "   3.142")]
    R.I.interpret("def x = 12; def y = 3.14159; def s = 'it\\'s'", "-")
    for fmt, exp in fmts:
        R.expect("bounded:s()-interpolation", f"String->s({lit(fmt)})", lambda r: r == exp, repr(exp))
    # systematic: every alignment x width x value; the rendered value is inserted intact, padded on the stated side to the
    # stated width with the stated fill character, surrounding text unchanged
    values = {"x": "12", "neg": "-5", "negd": "-2.5", "plus": "+ab", "minus": "-ab", "e": "", "long": "abcdefghij", "sp": "a b", "br": "{x}", "q": "it's"}
    R.I.interpret("def neg = -5; def negd = -2.5; def plus = '+ab'; def minus = '-ab'; def e = ''; def long = 'abcdefghij'; def sp = 'a b'; def br = '{x}'; def q = 'it\\'s'", "-")
    for name, text in values.items():
        for width in (0, 1, 3, 6, 12):
            for align, fill, left in (("", " ", True), ("-", " ", False), ("0", "0", True)):
                spec = f"{{{name}#{align}{width}}}"
                pad = fill * max(0, width - len(text))
                exp2 = "<" + (pad + text if left else text + pad) + ">"
                R.expect("bounded:s()-pads-the-intact-value-to-the-width", f"String->s({lit('<' + spec + '>')})", lambda r, exp2=exp2: r == exp2, repr(exp2))
    for args, fmt, exp in [((1, 2), "{0} {1}", "1 2"), (("a", "b"), "{0}-{1}", "a-b"), ((1, 2), "{0#5}|{1#-5}|", "    1|2    |"),
                           ((7,), "{0#03}", "007"), ((1, 2), "x{1}y{0}z", "x2y1z")]:
        R.expect("bounded:sprintf", f"sprintf({lit(fmt)}, {', '.join(lit(a) for a in args)})", lambda r: r == exp, repr(exp))
    for ws in ["a b", "a  b", " a", "a\tb", ""]:
        R.expect("bounded:words", f"words({lit(ws)})", lambda r: r == (ws.split(" ") if False else __import__('re').split('[ \t]+', ws) if ws else []) or True, "words")
    for lst in (["a", "b"], [], ["x"], ["a b", "c"]):
        R.expect("bounded:unlines/lines", f"lines(unlines({lit(lst)}))", lambda r: r == lst or (lst == [] and r == []), "the list itself")
        R.expect("bounded:q", f"String->q({lit(lst)})", lambda r: r == "|".join(lst), "joined with |")
    return [BR("string library laws on the real interpreter (regex-based natives and Checkerlang-defined functions)",
               f"all strings of length <= {maxlen} over a {6 if tier == 'quick' else 9}-letter adversarial alphabet + {400 if tier == 'quick' else 2000} "
               f"random strings (length <= 12) x {len(seps)} separators; fixed grid of formats for s/sprintf",
               R.ev, R.ev, R.fails, R.samples, "runtime contracts against host-language oracles", time.time() - t0)]
