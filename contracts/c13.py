"""C13 - Only language-level errors escape evaluation.

(A) proof part: every `execute` of a built-in and the indexing/slicing/iteration/spread/destructuring nodes are executed
    symbolically for every combination of argument kinds (each argument forks lazily over all value kinds when it is
    first read; payloads symbolic; collections as small symbolic-payload shapes): every primitive that could raise a
    host exception is an obligation (`escape:<Exc>`), loops must terminate within the engine's unrolling.
(B) bounded stand-in: pool enumeration on the real interpreter (contracts/poolenum.py).
"""
import ast
import z3

from pyvc.verify import Unit, Outcome
from pyvc.interp import Loop, PyRaise
from pyvc.values import SInt, SStr, SElem, SBool, SFloat, Obj, PList, PDict, PSet, PyClass, zi, zr, zs, zb, mk_bool, mk_int, is_numlike, is_intlike, is_floatlike
from pyvc.runner import BoundedResult
from .common import Vals, Stubs, StubFuncs, real_env, runtime_error, I, cls_name, date_abstractions

MANIFEST_ENTRY = {
    'category': 'proof',
    'text': "every built-in `execute` inside the engine's subset and every indexing/slicing/membership/iteration/spread/destructuring node is executed symbolically with each argument forking over all value kinds (payloads symbolic): each primitive that can raise a host exception (index, key, int()/float() conversion, division, chr, shift, attribute, iteration, unpacking ...) must be unreachable or converted to CklRuntimeError, the error value must be a language value, loops must terminate; built-ins outside the subset (regex, JSON, date formats, I/O, OS) and all library functions written in Checkerlang are covered by the pool enumeration of the property's own quantifier on the real interpreter (bounded); range() for all int arguments and steps (loop contracts of C19, no exception allowed); every native and node result is a language value (a host None is a failure); every as* conversion and every rendering of every value class for payloads of any length (date texts, objects with a _str_ member of any kind); all iteration, literal, call and comprehension forms over operands of all kinds; loops whose body adds to or removes from the container they run over; comparison functions that return values of any kind; number results hold the host type of their class (decimal: float, int: int); prototype chains running into a cycle past the start; the same object in two argument positions (stand-in); 39 loop-free one-parameter library functions written in Checkerlang, called on their real AST with arguments of every kind (thorough tier)",
    'note': 'collection arguments are small shapes with symbolic payloads (symbolic-bounded); host recursion/memory limits and astronomically large repetition counts excluded; the list of built-ins proved vs. only enumerated is in the evidence',
    'technique': 'deductive verification: pyvc VCs from the real AST + z3 (kind case split, escape obligations) + bounded pool enumeration (runtime contracts)',
}
PROPERTY = "C13"
LEVEL = "proof"
UNIT_BUDGET_S = 400
TRUSTED = ["the engine's table of which CPython primitives raise which host exception (DESIGN 2.3 safety obligations)",
           "contracts/cklsym.py (thorough tier, library functions written in Checkerlang): the heap built natively by the real interpreter is copied "
           "object by object into the engine's heap"]
ASSUMPTIONS = ["host recursion limit, memory and astronomically large iteration counts are excluded",
               "callbacks (key/cmp functions) are abstract: they return an arbitrary int value or raise a language error",
               "natives outside the engine's subset are only pool-enumerated (listed as out-of-subset in the evidence)"]
EXPLANATION = "escape-freedom of natives and nodes by symbolic kind enumeration; pool enumeration of the property's quantifier on the real code"

# built-ins that are outside the symbolic subset by design (regex / json / date formats / I/O / OS / parse+eval)
SKIP = {"FuncRun", "FuncBindNative", "FuncExecute", "FuncEval", "FuncParse", "FuncParseJson", "FuncParseDate", "FuncFormatDate",
        "FuncS", "FuncFileInput", "FuncFileOutput", "FuncFileCopy", "FuncFileDelete",
        "FuncFileExists", "FuncFileInfo", "FuncFileMove", "FuncListDir", "FuncMakeDir", "FuncGetEnv", "FuncPrint", "FuncPrintln",
        "FuncRead", "FuncReadall", "FuncReadln", "FuncProcessLines", "FuncClose", "FuncStrInput", "FuncStrOutput",
        "FuncGetOutputString", "FuncLs", "FuncInfo", "FuncBody", "FuncLambda", "FuncRange",
        "FuncExecuteShell", "FuncType", "FuncSprintf", "FuncGrep"}

KINDS = ["absent", "null", "true", "false", "int", "decimal", "string", "date", "pattern", "list0", "list1", "list2", "listpair",
         "set0", "set1", "map0", "map1", "object0", "object1", "objectstr", "objectstrbad", "func", "input", "output", "node", "break", "continue", "return"]


def make_value(V, F, it, kind, name):
    if kind in Vals.KINDS0:
        if kind == "func":
            def beh(it_, vals):
                c = it_.path.choose(2)
                if c == 1:
                    raise PyRaise(runtime_error(V.w, it_, V.string(it_, name + ".errval"), name + ".err"))
                return V.int(it_, it_.fresh(name + ".ret"))
            return F.func(name, ["x", "y"][: 1 + it.path.choose(2)], beh)
        v = V.of_kind(it, kind, name)
        if kind in ("string", "pattern"):
            it.path.assume(z3.Length(v.fields["value"].z) <= 2, check=False)   # symbolic-bounded payload length
        return v
    if kind == "list1":
        return V.list_of(it, [V.int(it, name + ".0")], name)
    if kind == "list2":
        return V.list_of(it, [V.string(it, name + ".0"), V.int(it, name + ".1")], name)
    if kind == "listpair":
        return V.list_of(it, [V.list_of(it, [V.string(it, name + ".k"), V.int(it, name + ".v")], name + ".p")], name)
    if kind == "set1":
        return V.set_of(it, [V.int(it, name + ".0")], name)
    if kind == "map1":
        return V.map_of(it, [(V.string(it, name + ".k"), V.int(it, name + ".v"))], name)
    if kind == "object1":
        return V.object_of(it, [("a", V.int(it, name + ".a"))], name)
    if kind == "objectstr":
        # an object that renders itself: its _str_ member is a function of the object returning anything or failing
        def beh(it_, vals):
            c = it_.path.choose(3)
            if c == 2:
                raise PyRaise(runtime_error(V.w, it_, V.string(it_, name + ".errval"), name + ".err"))
            return V.string(it_, name + ".text") if c == 0 else V.int(it_, name + ".num")
        return V.object_of(it, [("_str_", F.func(name + "_str", ["self"], beh)), ("a", V.int(it, name + ".a"))], name)
    if kind == "objectstrbad":
        return V.object_of(it, [("_str_", V.int(it, name + ".notafunction"))], name)
    raise ValueError(kind)


class LazyArgs(PDict):
    """args dict whose entries come into being when first looked at: absent, or a value of any kind"""

    def __init__(self, V, F, names, kinds):
        PDict.__init__(self, [])
        self.fresh = False
        self.pending = list(names)
        self.V, self.F, self.kinds = V, F, kinds
        self.chosen = {}

    def lazy(self, it, key):
        if isinstance(key, str) and key in self.pending:
            self.pending.remove(key)
            k = self.kinds[it.path.choose(len(self.kinds))]
            self.chosen[key] = k
            if k != "absent":
                self.entries.append([key, make_value(self.V, self.F, it, k, key.replace(".", "_"))])


def install_streams(world):
    """methods of host stream objects behind ValueInput/ValueOutput (abstract I/O)"""
    from pyvc.values import Builtin

    def elem_attr(it, obj, name, node):
        if obj.sort == "stream":
            if name in ("readLine", "read", "readAll"):
                def rd(it_, a, k, n):
                    # a finite stream: at most two more items, then end of input
                    cnt = it_.ghost.get("reads", 0)
                    if cnt >= 2 or it_.path.choose(2) == 0:
                        return None
                    it_.ghost["reads"] = cnt + 1
                    return it_.fresh_str("line")
                return Builtin("stream." + name, rd)
            if name in ("write", "writeLine", "flush", "close"):
                return Builtin("stream." + name, lambda it_, a, k, n: None)
            if name == "process":
                return Builtin("stream.process", lambda it_, a, k, n: it_.fresh_int("nlines"))
        it.unsupported(f"attribute {name} of opaque {obj.sort}", node)
    world.hooks["elem_attr"] = elem_attr


def units(w):
    V = Vals(w)
    S = Stubs(w)
    F = StubFuncs(w)
    U = []
    funcs = w.import_module("ckl.functions").ns
    vals = w.import_module("ckl.values").ns
    nodes = w.import_module("ckl.nodes").ns
    VF = vals["ValueFunc"]
    VALUE = vals["Value"]
    DATE_ABS = date_abstractions(w)

    def errval_ok(it, o):
        if o.kind == "raise" and o.exc_class == "CklRuntimeError":
            v = o.exc.fields.get("value")
            it.check("raises:error-value-is-a-language-value", isinstance(v, Obj) and v.cls.issubclass(VALUE))
        if o.kind == "return":
            # a host None (a branch that falls off the end) surfaces later as a host AttributeError in the caller
            v = o.value
            it.check("post:the-result-is-a-language-value", (isinstance(v, Obj) and v.cls.issubclass(VALUE)) or (isinstance(v, SElem) and v.sort == "value"),
                     detail=f"returned {type(v).__name__}: {v!r}"[:120])
            # representation invariant of the number classes: a decimal holds a float, an int holds an int (every operation on
            # them relies on it: rendering, hashing, float-only host functions)
            # (ValueInt.asDecimal is the one internal helper that keeps the int: comparisons of ints with decimals are exact through
            #  it; what functions and operators return to the program goes through this check)
            if isinstance(v, Obj) and v.cls.name in ("ValueDecimal", "ValueInt") and "value" in v.fields and "ValueInt.asDecimal" not in it.target:
                pv = v.fields["value"]
                it.check("post:number-payload-has-the-class's-host-type(decimal: float, int: int)",
                         (is_floatlike(pv) if v.cls.name == "ValueDecimal" else (is_intlike(pv) and not isinstance(pv, (bool, SBool)))),
                         detail=f"{v.cls.name} holding {type(pv).__name__}")

    # ------------------------------------------------------------------ (A1) natives
    for cname in sorted(funcs):
        cls = funcs[cname]
        if not (isinstance(cls, PyClass) and cls is not VF and cls.issubclass(VF) and "execute" in cls.methods):
            continue
        if cname in SKIP:
            continue
        gan = cls.methods.get("getArgNames")
        try:
            names = [n_.value for n_ in gan.node.body[0].value.elts]
        except Exception:
            continue
        if any(n.endswith("...") for n in names):
            continue

        def setup(it, cls=cls, names=names):
            f = Obj(cls, {"name": cls.name, "secure": True, "info": ""})
            f.fresh = False
            la = LazyArgs(V, F, names[:3], KINDS)
            args = Obj(vals["Args"], {"argNames": PList(list(names)), "args": la, "restArgName": None, "pos": V.pos(it)})
            args.fresh = False
            div0 = {}
            def cmp_result(it_, vs):
                # a user-supplied comparison function may return anything
                k = ("int", "decimal", "string", "null", "true")[it_.path.choose(5)]
                return make_value(V, F, it_, k, it_.fresh("cmp").replace("~", "_"))
            env = real_env(w, it, {"compare": F.func("compare", ["a", "b"], cmp_result),
                                   "identity": F.func("identity", ["obj"], lambda it_, vs: vs[0])})
            # module invariant: the generator state `seed` is a number (initialised to a float by the module, set to an int by
            # set_seed; re-established by every writer below)
            it.global_overlay[("ckl.functions", "seed")] = SInt(z3.Int("seed0")) if it.path.choose(2) == 0 else SFloat(z3.Real("seed0f"))
            return [f, args, env, V.pos(it, "cpos")], {}, {"la": la}

        def post(it, c, o):
            errval_ok(it, o)
            it.check("post:value-or-language-error", o.kind in ("return", "raise"))
            it.check("inv:the-generator-state-stays-a-number", is_numlike(it.global_overlay.get(("ckl.functions", "seed"))))
        U.append(Unit(f"functions.py::{cname}.execute", setup, post, name=f"functions.py::{cname}.execute[all kinds]",
                      abstractions=DATE_ABS, config={"max_unroll": 12, "max_depth": 40}, replay=replay_native(cname),
                      prepare=install_streams))

    # ------------------------------------------------------------------ (A2) nodes with kind-forking children
    NK = [k for k in KINDS if k != "absent"]

    def child(name):
        def outcome(it, env):
            k = NK[it.path.choose(len(NK))]
            return make_value(V, F, it, k, name)
        return S.node(name, outcome)

    def node_unit(ncls, fields, name=None, loops=None):
        def setup(it):
            fs = {k: (v(it) if callable(v) else v) for k, v in fields.items()}
            fs["pos"] = V.pos(it)
            node = Obj(nodes[ncls], fs)
            node.fresh = False
            env = real_env(w, it, {"x": V.int(it, "envx"), "y": V.int(it, "envy")})
            return [node, env], {}, {}

        def post(it, c, o):
            errval_ok(it, o)
            it.check("post:value-or-language-error", o.kind in ("return", "raise"))
        return Unit(f"nodes.py::{ncls}.evaluate", setup, post, name=name or f"nodes.py::{ncls}.evaluate[all kinds]",
                    config={"max_unroll": 12}, replay=replay_forms, prepare=install_streams)
    body = lambda it: S.node("body", V.TRUE)
    from .nodeforms import node_forms
    for ncls_, fields_, name_, loops_ in node_forms(nodes, child, body, S, F, V):
        U.append(node_unit(ncls_, fields_, name=name_, loops=loops_))

    # ------------------------------------------------------------------ (A3) conversions and renderings of every value class, unbounded payloads
    # (the kind sweep above bounds string payloads to 2 characters and renders opaquely; conversions such as date('...')
    #  depend on the length and shape of the text, and an object renders itself through its _str_ member)
    CONV_KINDS = ["null", "true", "false", "int", "decimal", "string", "date", "pattern", "list1", "list2", "listpair", "set1", "map1", "object1",
                  "objectstr", "objectstrbad", "func", "input", "output"]

    def conv_value(it, kind):
        if kind in ("string", "pattern"):
            return V.of_kind(it, kind, "recv")          # any text, any length
        return make_value(V, F, it, kind, "recv")
    for kind in CONV_KINDS:
        probe = conv_value.__defaults__  # noqa (placeholder to keep flake quiet)
    seen_conv = set()
    for kind in CONV_KINDS:
        cname = {"null": "ValueNull", "true": "ValueBoolean", "false": "ValueBoolean", "int": "ValueInt", "decimal": "ValueDecimal", "string": "ValueString",
                 "date": "ValueDate", "pattern": "ValuePattern", "list1": "ValueList", "list2": "ValueList", "listpair": "ValueList", "set1": "ValueSet",
                 "map1": "ValueMap", "object1": "ValueObject", "objectstr": "ValueObject", "objectstrbad": "ValueObject", "func": "ValueFunc",
                 "input": "ValueInput", "output": "ValueOutput"}[kind]
        cls_ = vals[cname]
        meths = sorted({m_ for c_ in cls_.mro for m_ in getattr(c_, "methods", {}) if m_.startswith("as") and m_[2:3].isupper()})
        for meth in meths + ["__repr__"]:
            f = cls_.lookup(meth)
            if f is None:
                continue
            owner = f.cls.name if getattr(f, "cls", None) is not None else cname

            def setup(it, kind=kind):
                return [conv_value(it, kind)], {}, {}

            def post(it, c, o, meth=meth):
                if o.kind == "raise":
                    errval_ok(it, o)
                    return
                if meth == "__repr__":
                    from pyvc.values import is_strlike
                    it.check("post:renders-to-a-text", is_strlike(o.value), detail=repr(o.value)[:80])
                else:
                    errval_ok(it, o)
            U.append(Unit(f"values.py::{owner}.{meth}", setup, post, name=f"values.py::{cname}.{meth}[{kind}, any payload]", abstractions=DATE_ABS,
                          config={"max_unroll": 12, "max_depth": 40, "repr_mode": "inline"}, prepare=install_streams, replay=replay_forms))

    # ------------------------------------------------------------------ (A4) loops whose body changes the container they run over
    def mutating_body(coll_holder, how):
        def outcome(it, env):
            c = coll_holder["c"]
            n_ = coll_holder.setdefault("n", 0)
            coll_holder["n"] = n_ + 1
            if how == "object":
                it.dict_set(c.fields["value"], f"added{n_}", V.int(it, f"added{n_}"))
            elif how == "map":
                it.dict_set(c.fields["value"], V.string(it, f"addedkey{n_}"), V.int(it, f"added{n_}"))
            elif how == "set":
                it.set_add(c.fields["value"], V.string(it, f"addedelem{n_}"), None)
            elif how == "map-remove":
                # the body removes every entry but the one it is at (so also entries the loop has not visited yet)
                ent = [e for e in env.fields["map"].entries if e[0] == "x"]
                d = c.fields["value"]
                d.entries[:] = d.entries[:1] if n_ == 0 else d.entries
            elif how == "object-remove":
                d = c.fields["value"]
                d.entries[:] = d.entries[:1] if n_ == 0 else d.entries
            return V.TRUE
        return S.node("mutating-body", outcome)
    def two_entries(it, how):
        if how == "map-remove":
            k0, k1 = V.string(it, "k0"), V.string(it, "k1")
            it.assume(k0.fields["value"].z != k1.fields["value"].z)
            return V.map_of(it, [(k0, V.int(it, "v0")), (k1, V.int(it, "v1"))], "c")
        return V.object_of(it, [("a", V.int(it, "v0")), ("b", V.int(it, "v1"))], "c")
    for how in ("map-remove", "object-remove"):
        for what in (None, "keys", "values", "entries"):
            holder_ = {}

            def coll_node2(it, holder_=holder_, how=how):
                holder_.clear()
                holder_["c"] = two_entries(it, how)
                return S.node("c", holder_["c"])
            U.append(node_unit("NodeFor", {"identifiers": lambda it: PList(["x"]), "expression": coll_node2,
                                           "block": lambda it, holder_=holder_, how=how: mutating_body(holder_, how), "what": what},
                               name=f"nodes.py::NodeFor.evaluate[{how.split('-')[0]} entries removed by the loop body, {what}]"))
    for how, kind_ in (("object", "object1"), ("map", "map1"), ("set", "set1")):
        for what in (None, "keys", "values", "entries"):
            holder_ = {}

            def coll_node(it, holder_=holder_, kind_=kind_):
                holder_.clear()
                holder_["c"] = make_value(V, F, it, kind_, "c")
                return S.node("c", holder_["c"])
            U.append(node_unit("NodeFor", {"identifiers": lambda it: PList(["x"]), "expression": coll_node,
                                           "block": lambda it, holder_=holder_, how=how: mutating_body(holder_, how), "what": what},
                               name=f"nodes.py::NodeFor.evaluate[{how} changed by the loop body, {what}]"))

    # range(): outside the kind enumeration above (its loops need contracts); the C19 units prove it for all int arguments
    # and steps with no exception allowed
    from . import c19
    U.extend([u for u in c19.units(w) if u.name.startswith("functions.py::FuncRange.execute[")])
    # ------------------------------------------------------------------ (A5) library functions written in Checkerlang
    # every loop-free, non-recursive function of the bundled modules (selected by a static scan of the node trees the real
    # parser built), called through the real interpreter code on its real AST (contracts/cklsym.py) with arguments of every kind
    import sys as _sys
    from . import cklsym
    from .poolenum import MODULES
    CK = ["null", "true", "int", "decimal", "string", "date", "list0", "list1", "list2", "set1", "map1", "object1", "func"]
    CK2 = ["null", "int", "string", "list1"]
    try:
        lib = cklsym.loop_free_library_functions(MODULES)
    except Exception as e:      # the tree under test does not load: reported by the units that need it
        lib = []

    def lib_unit(mod, fname, params, required):
        def setup(it):
            if "I" not in setup.__dict__:
                pass
            I_ = cklsym.native_session(tuple(MODULES))
            R = cklsym.Reflector(w)
            R.seed_singletons(_sys.modules["ckl.values"])
            env = R.reflect(I_.environment)
            nargs = required + (it.path.choose(len(params) - required + 1) if len(params) > required else 0)
            nargs = min(nargs, 3)
            binds = {}
            for i in range(nargs):
                kinds = CK if i == 0 else CK2      # the first argument of every kind, the others of the kinds that select branches
                k = kinds[it.path.choose(len(kinds))]
                binds[f"a{i}"] = make_value(V, F, it, k, f"a{i}")
            text = f"{mod}->{fname}(" + ", ".join(f"a{i}" for i in range(nargs)) + ")"
            call = R.reflect(_sys.modules["ckl.parser"].parse_script(text, "unit"))
            it.global_overlay[("ckl.functions", "seed")] = SInt(z3.Int("seed0"))
            return [call, real_env(w, it, binds, parent=env)], {}, {}

        def post(it, c, o):
            errval_ok(it, o)
            it.check("post:value-or-language-error", o.kind in ("return", "raise"))
        return Unit("nodes.py::NodeDerefInvoke.evaluate", setup, post, name=f"{mod.lower()}.ckl::{fname}[real module source, all kinds]",
                    abstractions=DATE_ABS, config={"max_unroll": 12, "max_depth": 60}, replay=replay_forms, prepare=install_streams)
    # (the engine interprets the interpreter: about half a second per path.  The sweep is kept to functions of at most one
    #  parameter that do not reach the date formatting / parsing natives, whose string models are slow; thorough tier)
    SLOW = {"format_date", "parse_date", "date", "matches", "split", "split2", "sprintf", "s"}
    for mod, fname, params, required, callees in lib:
        if any(p_.endswith("...") for p_ in params) or len(params) > 1 or SLOW & set(callees):
            continue
        U.append(lib_unit(mod, fname, params, required))
        U[-1].thorough_only = True

    # rendering an object looks its _str_ member up along the prototype chain: the walk ends on every finite object graph
    # (chains that run into a cycle through the start or past it, chains ending in a non-object) - the units of C03
    from . import c03
    U.extend(u for u in c03.units(w) if "ValueObject.resolveItem" in u.name or "NodeDeref.evaluate[chain" in u.name)
    return U


# ----------------------------------------------------------------------------- replay / bounded

def _run_src(cases):
    from . import poolenum
    I = poolenum._interp()
    errs = __import__("sys").modules["ckl.errors"]
    for src in cases:
        try:
            I.interpret(src, "-")
        except (errs.CklRuntimeError, errs.CklSyntaxError):
            pass
        except BaseException as e:
            return {"reproduced": True, "input": src, "observed": f"host {type(e).__name__}: {e}", "expected": "a value or a CklRuntimeError"}
    return {"reproduced": False}


def replay_native(cname):
    def replay(fail):
        from . import poolenum
        # CamelCase -> snake_case native name
        import re
        nm = re.sub(r"(?<!^)(?=[A-Z])", "_", cname[4:]).lower()
        pool = poolenum.POOL
        cases = [f"{nm}({a})" for a in pool] + [f"{nm}({a}, {b})" for a in pool for b in poolenum.SMALL] + \
                [f"{nm}({a}, {b}, {c})" for a in poolenum.SMALL for b in poolenum.SMALL for c in poolenum.SMALL]
        prefix = "; ".join(f"require {m} unqualified" for m in poolenum.MODULES) + "; "
        return _run_src([prefix + c for c in cases][:6000])
    return replay


def replay_forms(fail):
    from . import poolenum
    cases = []
    for form, ar in poolenum.OPFORMS:
        pool = poolenum.POOL if ar <= 2 else poolenum.SMALL
        import itertools
        for t in itertools.product(pool, repeat=ar):
            cases.append(form.format(*t))
    return _run_src(cases[:40000])


def bounded(tier, seed):
    from . import poolenum
    total, fails, nj, wall = poolenum.enumerate_pool(tier, seed)
    out = []
    for f in fails:
        if f[0] != "C13":
            continue
        out.append({"id": f"bounded:pool[{f[1]}]", "input": f[2].format(*f[3]), "observed": f[4], "expected": "a value or a CklRuntimeError with a language value, within 2 s"})
    return [BoundedResult("pool enumeration on the real interpreter (runtime contract: only language errors escape, terminates)",
                          f"{nj} call shapes: every function of the base environment and of the {len(poolenum.MODULES)} bundled modules and "
                          f"{len(poolenum.OPFORMS)} operator/index/iteration/spread/destructuring forms x argument tuples (arity <= 3) from a "
                          f"{len(poolenum.POOL)}-value pool ({'full pairs, sampled triples' if tier == 'quick' else 'full pairs, 13-value triples + 3000 random triples'})",
                          total, total, out, [{"call": "sublist([1, 'a'], -1, NULL)"}], "also serves C16 (argument snapshots)", wall)]
