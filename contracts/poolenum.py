"""Pool enumeration on the real interpreter (bounded stand-in shared by C13 and C16).

Runtime contract wrapped around `Interpreter.interpret` of the real tree:
  C13: the call terminates (2 s alarm) and either yields a value or raises CklRuntimeError whose value is a
       Checkerlang value; no host exception escapes.
  C16: the rendering of every argument is the same before and after the call unless the function is a
       documented in-place mutator (append, append_all, insert_at, delete_at, remove, put, element/member assignment)
       or the argument is a stream.
Domain: every function of the base environment and of every bundled module, and every operator / indexing /
iteration / spread / destructuring form, applied to argument tuples (arity <= 3) from the pool below.
"""
import itertools
import multiprocessing as mp
import os
import random
import signal
import sys
import time

POOL = [
    "NULL", "TRUE", "FALSE", "0", "1", "-1", "1180591620717411303424", "0.0", "1.5", "-2.5",
    "''", "'a'", "'abc'", "'1'", "'['", "'+'", "'{1+}'", "'{x#q}'", "3", "[3, 1, 2]", "date('20200101')", "//a//", "[]", "[1, 'a']", "[[1, 2], [3, 4]]", "<<>>", "<<1, 2>>",
    "<<<>>>", "<<<'a' => 1>>>", "<*a=1*>", "fn(x) x", "str_output()", "str_input('x')",
    "do def pb = <*x = 1*>; def pc = <*_proto_ = pb*>; pb->_proto_ = pc; <*_proto_ = pb, y = 2*> end",      # prototype chain running into a cycle past the start
    "'inf'", "'nan'", "'1e400'", "1" + "0" * 308 + ".0",      # texts and a literal at the edge of the float range
    "'123456789'", "'20200101'", "<*_str_ = fn(self) 'obj', a = 1*>", "<*_str_ = 5*>", "<*_proto_ = 5, a = 1*>", "fn(a, b) 'x'",
]
HUGE = "1180591620717411303424"
SMALL = ["NULL", "TRUE", "0", "-1", "1.5", "''", "'abc'", "[]", "[1, 'a']", "<<1, 2>>", "<<<'a' => 1>>>", "<*a=1*>", "fn(x) x"]
MODULES = ["Bitwise", "Core", "Date", "IO", "List", "Math", "OS", "Predicate", "Random", "Set", "Stat", "String", "Sys", "Type"]
MUTATORS = {"append", "append_all", "insert_at", "delete_at", "remove", "put"}
STREAMFUNCS = {"close", "read", "read_all", "readln", "print", "println", "process_lines", "get_output_string", "str_input", "file_input"}
OPFORMS = [
    ("{0} + {1}", 2), ("{0} - {1}", 2), ("{0} * {1}", 2), ("{0} / {1}", 2), ("{0} % {1}", 2), ("{0} == {1}", 2), ("{0} != {1}", 2),
    ("{0} < {1}", 2), ("{0} <= {1}", 2), ("{0} > {1}", 2), ("{0} >= {1}", 2), ("{0} and {1}", 2), ("{0} or {1}", 2), ("{0} in {1}", 2),
    ("{0} not in {1}", 2), ("not {0}", 1), ("-{0}", 1), ("{0}[{1}]", 2), ("{0}[{1}, {2}]", 3), ("{0}[{1} to {2}]", 3), ("{0}[{1} to *]", 2),
    ("for i in {0} do i end", 1), ("for i in keys {0} do i end", 1), ("for i in values {0} do i end", 1), ("for i in entries {0} do i end", 1),
    ("for [i, j] in {0} do i end", 1), ("[...{0}]", 1), ("identity(...{0})", 1), ("[i for i in {0}]", 1), ("[i for i in keys {0}]", 1),
    ("[i for i in values {0}]", 1), ("<<i for i in {0}>>", 1), ("<<<i => i for i in {0}>>>", 1), ("[i + j for i in {0} for j in {1}]", 2),
    ("[[i, j] for i in {0} also for j in {1}]", 2), ("def [p, q] = {0}; p", 1), ("def p = 0; def q = 0; [p, q] = {0}; p", 1),
    ("{0} is empty", 1), ("{0} is not empty", 1), ("{0} is zero", 1), ("{0} is string", 1), ("{0} is not list", 1), ("{0} is numerical", 1),
    ("{0}->a", 1), ("{0}->a()", 1), ("{0} !> identity()", 1), ("{0}({1})", 2), ("if {0} then 1 else 2", 1), ("while {0} do break end", 1),
    ("error {0}", 1), ("do error {0} catch {1} 5 end", 2), ("{0} == {0}", 1), ("{0} < {0}", 1), ("string({0})", 1),
    ("for i in {0} do for i in {1} do i end end", 2),
    ("def c = <<<1 => 'a', 2 => 'b', 3 => 'c'>>>; for k in keys c do if k == 1 then remove(c, {0}) end", 1),
    ("def c = <<<1 => 'a', 2 => 'b'>>>; for [k, v] in entries c do remove(c, 2) end", 0), ("def c = <<<1 => 'a', 2 => 'b'>>>; for v in c do remove(c, 2) end", 0), ("sorted({0}, {1})", 2), ("[[i, j] for i in values {0} also for j in keys {1}]", 2),
    ("<<[i, j] for i in entries {0} also for j in values {1}>>", 2),
]
MUTFORMS = [("a0[{1}] = {2}", 3), ("a0->a = {1}", 2),
            # loops whose body changes the container they run over (C13: no host exception, terminates; the container is the target)
            ("for i in keys a0 do a0['k' + string(i)] = 1 end", 1), ("for i in a0 do a0[i] = 1 end", 1), ("for i in a0 do remove(a0, i) end", 1),
            ("for i in values a0 do remove(a0, i) end", 1), ("for [i, j] in entries a0 do remove(a0, i) end", 1)]


def _interp():
    import importlib
    root = os.path.join(os.environ.get("VERIF_REPO", "/repo"), "src")
    if root not in sys.path:
        sys.path.insert(0, root)
    I = importlib.import_module("ckl.interpreter").Interpreter(True, False)
    vals = importlib.import_module("ckl.values")
    I.setStandardOutput(vals.StringOutput())
    I.setStandardInput(vals.StringInput("line1\nline2\n"))
    I.interpret("; ".join(f"require {m}" for m in MODULES), "-")
    return I


def discover():
    """(qualified call prefix, name, declared parameter names) for every function value reachable by name"""
    I = _interp()
    out = []
    env = I.environment
    seen = set()
    base = I.base_environment
    for name in sorted(base.map.keys()):
        v = base.map[name]
        if hasattr(v, "isFunc") and v.isFunc():
            out.append((name, name, list(v.getArgNames())))
            seen.add(name)
    for m in MODULES:
        obj = env.get(m)
        for name in sorted(obj.value.keys()):
            v = obj.value[name]
            if hasattr(v, "isFunc") and v.isFunc():
                out.append((f"{m}->{name}", name, list(v.getArgNames())))
    return out


class Alarm(BaseException):      # not an Exception: a blanket `except Exception` in the code under test must not swallow the time limit
    pass


def _on_alarm(sig, frm):
    raise Alarm()


def run_case(I, errs, call, args, is_mutator):
    """returns None if the contracts hold, else (kind, detail)"""
    signal.setitimer(signal.ITIMER_REAL, 2.0, 0.25)      # repeating: the limit holds even if one alarm is lost in a handler
    try:
        try:
            for k in ("a0", "a1", "a2", "p", "q", "i", "j"):
                I.environment.map.pop(k, None)
            for i, a in enumerate(args):
                I.interpret(f"def a{i} = {a}", "-")
            before = [str(I.environment.map[f"a{i}"]) for i in range(len(args))]
        finally:
            signal.setitimer(signal.ITIMER_REAL, 0)
    except Alarm:
        return ("C13", "does not terminate within 2 s (building or rendering the argument values)")
    except Exception as e:      # the pool value itself could not be built: not a case
        return None
    src = call.format(*[f"a{i}" for i in range(len(args))])
    signal.setitimer(signal.ITIMER_REAL, 2.0, 0.25)
    out = None
    try:
        try:
            res = I.interpret(src, "-")
            # representation invariant of the number classes (C13: later operations rely on it)
            if (res.isDecimal() and type(res.value) is not float) or (res.isInt() and type(res.value) is not int):
                out = ("C13", f"{res.type()} result holding a host {type(res.value).__name__}: {res}")
            elif res.isDecimal() and (res.value != res.value or res.value in (float("inf"), float("-inf"))):
                out = ("C13", f"a decimal that is not a finite number: {res} (later operations on it raise host exceptions)")
        finally:
            signal.setitimer(signal.ITIMER_REAL, 0)
    except errs.CklRuntimeError as e:
        v = e.value
        if not (hasattr(v, "isString") and hasattr(v, "type")):
            out = ("C13", f"runtime error whose value is not a language value: {type(v).__name__} {v!r}")
    except errs.CklSyntaxError:
        pass
    except Alarm:
        out = ("C13", "does not terminate within 2 s")
    except RecursionError:
        out = ("C13", "host RecursionError")
    except BaseException as e:
        out = ("C13", f"host exception {type(e).__name__}: {str(e)[:80]}")
    if out is None and not is_mutator:
        try:
            signal.setitimer(signal.ITIMER_REAL, 2.0, 0.25)
            try:
                after = [str(I.environment.map[f"a{i}"]) for i in range(len(args))]
            finally:
                signal.setitimer(signal.ITIMER_REAL, 0)
        except Alarm:
            return ("C13", "does not terminate within 2 s (rendering the arguments after the call)")
        except Exception as e:
            after = before
        for i, (b, a) in enumerate(zip(before, after)):
            if b != a and not b.startswith("<!"):
                out = ("C16", f"argument {i} changed from {b} to {a}")
                break
    return out


_W = {}


def _work(job):
    signal.signal(signal.SIGALRM, _on_alarm)
    if "I" not in _W:
        _W["I"] = _interp()
        _W["errs"] = sys.modules["ckl.errors"]
    I, errs = _W["I"], _W["errs"]
    call, name, tuples, is_mut = job
    fails = []
    n = 0
    hung = 0
    for args in tuples:
        n += 1
        r = run_case(I, errs, call, args, is_mut)
        if r is not None and r[1].startswith("does not terminate") and any(a == HUGE for a in args):
            r = None     # astronomically large repetition/iteration counts are a host resource limit (assumption)
            _W["I"] = _interp()
            I = _W["I"]
        if r is not None and not any(f[4][:30] == r[1][:30] for f in fails) and len(fails) < 12:
            fails.append((r[0], name, call, list(args), r[1]))
        if r is not None and r[1].startswith("does not terminate"):
            _W["I"] = _interp()
            I = _W["I"]
            hung += 1
            if hung >= 3:       # three time limits in one call shape: reported, the rest of the shape is not waited for
                break
    return n, fails


def jobs(tier, seed):
    rnd = random.Random(seed)
    out = []
    for prefix, name, params in discover():
        if name in ("run", "bind_native"):
            pools = {1: [("'no_such_native'",), ("'add'",), ("1",), ("NULL",)]}
            for k, tuples in pools.items():
                out.append((prefix + "({0})", name, tuples, True))
            continue
        is_mut = name in MUTATORS or name in STREAMFUNCS
        maxar = min(3, len(params))
        rest = any(p.endswith("...") for p in params)
        for ar in range(0, (3 if rest else maxar) + 1):
            if ar <= 1:
                tuples = list(itertools.product(POOL, repeat=ar))
            elif ar == 2:
                tuples = list(itertools.product(POOL, repeat=2))
                if tier == "quick":
                    tuples = list(itertools.product(POOL, SMALL)) + list(itertools.product(SMALL, POOL))
            else:
                if tier == "thorough":
                    tuples = list(itertools.product(POOL, SMALL, SMALL)) + rnd.sample(list(itertools.product(POOL, repeat=3)), 3000)
                else:
                    tuples = rnd.sample(list(itertools.product(SMALL, repeat=3)), 300)
            call = prefix + "(" + ", ".join("{%d}" % i for i in range(ar)) + ")"
            out.append((call, name, tuples, is_mut))
            # the same object passed in two argument positions
            if ar == 2:
                out.append((prefix + "({0}, {0})", name, [(a,) for a in POOL], is_mut))
            elif ar == 3:
                pairs = list(itertools.product(SMALL, repeat=2))
                out.append((prefix + "({0}, {0}, {1})", name, pairs, is_mut))
                out.append((prefix + "({0}, {1}, {0})", name, pairs, is_mut))
                out.append((prefix + "({0}, {1}, {1})", name, pairs, is_mut))
    for form, ar in OPFORMS:
        pool = POOL if ar <= 2 else SMALL
        if ar == 2 and tier == "quick":
            tuples = list(itertools.product(POOL, SMALL)) + list(itertools.product(SMALL, POOL))
        else:
            tuples = list(itertools.product(pool, repeat=ar))
        out.append((form, "operator-form: " + form, tuples, False))
    for form, ar in MUTFORMS:
        tuples = list(itertools.product(SMALL, repeat=ar))
        out.append((form, "assignment-form: " + form, tuples, True))
    return out


def enumerate_pool(tier, seed, procs=16):
    t0 = time.time()
    js = jobs(tier, seed)
    # split large jobs so that the pool stays busy
    split = []
    for call, name, tuples, is_mut in js:
        for i in range(0, len(tuples), 400):
            split.append((call, name, tuples[i:i + 400], is_mut))
    total, fails = 0, []
    ctx = mp.get_context("fork")
    with ctx.Pool(procs) as pool:
        for n, f in pool.imap_unordered(_work, split, chunksize=4):
            total += n
            fails.extend(f)
    return total, fails, len(js), time.time() - t0


if __name__ == "__main__":
    total, fails, nj, wall = enumerate_pool(sys.argv[1] if len(sys.argv) > 1 else "quick", 0)
    print(total, "cases", nj, "call shapes", round(wall, 1), "s")
    seen = set()
    for f in sorted(fails):
        key = (f[0], f[1], f[4][:40])
        if key in seen:
            continue
        seen.add(key)
        print(f[0], f[2].format(*f[3]), "=>", f[4])
