"""C02, parser part: the precedence chain, comparison chains and the `is [not]` predicate forms.

Every level of the expression grammar (parse_or_expr ... parse_unary_expr) is executed symbolically on the abstract
token stream of contracts/parserproof.py; sub-parsers are abstract callees that return opaque nodes and are *logged*
(ghost call log: which sub-parser, at which cursor, which node).  The contracts pin down, for all token streams,

  * which sub-parser supplies the operands of a level (the next tighter level: or < and < not < comparison < additive <
    multiplicative < unary) -- nothing else may be called,
  * which tokens a level treats as its operators and which built-in each one denotes,
  * the shape of the tree: one loop iteration of a left-associative level turns the accumulated tree `acc` into
    op(acc, operand); a comparison chain appends op(lhs, rhs) to a conjunction and continues with lhs := rhs (adjacent
    pairs); or/and append their operand to one n-ary node (whose evaluation order / short circuit is part 1),
  * `x is not P` parses to not(T) where T is, field by field (positions aside), the tree that `x is P` parses to
    (relational unit: the function is run on a token stream and on the same stream with the `not` removed).
"""
import ast
import z3

from pyvc.verify import Unit, Outcome
from pyvc.interp import Loop, PyRaise, ScriptAbs
from pyvc.values import SInt, SStr, SBool, SElem, Obj, PList, zi, zs, mk_bool, mk_int, is_strlike
from .parserproof import make_lexer, nt, AbsNodeFactory, N, TV, TT, TPOS, token_wf


def replay_fuzz(fail):
    from .c02 import replay_grammar
    return replay_grammar(fail)

CHAIN = ["parse_or_expr", "parse_and_expr", "parse_not_expr", "parse_rel_expr", "parse_add_expr", "parse_mul_expr",
         "parse_unary_expr", "parse_pred_expr", "parse_primary_expr"]


def parser_units(w, prop="C02"):
    U = []
    parser = w.import_module("ckl.parser").ns
    nodes = w.import_module("ckl.nodes").ns
    errs = w.import_module("ckl.errors").ns
    values = w.import_module("ckl.values").ns
    NF = AbsNodeFactory(w)

    def tokval(i):
        return z3.Select(TV, i)

    def toktype(i):
        return z3.Select(TT, i)

    def logged_callee(name):
        def handler(it, a, k, node):
            lexer = [x for x in list(a) + list(k.values()) if isinstance(x, Obj) and x.cls.name == "Lexer"][0]
            cur = nt(lexer)
            it.check(f"pre:{name}:lexer-invariant", z3.And(cur >= 0, cur <= N), node)
            if it.path.choose(2) == 1:
                e = Obj(errs["CklSyntaxError"], {"msg": it.fresh_str("msg"), "pos": SElem(z3.Int(it.fresh("epos")), "pos"), "args": ()})
                e.fields["_from_callee"] = True
                raise PyRaise(e)
            new = it.fresh_int("nt")
            it.assume(z3.And(new.z > cur, new.z <= N))
            lexer.fields["nextToken"] = new
            r = NF.node(it, name)
            it.ghost.setdefault("calls", []).append({"name": name, "at": cur, "node": r, "args": list(a[1:])})
            return r
        return handler

    ABS = {n: logged_callee(n) for n in CHAIN}

    def same_node(it, a, b):
        return isinstance(a, SElem) and isinstance(b, SElem) and z3.eq(z3.simplify(a.z), z3.simplify(b.z))

    def both(py_ok, formula):
        """a structural (host-level) fact and a solver-level fact"""
        return formula if py_ok else False

    def is_funcall(it, x, fname, args):
        """x is the node func_call(fname, *args) builds: NodeFuncall(NodeIdentifier(fname)) with exactly these arguments in order"""
        if not (isinstance(x, Obj) and x.cls is nodes["NodeFuncall"]):
            return False
        f = x.fields["func"]
        if not (isinstance(f, Obj) and f.cls is nodes["NodeIdentifier"] and isinstance(f.fields["value"], str) and f.fields["value"] == fname):
            return False
        got = x.fields["args"].items
        if got is None or len(got) != len(args):
            return False
        return all(g is e or same_node(it, g, e) for g, e in zip(got, args))

    def calls(it):
        return it.ghost.get("calls", [])

    def base_setup(it):
        lexer = make_lexer(w, it)
        return [lexer], {}, {"lexer": lexer}

    def mk_unit(fname, post, loops=None, note=""):
        fn = parser[fname]

        def body(it, c):
            return Outcome("return", it.call_func(fn, [c["lexer"]], {}))

        def post2(it, c, o):
            if o.kind == "raise":
                return
            post(it, c, o)
        return Unit(f"parser.py::{fname}", base_setup, post2, name=f"parser.py::{fname}[grammar level{note}]", body=body, allowed=("CklSyntaxError",),
                    abstractions={k: v for k, v in ABS.items() if k != fname}, loops={f"{fname}": loops or {}},
                    config={"merge_boolops": True, "max_depth": 30}, replay=replay_fuzz, prepare=NF.install)

    def only_calls(it, allowed):
        bad = [c["name"] for c in calls(it) if c["name"] not in allowed]
        it.check(f"post:operands-come-only-from-{'/'.join(allowed)}", not bad, detail=f"also called: {bad}")

    # ------------------------------------------------------------------ left-associative binary levels
    def binary_level(fname, operand, ops):
        """expr = operand(); while next in ops: expr = func_call(ops[tok], expr, operand())"""
        def inv(st):
            cur = nt(st["lexer"])
            return [cur >= 0, cur <= N]

        def at_start(st):
            it = st.interp
            it.ghost["iter_calls0"] = len(calls(it))
            it.ghost["iter_acc"] = st["expr"]
            it.ghost["iter_nt"] = nt(st["lexer"])

        def at_end(st):
            it = st.interp
            new = calls(it)[it.ghost["iter_calls0"]:]
            acc = it.ghost["iter_acc"]
            optok = it.ghost["iter_nt"]
            it.check("step:one-operand-from-the-next-tighter-level", len(new) == 1 and new[0]["name"] == operand, detail=str([c["name"] for c in new]))
            if len(new) != 1:
                return
            it.check("step:the-operator-token-is-consumed-and-the-operand-follows-it", new[0]["at"] == optok + 1)
            for tok, native in ops.items():
                if it.path.branch(tokval(optok) == z3.StringVal(tok)):
                    it.check(f"step:`acc {tok} operand`-becomes-{native}(acc, operand)-left-associative",
                             both(is_funcall(it, st["expr"], native, [acc, new[0]["node"]]), toktype(optok) == z3.StringVal("operator")))
                    if prop == "C20" and isinstance(st["expr"], Obj):
                        pz = st["expr"].fields.get("pos")
                        it.check("step:the-operation-is-positioned-at-its-operator-token (an error of the operation is reported on the operator's line)",
                                 both(isinstance(pz, SElem), pz.z == TPOS(optok)) if isinstance(pz, SElem) else False)
                    return
            it.check("step:only-this-level's-operators-continue-the-loop", False, detail="iteration entered on another token")
        loop = Loop(inv, modifies=["lexer.nextToken"], decreases=lambda st: mk_int(N - nt(st["lexer"])), at_start=at_start, at_end=at_end,
                    havoc_as={"expr": lambda it: NF.node(it, "acc")})

        def post(it, c, o):
            only_calls(it, [operand])
            cs = calls(it)
            # the exit path: either no operator followed (result = first operand) or the accumulated tree is returned
            it.check("post:first-operand-parsed-at-entry", both(len(cs) >= 1, cs[0]["at"] == z3.Int("nt0")) if cs else False)
            cur = nt(c["lexer"])
            stop = z3.Or(cur >= N, z3.Not(z3.And(toktype(cur) == z3.StringVal("operator"), z3.Or(*[tokval(cur) == z3.StringVal(t) for t in ops]))))
            it.check("post:stops-exactly-at-the-first-token-that-is-not-an-operator-of-this-level", stop)
        return mk_unit(fname, post, {0: loop})
    U.append(binary_level("parse_add_expr", "parse_mul_expr", {"+": "add", "-": "sub"}))
    U.append(binary_level("parse_mul_expr", "parse_unary_expr", {"*": "mul", "/": "div", "%": "mod"}))

    # ------------------------------------------------------------------ or / and: one n-ary node, operands in order
    def nary_level(fname, operand, kw, cls, field):
        def inv(st):
            cur = nt(st["lexer"])
            r = st["result"]
            ok = isinstance(r, Obj) and r.cls is nodes[cls]
            return [cur >= 0, cur <= N, z3.BoolVal(ok)]

        def at_start(st):
            it = st.interp
            it.ghost["iter_calls0"] = len(calls(it))
            it.ghost["iter_seq"] = st["result"].fields[field].sym
            it.ghost["iter_nt"] = nt(st["lexer"])

        def at_end(st):
            it = st.interp
            new = calls(it)[it.ghost["iter_calls0"]:]
            it.check("step:one-operand-from-the-next-tighter-level", len(new) == 1 and new[0]["name"] == operand, detail=str([c["name"] for c in new]))
            if len(new) != 1:
                return
            kwtok = it.ghost["iter_nt"] - 1     # the loop test (matchIf) has consumed the keyword
            it.check(f"step:the-iteration-consumes-`{kw}`-and-the-operand-follows-it",
                     z3.And(kwtok >= 0, tokval(kwtok) == z3.StringVal(kw), toktype(kwtok) == z3.StringVal("keyword"), new[0]["at"] == kwtok + 1))
            lst = st["result"].fields[field]
            old = it.ghost["iter_seq"]
            it.check(f"step:the-operand-is-appended-to-the-{cls}-node (operands keep their source order)",
                     lst.is_sym() and lst.sym == z3.Concat(old, z3.Unit(new[0]["node"].z)))
        loop = Loop(inv, modifies=["lexer.nextToken", "*reachable*"], decreases=lambda st: mk_int(N - nt(st["lexer"])), at_start=at_start, at_end=at_end)

        def post(it, c, o):
            only_calls(it, [operand])
            cur = nt(c["lexer"])
            it.check(f"post:stops-exactly-at-the-first-token-that-is-not-`{kw}`",
                     z3.Or(cur >= N, z3.Not(z3.And(tokval(cur) == z3.StringVal(kw), toktype(cur) == z3.StringVal("keyword")))))
            cs = calls(it)
            if isinstance(o.value, SElem):
                it.check("post:without-the-keyword-the-operand-is-returned-unchanged", len(cs) == 1 and o.value.z is cs[0]["node"].z)
            else:
                it.check(f"post:otherwise-a-{cls}-node", isinstance(o.value, Obj) and o.value.cls is nodes[cls])
        u = mk_unit(fname, post, {0: loop})
        u.config["local_kinds"] = {"." + field: "node"}
        return u
    U.append(nary_level("parse_or_expr", "parse_and_expr", "or", "NodeOr", "expressions"))
    U.append(nary_level("parse_and_expr", "parse_not_expr", "and", "NodeAnd", "expressions"))

    # ------------------------------------------------------------------ not
    def post_not(it, c, o):
        only_calls(it, ["parse_rel_expr"])
        cs = calls(it)
        it.check("post:exactly-one-comparison-level-operand", len(cs) == 1)
        if len(cs) != 1:
            return
        s = z3.Int("nt0")
        isnot = z3.And(tokval(s) == z3.StringVal("not"), toktype(s) == z3.StringVal("keyword"))
        if isinstance(o.value, SElem):
            it.check("post:without-`not`-the-operand-is-returned", z3.And(z3.Not(isnot), cs[0]["at"] == s, o.value.z == cs[0]["node"].z))
        else:
            ok = isinstance(o.value, Obj) and o.value.cls is nodes["NodeNot"] and isinstance(o.value.fields["expression"], SElem)
            it.check("post:`not e` is NodeNot(e) and binds looser than comparison",
                     z3.And(z3.BoolVal(ok), isnot, cs[0]["at"] == s + 1, o.value.fields["expression"].z == cs[0]["node"].z) if ok else False)
    U.append(mk_unit("parse_not_expr", post_not))

    # ------------------------------------------------------------------ unary
    def post_unary(it, c, o):
        only_calls(it, ["parse_pred_expr"])
        cs = calls(it)
        it.check("post:exactly-one-operand", len(cs) == 1)
        if len(cs) != 1:
            return
        s = z3.Int("nt0")
        plus = z3.And(tokval(s) == z3.StringVal("+"), toktype(s) == z3.StringVal("operator"))
        minus = z3.And(tokval(s) == z3.StringVal("-"), toktype(s) == z3.StringVal("operator"))
        um = cs[0]["args"][0] if cs[0]["args"] else False
        if isinstance(o.value, SElem):
            lit = z3.Or(toktype(s + 1) == z3.StringVal("int"), toktype(s + 1) == z3.StringVal("decimal"))
            it.check("post:`+e` is e, `-literal` is the negated literal, otherwise the operand itself",
                     z3.And(o.value.z == cs[0]["node"].z,
                            z3.If(z3.Or(plus, minus), cs[0]["at"] == s + 1, cs[0]["at"] == s),
                            z3.BoolVal(bool(um)) == z3.And(minus, lit)))
        else:
            x = o.value
            ok = isinstance(x, Obj) and x.cls is nodes["NodeFuncall"]
            if ok:
                f, args = x.fields["func"], x.fields["args"].items
                ok = isinstance(f, Obj) and f.fields.get("value") == "sub" and len(args) == 2 and isinstance(args[0], Obj) and args[0].cls is nodes["NodeLiteral"] \
                    and isinstance(args[0].fields["value"], Obj) and args[0].fields["value"].cls is values["ValueInt"] and args[0].fields["value"].fields["value"] == 0 \
                    and isinstance(args[1], SElem)
            it.check("post:`-e` is sub(0, e)", z3.And(minus, cs[0]["at"] == s + 1, args[1].z == cs[0]["node"].z, z3.BoolVal(not um)) if ok else False)
    U.append(mk_unit("parse_unary_expr", post_unary))

    # ------------------------------------------------------------------ comparison chain
    RELOPS = {"<": "less", "<=": "less_equals", ">": "greater", ">=": "greater_equals", "==": "equals", "is": "equals",
              "<>": "not_equals", "!=": "not_equals"}

    def rel_inv(st):
        cur = nt(st["lexer"])
        r = st["result"]
        st.interp.ghost["rel_result"] = r
        return [cur >= 0, cur <= N, z3.BoolVal(isinstance(r, Obj) and r.cls is nodes["NodeAnd"])]

    def rel_start(st):
        it = st.interp
        it.ghost["iter_calls0"] = len(calls(it))
        it.ghost["iter_seq"] = st["result"].fields["expressions"].sym
        it.ghost["iter_nt"] = nt(st["lexer"])
        it.ghost["iter_lhs"] = st["lhs"]

    def rel_end(st):
        it = st.interp
        new = calls(it)[it.ghost["iter_calls0"]:]
        it.check("step:one-operand-from-the-additive-level", len(new) == 1 and new[0]["name"] == "parse_add_expr", detail=str([c["name"] for c in new]))
        if len(new) != 1:
            return
        optok = it.ghost["iter_nt"]
        rhs = new[0]["node"]
        it.check("step:the-next-comparison-continues-from-this-right-operand (adjacent pairs)", isinstance(st["lhs"], SElem) and st["lhs"].z is rhs.z)
        cmpnode = st["cmp"]
        isnot = z3.And(tokval(optok) == z3.StringVal("is"), optok + 1 < N, tokval(optok + 1) == z3.StringVal("not"))
        if it.path.branch(isnot):
            it.check("step:`a is not b` appends not_equals(a, b)",
                     both(is_funcall(it, cmpnode, "not_equals", [it.ghost["iter_lhs"], rhs]), new[0]["at"] == optok + 2))
        else:
            for tok, native in RELOPS.items():
                if it.path.branch(tokval(optok) == z3.StringVal(tok)):
                    it.check(f"step:`a {tok} b` appends {native}(a, b)",
                             both(is_funcall(it, cmpnode, native, [it.ghost["iter_lhs"], rhs]), new[0]["at"] == optok + 1))
                    break
            else:
                it.check("step:only-comparison-operators-continue-the-chain", False)
        if prop == "C20" and isinstance(cmpnode, Obj):
            pz = cmpnode.fields.get("pos")
            it.check("step:the-comparison-is-positioned-at-its-operator (the last token of `is not`)",
                     z3.Or(pz.z == TPOS(optok), pz.z == TPOS(optok + 1)) if isinstance(pz, SElem) else False)
        lst = st["result"].fields["expressions"]
        old = it.ghost["iter_seq"]
        it.check("step:exactly-one-conjunct-is-appended-per-comparison",
                 both(lst.is_sym(), z3.And(z3.Length(lst.sym) == z3.Length(old) + 1, z3.Extract(lst.sym, 0, z3.Length(old)) == old)))
    rel_loop = Loop(rel_inv, modifies=["lexer.nextToken", "*reachable*"], decreases=lambda st: mk_int(N - nt(st["lexer"])), at_start=rel_start, at_end=rel_end,
                    havoc_as={"lhs": lambda it: NF.node(it, "lhs"), "rhs": lambda it: NF.node(it, "rhs"), "cmp": lambda it: NF.node(it, "cmp")})

    def post_rel(it, c, o):
        only_calls(it, ["parse_add_expr"])
        cur = nt(c["lexer"])
        isrel = z3.And(z3.Or(*[tokval(cur) == z3.StringVal(t) for t in RELOPS]), z3.Or(toktype(cur) == z3.StringVal("operator"), toktype(cur) == z3.StringVal("keyword")))
        it.check("post:stops-exactly-at-the-first-token-that-is-not-a-comparison-operator", z3.Or(cur >= N, z3.Not(isrel)))
        cs = calls(it)
        res = it.ghost.get("rel_result")
        if res is None:
            it.check("post:without-a-comparison-operator-the-operand-is-returned-unchanged",
                     both(len(cs) == 1 and isinstance(o.value, SElem), o.value.z == cs[0]["node"].z))
        else:
            conj = res.fields["expressions"]
            if isinstance(o.value, SElem):
                it.check("post:a-single-comparison-is-returned-as-such", both(conj.is_sym(), z3.And(z3.Length(conj.sym) == 1, o.value.z == conj.sym[0])))
            else:
                it.check("post:a-chain-is-the-conjunction-node-of-its-adjacent-comparisons", both(o.value is res and conj.is_sym(), z3.Length(conj.sym) != 1))
    u = mk_unit("parse_rel_expr", post_rel, {0: rel_loop})
    u.config["local_kinds"] = {".expressions": "node"}
    U.append(u)
    if prop == "C02":
        U.extend(isnot_units(w))
    return U


# ----------------------------------------------------------------------------- `x is not P` == not(`x is P`)
def isnot_units(w):
    """Relational contract on the real parse_pred_expr: run on a token stream  x is not P...  and on the same stream with
    the `not` removed.  Sub-parsers are deterministic abstract callees (the same sub-parser on the same tokens returns the
    same node and stops at the same token -- which their own contracts in C01 allow to assume only together with: a
    sub-parser does not look at tokens before its entry cursor; both are listed as assumptions).  Obligation: whenever the
    second run returns a tree T, the first returns NodeNot(T') with T' equal to T field by field (positions aside)."""
    parser = w.import_module("ckl.parser").ns
    nodes = w.import_module("ckl.nodes").ns
    errs = w.import_module("ckl.errors").ns
    lexns = w.import_module("ckl.lexer").ns
    NF = AbsNodeFactory(w)
    P = z3.Int("is_at")                      # index of `is` in stream A; `not` is at P + 1
    NEXT = z3.Function("SUBPARSER_END", z3.IntSort(), z3.IntSort(), z3.IntSort())      # (sub-parser, entry cursor in A) -> end cursor in A
    NODE = z3.Function("SUBPARSER_NODE", z3.IntSort(), z3.IntSort(), z3.IntSort())
    FAILS = z3.Function("SUBPARSER_FAILS", z3.IntSort(), z3.IntSort(), z3.BoolSort())
    NAMES = {n: i for i, n in enumerate(CHAIN)}

    def lexer_b(it):
        """stream B: A without the token at P + 1"""
        def tok(it_, idx, node):
            n = N - 1
            i = zi(idx)
            it_.guard(mk_bool(z3.And(i >= -n, i < n)), "IndexError", node, "list index out of range")
            j = z3.simplify(z3.If(i >= 0, i, i + n))
            ja = z3.If(j > P, j + 1, j)
            it_.path.assume(token_wf(z3.Select(TV, ja), z3.Select(TT, ja)), check=False)
            o = Obj(lexns["Token"], {"value": SStr(z3.Select(TV, ja)), "type": SStr(z3.Select(TT, ja)), "pos": SElem(TPOS(ja), "pos")})
            o.fresh = False
            return o
        lx = Obj(lexns["Lexer"], {"script": "", "name": SStr(z3.String("fname")), "tokens": ScriptAbs(SInt(N - 1), tok), "nextToken": SInt(z3.Int("nt0")),
                                  "_stream": "B"})
        lx.fresh = False
        return lx

    def callee(name):
        def handler(it, a, k, node):
            lexer = [x for x in list(a) + list(k.values()) if isinstance(x, Obj) and x.cls.name == "Lexer"][0]
            is_b = lexer.fields.get("_stream") == "B"
            cur = nt(lexer)
            cur_a = z3.simplify(z3.If(cur > P, cur + 1, cur)) if is_b else cur
            key = NAMES[name]
            um = a[1] if len(a) > 1 and isinstance(a[1], bool) else False
            key = key * 2 + (1 if um else 0)
            if it.path.branch(FAILS(key, cur_a)):
                e = Obj(errs["CklSyntaxError"], {"msg": it.fresh_str("msg"), "pos": SElem(z3.Int(it.fresh("epos")), "pos"), "args": ()})
                raise PyRaise(e)
            end_a = NEXT(key, cur_a)
            it.assume(z3.And(end_a > cur_a, end_a <= N))
            # the operand x of both runs is the same parse: it ends at `is`
            it.assume(z3.Implies(cur_a == z3.Int("nt0"), end_a == P))
            # a sub-parser entered after the `not` never ends before it
            lexer.fields["nextToken"] = mk_int(z3.simplify(z3.If(end_a > P + 1, end_a - 1, end_a)) if is_b else end_a)
            return SElem(NODE(key, cur_a), "node")
        return handler

    ABS = {n: callee(n) for n in CHAIN if n != "parse_pred_expr"}

    def iso(it, x, y, path="result"):
        """list of (where, formula-or-bool) that together say x and y are the same tree, positions aside"""
        if isinstance(x, SElem) and isinstance(y, SElem):
            return [(path, x.z == y.z)]
        if isinstance(x, Obj) and isinstance(y, Obj):
            if x.cls is not y.cls:
                return [(path + ": " + x.cls.name + " vs " + y.cls.name, False)]
            out = []
            for f in x.fields:
                if f in ("pos", "info"):
                    continue
                out += iso(it, x.fields[f], y.fields.get(f), path + "." + f)
            return out
        if isinstance(x, PList) and isinstance(y, PList):
            if x.is_sym() or y.is_sym() or len(x.items) != len(y.items):
                return [(path + ": lists differ", False)]
            out = []
            for i, (p, q) in enumerate(zip(x.items, y.items)):
                out += iso(it, p, q, f"{path}[{i}]")
            return out
        if is_strlike(x) and is_strlike(y):
            return [(path, x == y if isinstance(x, str) and isinstance(y, str) else zs(x) == zs(y))]
        if x is None or y is None or isinstance(x, (bool, int, float)):
            return [(path, x is y or (type(x) is type(y) and x == y))]
        return [(path + f": {type(x).__name__} vs {type(y).__name__}", False)]

    def setup(it):
        lexa = make_lexer(w, it)
        lexb = lexer_b(it)
        s = z3.Int("nt0")
        it.assume(z3.And(P > s, P + 2 < N,
                         z3.Select(TV, P) == z3.StringVal("is"), z3.Select(TT, P) == z3.StringVal("keyword"),
                         z3.Select(TV, P + 1) == z3.StringVal("not"), z3.Select(TT, P + 1) == z3.StringVal("keyword")))
        # the token after `is` in stream B is not itself `not` (`x is not not P` is not a predicate form)
        it.assume(z3.Not(z3.And(z3.Select(TV, P + 2) == z3.StringVal("not"), z3.Select(TT, P + 2) == z3.StringVal("keyword"))))
        return [], {}, {"a": lexa, "b": lexb}

    def run(it, lexer, um):
        try:
            return ("return", it.call_func(parser["parse_pred_expr"], [lexer, um], {}))
        except PyRaise as e:
            return ("raise", e.exc)

    def body(it, c):
        um = it.path.choose(2) == 1
        ra = run(it, c["a"], um)
        rb = run(it, c["b"], um)
        return Outcome("return", (ra, rb))

    def post(it, c, o):
        (ka, va), (kb, vb) = o.value
        ca, cb = nt(c["a"]), nt(c["b"])
        if kb == "raise":
            it.check("post:`x is P` is a syntax error only if `x is not P` is one", ka == "raise")
            return
        it.check("post:`x is not P` parses whenever `x is P` does", ka == "return")
        if ka != "return":
            return
        if isinstance(vb, SElem) and isinstance(va, SElem):
            # not a predicate form: both give the operand back and leave `is [not]` to the comparison level (not_equals / equals, part 1)
            it.check("post:no-predicate-form: the operand is returned and the cursor is back at `is` in both", z3.And(va.z == vb.z, ca == P, cb == P))
            return
        ok = isinstance(va, Obj) and va.cls is nodes["NodeNot"]
        it.check("post:`x is not P` is a NodeNot", ok, detail=f"got {va.cls.name if isinstance(va, Obj) else type(va).__name__}")
        if not ok:
            return
        for where, f in iso(it, va.fields["expression"], vb):
            it.check("post:the-negated-tree-is-the-tree-of-`x is P`", f, detail=where)
        it.check("post:both-stop-at-the-same-token", ca == cb + 1)
    return [Unit("parser.py::parse_pred_expr", setup, post, name="parser.py::parse_pred_expr[`x is not P` == not(`x is P`), relational]", body=body,
                 allowed=(), abstractions=ABS, config={"merge_boolops": True, "max_depth": 30}, replay=replay_fuzz, prepare=NF.install)]
