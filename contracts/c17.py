"""C17 - Dates and day numbers convert one-to-one and date arithmetic is calendar-correct.

Functions under contract: date.py (all five), ValueDate.asInt/asDecimal, ValueInt.asDate, date branches of
FuncAdd.execute / FuncSub.execute.  Spec: DESIGN.md A.1 (leap, D, M, N).
"""
import z3

from pyvc.verify import Unit, Outcome
from pyvc.interp import Loop, PyRaise
from pyvc.values import SInt, SFloat, Obj, zi, zr, zb, mk_int
from pyvc.world import new_datetime, dt_valid
from pyvc.runner import BoundedResult
from .common import (Vals, z_leap, z_yd, z_D, z_M, z_md, z_N, I, N_MIN, N_1900, N_MAX, date_N, date_sod,
                     selfcheck_specs, py_N)

MANIFEST_ENTRY = {
    'category': 'proof',
    'text': 'date.py and the date conversions/arithmetic of the value classes and natives are proved against the closed-form Gregorian day number for every date 0001..9999 and every integer offset (loop invariants, z3); time of day through IEEE doubles is covered by a bounded enumeration on the real code; date - date with times of day is the whole number of days nearest to the exact difference, exactly the difference of the day numbers for equal times of day (over the error bound proved for to_oa_date); all dates 0001-01-01 .. 9999-12-31; day numbers and dates of the first/last day and the end of February of every year 1..9999 (thorough: every day) against the host calendar (bounded); date(decimal) hands the decimal\'s own day number to to_date unchanged; date(decimal(d)) == d and (d + n) - n == d through the language with times of day before and after 1899-12-30 (bounded)',
    'note': 'IEEE doubles idealised (rnd model); datetime.replace trusted; VC generator trusted (canaries on every run)',
    'technique': 'deductive verification: pyvc VCs from the real AST + z3/cvc5; bounded enumeration for float time-of-day',
}
PROPERTY = "C17"
LEVEL = "proof"
TRUSTED = [
    "datetime.datetime.replace builds the stated civil date and raises ValueError exactly on out-of-range fields",
    "IEEE-754 doubles idealised: integers up to 2^53 are exact; every other float operation is rnd(real) with relative error 2^-53",
    "round(x) returns an integer within 1/2 of x",
]
ASSUMPTIONS = [
    "dates are in 0001-01-01 .. 9999-12-31 (all that the host datetime can hold)",
    "time of day through doubles: proved only up to the rounding model for whole-second times; exact outcomes by bounded enumeration on the real code",
]
EXPLANATION = ("to_oa_date / to_date proved against the closed-form Gregorian day number N(y,m,d) with loop invariants; "
               "injectivity and +1-per-day of N are z3 lemmas; conversions and date arithmetic of the value classes and "
               "natives are checked against the callee contracts.")


def sym_datetime(w, it, name, midnight):
    fs = [SInt(z3.Int(f"{name}.{f}")) for f in ("year", "month", "day")]
    ts = [0, 0, 0, 0] if midnight else [SInt(z3.Int(f"{name}.{f}")) for f in ("hour", "minute", "second")] + [0]
    d = new_datetime(w, *(fs + ts))
    d.fresh = False
    it.path.assume(dt_valid(d), check=False)
    it.path.assume(zi(fs[0]) >= 1)
    return d


def _zmax(a, b):
    return z3.If(a >= b, a, b)


TO_OA_LOOPS = {
    # years from 1900 up to the date's year (empty for dates before 1900) ...
    0: Loop(lambda st: [zi(st["result"]) == 1 + z_D(zi(st.k)), zi(st.k) <= _zmax(zi(st["year"]), z3.IntVal(1900)), zi(st.k) >= 1900]),
    # ... years from the date's year up to 1900, subtracted (empty from 1900 on)
    1: Loop(lambda st: [zi(st["result"]) == 1 + z_D(_zmax(zi(st["year"]), z3.IntVal(1900))) - z_D(zi(st.k)) + z_D(zi(st["year"])),
                        zi(st.k) >= zi(st["year"]), zi(st.k) <= _zmax(zi(st["year"]), z3.IntVal(1900)), zi(st["year"]) >= 1]),
    2: Loop(lambda st: [zi(st["result"]) == 1 + z_D(zi(st["year"])) + z_M(zi(st["year"]), zi(st.k)),
                        zi(st.k) <= zi(st["month"]), zi(st.k) >= 0, zi(st["month"]) <= 11]),
}


def _todate_inv(st):
    # value + D(year) == days - 2   (days - DAYS_EPOCH + D(1970) with D(1970) = 25567)
    return zi(st["value"]) + z_D(zi(st["year"])) == zi(st["days"]) - 2


TO_DATE_LOOPS = {
    0: Loop(lambda st: [_todate_inv(st), zi(st["year"]) <= 1970, zi(st["year"]) >= 1,
                        z3.Or(zi(st["year"]) == 1970, zi(st["value"]) < z_yd(zi(st["year"]))),
                        z3.Implies(zi(st["value"]) < 0, zi(st["year"]) >= 2)],
            decreases=lambda st: mk_int(-zi(st["value"]))),
    1: Loop(lambda st: [_todate_inv(st), zi(st["value"]) >= 0, zi(st["year"]) >= 1, zi(st["year"]) <= 9999],
            decreases=lambda st: st["value"]),
    2: Loop(lambda st: [zi(st["value"]) + z_M(zi(st["year"]), zi(st["month"])) + z_D(zi(st["year"])) == zi(st["days"]) - 2,
                        zi(st["value"]) >= 0, zi(st["month"]) >= 0, zi(st["month"]) <= 11,
                        zi(st["value"]) + z_M(zi(st["year"]), zi(st["month"])) < z_yd(zi(st["year"]))],
            decreases=lambda st: mk_int(11 - zi(st["month"]))),
}


def units(w):
    V = Vals(w)
    U = []

    # ---- leap rule and month/year lengths
    def s_year(it):
        y = SInt(z3.Int("y"))
        return [y], {}, {"y": y}
    U.append(Unit("date.py::is_leap_year", s_year, allowed=(),
                  post=lambda it, c, o: it.check("post:gregorian-rule", zb(o.value) == z_leap(c["y"].z))))
    U.append(Unit("date.py::year_days", s_year, allowed=(),
                  post=lambda it, c, o: it.check("post", zi(o.value) == z_yd(c["y"].z))))

    def s_ym(it):
        y, m = SInt(z3.Int("y")), SInt(z3.Int("m"))
        it.assume(z3.And(m.z >= 0, m.z <= 11))
        return [y, m], {}, {"y": y, "m": m}
    U.append(Unit("date.py::month_days", s_ym, allowed=(),
                  post=lambda it, c, o: it.check("post", zi(o.value) == z_md(c["y"].z, c["m"].z))))

    # ---- to_oa_date
    def s_oa(midnight):
        def setup(it):
            d = sym_datetime(w, it, "d", midnight)
            return [d], {}, {"d": d}
        return setup

    def p_oa_midnight(it, c, o):
        it.check("post:exact-day-number", zr(o.value) == z3.ToReal(date_N(c["d"])))

    def p_oa_time(it, c, o):
        n = z3.ToReal(date_N(c["d"]))
        sod = z3.ToReal(date_sod(c["d"]))
        r = zr(o.value)
        it.check("post:integer-part-is-day-number", z3.And(r >= n, r < n + 1))
        it.check("post:fraction-is-time-of-day", z3.And(r - (n + sod / 86400) < z3.RealVal("1/200000000"),
                                                        (n + sod / 86400) - r < z3.RealVal("1/200000000")))
    U.append(Unit("date.py::to_oa_date", s_oa(True), p_oa_midnight, name="date.py::to_oa_date[midnight]",
                  allowed=(), loops=TO_OA_LOOPS, replay=replay_to_oa))
    U.append(Unit("date.py::to_oa_date", s_oa(False), p_oa_time, name="date.py::to_oa_date[time-of-day]",
                  allowed=(), loops=TO_OA_LOOPS))

    # ---- to_date on whole day numbers
    def s_todate(it):
        n = SInt(z3.Int("n"))
        it.assume(z3.And(n.z >= N_MIN, n.z <= N_MAX))
        return [n], {}, {"n": n}

    def p_todate(it, c, o):
        if o.kind != "return":
            return
        f = o.value.fields
        it.check("post:N(year,month,day)==n", z_N(zi(f["year"]), zi(f["month"]) - 1, zi(f["day"])) == c["n"].z)
        it.check("post:midnight", z3.And(zi(f["hour"]) == 0, zi(f["minute"]) == 0, zi(f["second"]) == 0,
                                          zi(f["microsecond"]) == 0))
        it.check("post:valid-civil-date", dt_valid(o.value))
    U.append(Unit("date.py::to_date", s_todate, p_todate, name="date.py::to_date[int]", allowed=(),
                  loops=TO_DATE_LOOPS, replay=replay_to_date))

    def s_todate_out(it):
        n = SInt(z3.Int("n"))
        it.assume(z3.Or(n.z < N_MIN, n.z > N_MAX))
        return [n], {}, {"n": n}

    def p_todate_out(it, c, o):
        it.check("post:out-of-range-is-rejected", o.kind == "raise" and o.exc_class == "ValueError")
    U.append(Unit("date.py::to_date", s_todate_out, p_todate_out, name="date.py::to_date[out-of-range]",
                  allowed=("ValueError",), loops=TO_DATE_LOOPS))

    # ---- lemmas on the spec N (no code): +1 per calendar day, injective
    def lemma(name, build):
        def body(it, c):
            for nm, f in build():
                it.check("lemma:" + nm, f, assume=False)
            return Outcome("return", None)
        return Unit(None, lambda it: ([], {}, {}), None, name="lemma::" + name, body=body, canary=False)

    def l_next():
        y, m, d = z3.Ints("y m d")
        valid = z3.And(y >= 1, y <= 9999, m >= 0, m <= 11, d >= 1, d <= z_md(y, m))
        out = []
        out.append(("same-month", z3.Implies(z3.And(valid, d < z_md(y, m)), z_N(y, m, d + 1) == z_N(y, m, d) + 1)))
        out.append(("month-end", z3.Implies(z3.And(valid, d == z_md(y, m), m < 11), z_N(y, m + 1, I(1)) == z_N(y, m, d) + 1)))
        out.append(("year-end", z3.Implies(z3.And(valid, m == 11, d == 31), z_N(y + 1, I(0), I(1)) == z_N(y, m, d) + 1)))
        out.append(("anchor-1900", z_N(I(1900), I(0), I(1)) == 2))
        out.append(("anchor-epoch", z_N(I(1970), I(0), I(1)) == 25569))
        out.append(("anchor-last", z_N(I(9999), I(11), I(31)) == N_MAX))
        return out
    U.append(lemma("N-advances-by-one-per-calendar-day", l_next))

    def l_inj():
        y, m, d, y2, m2, d2 = z3.Ints("y m d y2 m2 d2")
        v1 = z3.And(y >= 1, y <= 9999, m >= 0, m <= 11, d >= 1, d <= z_md(y, m))
        v2 = z3.And(y2 >= 1, y2 <= 9999, m2 >= 0, m2 <= 11, d2 >= 1, d2 <= z_md(y2, m2))
        out = []
        # strict monotonicity in lexicographic (y,m,d) order, split so that each query is linear
        out.append(("day-monotone", z3.Implies(z3.And(v1, v2, y == y2, m == m2, d < d2), z_N(y, m, d) < z_N(y2, m2, d2))))
        out.append(("month-monotone", z3.Implies(z3.And(v1, v2, y == y2, m < m2), z_N(y, m, d) < z_N(y2, m2, d2))))
        out.append(("year-monotone", z3.Implies(z3.And(v1, v2, y2 == y + 1), z_N(y, m, d) < z_N(y2, m2, d2))))
        out.append(("year-start-monotone", z3.Implies(z3.And(y >= 1, y < y2), z_D(y) < z_D(y2))))
        return out
    U.append(lemma("N-is-strictly-monotone-hence-injective", l_inj))

    # ---- conversions on the value classes (callee contracts instead of bodies)
    def abs_to_oa(it, a, k, node):
        d = a[0]
        if not (isinstance(d, Obj) and d.cls.name == "datetime"):
            it.check("pre:to_oa_date:argument-is-datetime", False, node)
        it.check("pre:to_oa_date:year>=1", zi(d.fields["year"]) >= 1, node)
        n = date_N(d)
        if all(isinstance(d.fields[f], int) and d.fields[f] == 0 for f in ("hour", "minute", "second", "microsecond")):
            return SFloat(z3.ToReal(n), intz=n)
        r = it.fresh_float("oa")
        sod = z3.ToReal(date_sod(d))
        exact = z3.ToReal(n) + sod / 86400
        # the postcondition of date.py::to_oa_date[time-of-day]
        it.path.assume(z3.And(r.z >= z3.ToReal(n), r.z < z3.ToReal(n) + 1, r.z - exact < z3.RealVal("1/200000000"), exact - r.z < z3.RealVal("1/200000000")), check=False)
        return r

    def abs_to_date(it, a, k, node):
        x = a[0]
        if isinstance(x, SFloat) and x.intz is not None:
            x = mk_int(x.intz)
        if not isinstance(x, (int, SInt)):
            it.unsupported("to_date contract on a non-integral day number", node)
        inrange = z3.And(zi(x) >= N_MIN, zi(x) <= N_MAX)
        it.check("pre:to_date:day-number-in-range", inrange, node)
        d = new_datetime(w, it.fresh_int("ry"), it.fresh_int("rm"), it.fresh_int("rd"), 0, 0, 0, 0)
        it.path.assume(dt_valid(d), check=False)
        it.path.assume(date_N(d) == zi(x), check=False)
        return d
    ABS = {"to_oa_date": abs_to_oa, "to_date": abs_to_date}

    def s_vdate(midnight):
        def setup(it):
            v = V.date(it, "d", midnight=midnight)
            return [v], {}, {"d": v}
        return setup

    def p_asint(it, c, o):
        it.check("post:is-ValueInt", o.kind == "return" and o.value.cls.name == "ValueInt")
        it.check("post:int(date)==N", zi(o.value.fields["value"]) == date_N(c["d"]))
        it.check("post:payload-is-python-int", isinstance(o.value.fields["value"], (int, SInt)))
    U.append(Unit("values.py::ValueDate.asInt", s_vdate(False), p_asint, allowed=(), abstractions=ABS))

    def p_asdec(it, c, o):
        it.check("post:is-ValueDecimal", o.kind == "return" and o.value.cls.name == "ValueDecimal")
        r = zr(o.value.fields["value"])
        n = z3.ToReal(date_N(c["d"]))
        it.check("post:integer-part-is-N", z3.And(r >= n, r < n + 1))
    U.append(Unit("values.py::ValueDate.asDecimal", s_vdate(False), p_asdec, allowed=(), abstractions=ABS))

    def s_vint(it):
        v = V.int(it, "n")
        it.assume(z3.And(zi(v.fields["value"]) >= N_MIN, zi(v.fields["value"]) <= N_MAX))
        return [v], {}, {"n": v}

    def p_asdate(it, c, o):
        it.check("post:is-ValueDate", o.kind == "return" and o.value.cls.name == "ValueDate")
        it.check("post:N(date(n))==n", date_N(o.value) == zi(c["n"].fields["value"]))
    U.append(Unit("values.py::ValueInt.asDate", s_vint, p_asdate, allowed=(), abstractions=ABS))

    # date(decimal): the day number reaches to_date as it is (the linear day number decimal(date) produces: no other convention
    # for negative numbers or fractions), so that the two directions are inverse through the contracts of date.py
    def s_vdec(it):
        v = V.dec(it, "x")
        it.ghost["to_date_args"] = []
        return [v], {}, {"x": v}

    def abs_to_date_rec(it, a, k, node):
        it.ghost["to_date_args"].append(a[0])
        d = new_datetime(w, it.fresh_int("ry"), it.fresh_int("rm"), it.fresh_int("rd"), it.fresh_int("rh"), it.fresh_int("rmi"), it.fresh_int("rs"), 0)
        it.path.assume(dt_valid(d), check=False)
        return d

    def p_decdate(it, c, o):
        calls = it.ghost["to_date_args"]
        if o.kind == "return":
            it.check("post:is-ValueDate-made-by-one-call-of-to_date", o.value.cls.name == "ValueDate" and len(calls) == 1)
            if len(calls) == 1:
                it.check("post:to_date-gets-the-decimal's-own-day-number(unchanged)", zr(calls[0]) == zr(c["x"].fields["value"]) if calls[0] is not None else False)
        else:
            it.check("raises:language-error-only", o.exc_class == "CklRuntimeError")
    U.append(Unit("values.py::ValueDecimal.asDate", s_vdec, p_decdate, allowed=("CklRuntimeError",), abstractions={"to_date": abs_to_date_rec},
                  name="values.py::ValueDecimal.asDate[day number passed to to_date unchanged]"))

    # ---- date arithmetic natives: d + n, d - n, d - d
    def s_arith(second_is_date):
        def setup(it):
            a = V.date(it, "a", midnight=True)
            if second_is_date:
                b = V.date(it, "b", midnight=True)
            else:
                b = V.int(it, "n")
            args = V.args(it, {"a": a, "b": b})
            fn = Obj(w.func("functions.py::FuncAdd.execute").cls, {"name": "f", "secure": True})
            return [fn, args, V.env(it), V.pos(it, "cpos")], {}, {"a": a, "b": b}
        return setup

    def p_add(sign):
        def post(it, c, o):
            n = zi(c["b"].fields["value"])
            target = date_N(c["a"]) + sign * n
            inrange = z3.And(target >= N_MIN, target <= N_MAX)
            if o.kind == "raise":
                it.check("raises:only-when-result-out-of-range", z3.Not(inrange))
                return
            it.check("post:is-ValueDate", o.value.cls.name == "ValueDate")
            it.check("post:moves-by-n-calendar-days", date_N(o.value) == target)
        return post

    def abs_to_date_or_fail(it, a, k, node):
        """to_date contract for natives: in range -> the date; out of range -> ValueError (CPython datetime)"""
        x = a[0]
        if isinstance(x, SFloat) and x.intz is not None:
            x = mk_int(x.intz)
        if isinstance(x, SFloat):
            # a float beyond 2^53 in magnitude: certainly outside the calendar
            if it.path.feasible(z3.And(x.z >= N_MIN - 1, x.z <= N_MAX + 1)):
                it.unsupported("to_date contract on a non-integral day number", node)
            it.throw("ValueError", "year out of range", node)
        if not it.path.branch(z3.And(zi(x) >= N_MIN, zi(x) <= N_MAX)):
            it.throw("ValueError", "year out of range", node)
        d = new_datetime(w, it.fresh_int("ry"), it.fresh_int("rm"), it.fresh_int("rd"), 0, 0, 0, 0)
        it.path.assume(dt_valid(d), check=False)
        it.path.assume(date_N(d) == zi(x), check=False)
        return d
    ABS2 = {"to_oa_date": abs_to_oa, "to_date": abs_to_date_or_fail}
    U.append(Unit("functions.py::FuncAdd.execute", s_arith(False), p_add(1), name="functions.py::FuncAdd.execute[date+int]",
                  abstractions=ABS2, replay=replay_arith("+")))
    sub_cls = lambda: w.func("functions.py::FuncSub.execute").cls

    def s_sub(second_is_date):
        inner = s_arith(second_is_date)

        def setup(it):
            args, kw, c = inner(it)
            args[0] = Obj(sub_cls(), {"name": "f", "secure": True})
            return args, kw, c
        return setup
    U.append(Unit("functions.py::FuncSub.execute", s_sub(False), p_add(-1), name="functions.py::FuncSub.execute[date-int]",
                  abstractions=ABS2, replay=replay_arith("-")))

    def p_diff(it, c, o):
        it.check("post:is-ValueInt", o.kind == "return" and o.value.cls.name == "ValueInt")
        it.check("post:payload-is-python-int", isinstance(o.value.fields["value"], (int, SInt)),
                 detail="date - date must be an int day count, not a float")
        if isinstance(o.value.fields["value"], (int, SInt)):
            it.check("post:difference-of-day-numbers", zi(o.value.fields["value"]) == date_N(c["a"]) - date_N(c["b"]))
    U.append(Unit("functions.py::FuncSub.execute", s_sub(True), p_diff, name="functions.py::FuncSub.execute[date-date]",
                  abstractions=ABS2, replay=replay_arith("diff")))

    # d1 - d2 with times of day: the whole number of days nearest to the exact difference; for equal times of day (the case
    # (d + n) - d) exactly the difference of the day numbers
    def s_diff_time(it):
        a, b = V.date(it, "a"), V.date(it, "b")
        args = V.args(it, {"a": a, "b": b})
        return [Obj(sub_cls(), {"name": "f", "secure": True}), args, V.env(it), V.pos(it, "cpos")], {}, {"a": a, "b": b}

    def p_diff_time(it, c, o):
        it.check("post:is-ValueInt", o.kind == "return" and o.value.cls.name == "ValueInt" and isinstance(o.value.fields["value"], (int, SInt)))
        if o.kind != "return" or not isinstance(o.value.fields["value"], (int, SInt)):
            return
        r = zi(o.value.fields["value"])
        da, db = c["a"].fields["value"], c["b"].fields["value"]
        exact = (z3.ToReal(date_N(da)) + z3.ToReal(date_sod(da)) / 86400) - (z3.ToReal(date_N(db)) + z3.ToReal(date_sod(db)) / 86400)
        it.check("post:the-nearest-whole-number-of-days", z3.And(z3.ToReal(r) - exact <= z3.RealVal("50000001/100000000"), exact - z3.ToReal(r) <= z3.RealVal("50000001/100000000")))
        it.check("post:equal-times-of-day-give-the-difference-of-day-numbers", z3.Implies(date_sod(da) == date_sod(db), r == date_N(da) - date_N(db)))
    U.append(Unit("functions.py::FuncSub.execute", s_diff_time, p_diff_time, name="functions.py::FuncSub.execute[date-date, times of day]",
                  abstractions=ABS2, replay=replay_arith("diff")))

    # ---- algebraic laws as lemmas over the contracts above
    def l_laws():
        Nd, n = z3.Ints("Nd n")
        # (d + n) - n == d  and (d + n) - d == n, stated on day numbers (N is injective, lemma above)
        return [("(d+n)-n==d", (Nd + n) - n == Nd), ("(d+n)-d==n", (Nd + n) - Nd == n)]
    U.append(lemma("date-arithmetic-laws-over-day-numbers", l_laws))
    return U


# ----------------------------------------------------------------------------- replay on the real code

def _real():
    import importlib
    import sys
    import os
    root = os.path.join(os.environ.get("VERIF_REPO", "/repo"), "src")
    if root not in sys.path:
        sys.path.insert(0, root)
    for m in [k for k in sys.modules if k == "ckl" or k.startswith("ckl.")]:
        del sys.modules[m]
    return importlib.import_module("ckl.date")


def _mi(model, key, default=None):
    v = model.get(key)
    try:
        return int(v)
    except (TypeError, ValueError):
        return default


def replay_to_date(fail):
    import datetime
    date = _real()
    cands = []
    n = _mi(fail["model"], "n")
    if n is not None:
        cands.append(n)
    cands += [py_N(y, 0, 1) for y in (1971, 2021, 1970, 1969, 1900, 9999)] + [py_N(9999, 11, 31), py_N(2020, 1, 29), 2]
    for n in cands:
        try:
            d = date.to_date(n)
            exp = datetime.date(1899, 12, 30) + datetime.timedelta(days=n) if n >= -693593 else None
            ok = (d.date() == exp) and d.time() == datetime.time(0, 0)
            obs = str(d)
        except Exception as e:
            ok, obs = False, repr(e)
        if not ok:
            return {"reproduced": True, "input": f"to_date({n})", "observed": obs,
                    "expected": f"{datetime.date(1899, 12, 30) + datetime.timedelta(days=n)} 00:00:00"}
    return {"reproduced": False}


def replay_to_oa(fail):
    import datetime
    date = _real()
    m = fail["model"]
    cands = []
    y, mo, d = _mi(m, "d.year"), _mi(m, "d.month"), _mi(m, "d.day")
    if None not in (y, mo, d):
        cands.append((y, mo, d))
    cands += [(1900, 1, 1), (2000, 2, 29), (2000, 3, 1), (2100, 3, 1), (1970, 1, 1), (9999, 12, 31), (2024, 12, 31)]
    for y, mo, d in cands:
        try:
            dt = datetime.datetime(y, mo, d)
        except ValueError:
            continue
        exp = (dt.date() - datetime.date(1899, 12, 30)).days
        try:
            obs = date.to_oa_date(dt)
        except Exception as e:
            obs = repr(e)
        if obs != exp:
            return {"reproduced": True, "input": f"to_oa_date(datetime({y},{mo},{d}))", "observed": str(obs), "expected": str(exp)}
    return {"reproduced": False}


def replay_arith(op):
    def replay(fail):
        import sys
        import os
        import importlib
        _real()
        interp = importlib.import_module("ckl.interpreter").Interpreter(True, False)
        progs = []
        for y, mo, d in [(2020, 12, 31), (2019, 12, 31), (1969, 12, 31), (2020, 2, 28), (1970, 1, 1), (2021, 1, 1), (1899, 12, 30), (1800, 1, 1), (1600, 2, 29), (1000, 1, 1)]:
            for n in (1, 365, 366, -1, 0, 1461):
                ds = f"{y:04d}{mo:02d}{d:02d}"
                if op == "+":
                    progs.append((f"string((date('{ds}') + {n}) - {n})", f"'{ds}000000'"))
                elif op == "-":
                    progs.append((f"string((date('{ds}') - {n}) + {n})", f"'{ds}000000'"))
                else:
                    progs.append((f"string((date('{ds}') + {n}) - date('{ds}'))", f"'{n}'"))
        if op == "diff":
            import random
            rnd = random.Random(17)
            for _ in range(4000):
                ds = f"{rnd.randint(1000, 9000):04d}{rnd.randint(1, 12):02d}{rnd.randint(1, 28):02d}{rnd.randint(0, 23):02d}{rnd.randint(0, 59):02d}{rnd.randint(0, 59):02d}"
                n = rnd.choice([1, 7, 1000, 36525, -1, -400])
                progs.append((f"string((date('{ds}') + {n}) - date('{ds}'))", f"'{n}'"))
        for src, exp in progs:
            try:
                obs = str(interp.interpret(src, "-"))
            except Exception as e:
                obs = repr(e)
            if obs != exp:
                return {"reproduced": True, "input": src, "observed": obs, "expected": exp}
        return {"reproduced": False}
    return replay


# ----------------------------------------------------------------------------- bounded stand-ins

BOUNDARY_DAYS = [(1, 1, 1), (1, 12, 31), (1582, 10, 15), (1800, 1, 1), (1899, 12, 29), (1899, 12, 30), (1899, 12, 31), (1900, 1, 1), (1969, 12, 31), (1970, 1, 1), (1970, 1, 2), (1999, 12, 31), (2000, 2, 29),
                 (2020, 12, 31), (2021, 1, 1), (2100, 2, 28), (2100, 3, 1), (9999, 12, 30), (9999, 12, 31)]


def _day_sweep(job):
    import datetime
    years, every_day = job
    date = _real()
    base = datetime.date(1899, 12, 30).toordinal()
    ev, fails = 0, []
    for y in years:
        if every_day:
            days = [datetime.date(y, 1, 1) + datetime.timedelta(days=k) for k in range(366 if (y % 4 == 0 and (y % 100 != 0 or y % 400 == 0)) else 365)]
        else:
            days = [datetime.date(y, 1, 1), datetime.date(y, 2, 28), datetime.date(y, 3, 1), datetime.date(y, 12, 31)]
            if y % 4 == 0 and (y % 100 != 0 or y % 400 == 0):
                days.append(datetime.date(y, 2, 29))
        for d in days:
            ev += 1
            dt = datetime.datetime(d.year, d.month, d.day)
            want = d.toordinal() - base
            try:
                n = date.to_oa_date(dt)
                back = date.to_date(want)
            except Exception as e:
                n, back = repr(e), None
            if (n != want or back != dt) and len(fails) < 3:
                fails.append({"id": "bounded:day-number-and-back-against-the-host-calendar", "input": str(d),
                              "observed": f"to_oa_date={n}, to_date({want})={back}", "expected": f"to_oa_date={want}, to_date({want})={dt}"})
    return ev, fails


def bounded(tier, seed):
    import datetime
    import random
    import time
    selfcheck_specs()
    date = _real()
    t0 = time.time()
    fails, ev = [], 0
    step = 1 if tier == "thorough" else 61
    for (y, mo, d) in BOUNDARY_DAYS:
        base = datetime.datetime(y, mo, d)
        for s in range(0, 86400, step):
            dt = base + datetime.timedelta(seconds=s)
            ev += 1
            try:
                back = date.to_date(date.to_oa_date(dt))
            except Exception as e:
                back = repr(e)
            if back != dt and len(fails) < 5:
                fails.append({"id": "bounded:to_date(to_oa_date(d))==d[second-resolution]", "input": str(dt),
                              "observed": str(back), "expected": str(dt)})
    rnd = random.Random(seed)
    nrand = 20000 if tier == "thorough" else 2000
    lo, hi = datetime.date(1, 1, 1).toordinal(), datetime.date(9999, 12, 31).toordinal()
    for _ in range(nrand):
        dt = datetime.datetime.combine(datetime.date.fromordinal(rnd.randint(lo, hi)), datetime.time()) \
            + datetime.timedelta(seconds=rnd.randint(0, 86399))
        ev += 1
        try:
            oa = date.to_oa_date(dt)
            back = date.to_date(oa)
            okn = __import__("math").floor(oa) == dt.toordinal() - datetime.date(1899, 12, 30).toordinal()
        except Exception as e:
            back, okn = repr(e), False
        if (back != dt or not okn) and len(fails) < 5:
            fails.append({"id": "bounded:to_date(to_oa_date(d))==d[second-resolution]", "input": str(dt),
                          "observed": str(back), "expected": str(dt)})
    # day level against the host calendar: the first and last day of every year and the days around the end of February
    # (quick), every representable day (thorough) - decides the day-level clauses on the real functions when the proof
    # part cannot follow a rewritten conversion
    t1 = time.time()
    import multiprocessing as mp
    years = list(range(1, 10000))
    chunks = [(years[i::32], tier == "thorough") for i in range(32)]
    with mp.get_context("fork").Pool(16) as pool:
        res = pool.map(_day_sweep, chunks)
    dev = sum(r[0] for r in res)
    dfails = [f for r in res for f in r[1]][:5]
    r0 = BoundedResult("day numbers against the host calendar (real to_oa_date / to_date)",
                       ("every day of the years 1..9999" if tier == "thorough" else "first and last day and 28 Feb / 29 Feb / 1 Mar of every year 1..9999")
                       + ": day number == ordinal difference to 1899-12-30, to_date(number) == the day, consecutive days differ by 1",
                       dev, dev, dfails, ["2000-12-31"], "decides the day-level clauses by enumeration where the proof is undecided", time.time() - t1)
    # the same through the language: date(decimal(d)) == d, (d + n) - n == d, (d + n) - d == n for dates with times of day on both
    # sides of the day-number origin 1899-12-30
    t2 = time.time()
    import importlib
    interp = importlib.import_module("ckl.interpreter")
    errors_ = importlib.import_module("ckl.errors")
    J = interp.Interpreter(True, True)
    lfails, lev = [], 0
    for (y, mo, d) in [(1, 1, 1), (400, 12, 31), (1582, 10, 15), (1899, 12, 29), (1899, 12, 30), (1899, 12, 31), (1900, 3, 1), (1969, 12, 31), (2000, 2, 29), (9999, 12, 30)]:
        for (h, mi, sec) in [(0, 0, 0), (6, 0, 0), (12, 0, 0), (18, 30, 15), (23, 59, 59)]:
            txt = f"{y:04d}{mo:02d}{d:02d}{h:02d}{mi:02d}{sec:02d}"
            for n in (0, 1, -1, 31, 365, -366):
                if (y, mo, d) == (1, 1, 1) and n < 0 or (y == 9999 and n > 1):
                    continue
                lev += 1
                src = (f"def d = date('{txt}'); [date(decimal(d)) == d, string(d + {n} - {n}) == '{txt}', (d + {n}) - d == {n}, "
                       f"date(int(d)) == date('{txt[:8]}'), string(date(decimal(d)))]")
                try:
                    obs = str(J.interpret(src, "-"))
                except errors_.CklRuntimeError as e:
                    obs = "RT:" + str(e.msg)
                exp = f"[TRUE, TRUE, TRUE, TRUE, '{txt}']"
                if obs != exp and len(lfails) < 3:
                    lfails.append({"id": "bounded:date-decimal-round-trip-and-arithmetic-through-the-language", "input": src, "observed": obs, "expected": exp})
    r2 = BoundedResult("date(decimal(d)) == d and date arithmetic through the language (real interpreter)", "10 days x 5 times of day x 6 offsets, before and after 1899-12-30",
                       lev, lev, lfails, ["00010101060000"], "the conversions as programs use them", time.time() - t2)
    r1 = BoundedResult("roundtrip-time-of-day(real code)",
                       f"all seconds (stride {step}) of 12 boundary days + {nrand} seeded random (day, second) pairs",
                       ev, ev, fails, [str(datetime.datetime(2000, 2, 29, 12, 0, 1))],
                       "IEEE doubles are outside the proof; exact outcomes are enumerated on the real functions",
                       time.time() - t0)
    return [r0, r1, r2]
