"""C06 - Equality is an equivalence that set membership and map lookup respect.

Spec `veq` is written from the property text; every `__eq__` of values.py is executed symbolically for every ordered
pair of value kinds and must return veq; `veq(x,y) => hash(x) == hash(y)`; container methods and the membership
node must hand the value objects themselves to the host containers.
"""
import itertools
import z3

from pyvc.verify import Unit, Outcome
from pyvc.interp import Loop, PyRaise
from pyvc.values import SInt, SStr, SElem, SBool, SFloat, Obj, PList, PSet, PDict, zi, zr, zs, zb, mk_bool
from pyvc.world import dt_key
from pyvc.runner import BoundedResult
from .common import Vals, Stubs, I, cls_name

MANIFEST_ENTRY = {
    "category": "proof",
    "text": "the __eq__ of every value class is executed symbolically for all 19x19 ordered kind pairs and proved equal to the spec equality veq (numeric across int/decimal, structural on collections, identity on functions/streams/control values, never across kinds); veq(x,y) implies equal hashes; veq is an equivalence (z3 lemmas); sets, maps, `in`, equals/not_equals/remove/put pass the value objects themselves to the host containers; through the language: for all pairs and triples of 33 expressions (neighbouring decimals, ints beyond 2^53, every kind) the operators ==, !=, equals, in, set and map construction, lookup, removal and container == agree and form an equivalence (bounded)",
    "note": "host set/dict/list implement the abstract container given lawful __eq__/__hash__ (that lawfulness is what is proved); NaN excluded; hash of collections: symbolic-bounded (<= 3 elements, all orders)",
    "technique": "deductive verification: pyvc VCs from the real AST + z3 (per class-pair path enumeration)",
}
PROPERTY = "C06"
LEVEL = "proof"
TRUSTED = [
    "CPython int == float compares exactly; hash(n) is a function of the numeric value; hash(str/bool/datetime) is a function of the value",
    "host list/set/dict equality and membership use `is` or `==` of the elements (modelled by the engine)",
]
ASSUMPTIONS = ["decimals are finite (decimal('nan') excluded)",
               "list elements / set elements / map keys are abstract ids compared by id equality (induction hypothesis: elements obey veq)"]
EXPLANATION = "per-class-pair proof of __eq__ == veq, hash consistency, equivalence lemmas, wiring of containers and membership"

KINDS = Vals.KINDS
NUMERIC = ("int", "decimal")


def veq(V, k1, x, k2, y):
    """the spec equality, from the property text"""
    if k1 in NUMERIC and k2 in NUMERIC:
        return zr(x.fields["value"]) == zr(y.fields["value"])
    if k1 in ("true", "false") and k2 in ("true", "false"):
        return k1 == k2
    if k1 != k2:
        return False
    if k1 == "null":
        return True
    if k1 == "string" or k1 == "pattern":
        return zs(x.fields["value"]) == zs(y.fields["value"])
    if k1 == "date":
        return dt_key(x.fields["value"]) == dt_key(y.fields["value"])
    if k1 == "list":
        return x.fields["value"].sym == y.fields["value"].sym
    if k1 == "set":
        return x.fields["value"].sym_dom == y.fields["value"].sym_dom
    if k1 in ("map", "object"):
        a, b = x.fields["value"], y.fields["value"]
        k = z3.Const("kq", a.sym_dom.domain())
        return z3.And(a.sym_dom == b.sym_dom, z3.ForAll([k], z3.Implies(z3.Select(a.sym_dom, k), z3.Select(a.sym_val, k) == z3.Select(b.sym_val, k))))
    if k1 == "node":
        f = z3.Function("repr_of_node", z3.IntSort(), z3.StringSort())
        return f(x.fields["value"].z) == f(y.fields["value"].z)
    # func, input, output, break, continue, return: identity
    return x is y


def as_z(b):
    return z3.BoolVal(b) if isinstance(b, bool) else b


def units(w):
    V = Vals(w)
    S = Stubs(w)
    U = []
    vals = w.import_module("ckl.values").ns
    funcs = w.import_module("ckl.functions").ns
    nodes = w.import_module("ckl.nodes").ns
    KCLS = {"null": "ValueNull", "true": "ValueBoolean", "false": "ValueBoolean", "int": "ValueInt", "decimal": "ValueDecimal",
            "string": "ValueString", "date": "ValueDate", "pattern": "ValuePattern", "list": "ValueList", "set": "ValueSet",
            "map": "ValueMap", "object": "ValueObject", "func": "ValueFunc", "input": "ValueInput", "output": "ValueOutput",
            "node": "ValueNode", "break": "ValueControlBreak", "continue": "ValueControlContinue", "return": "ValueControlReturn"}

    # ------------------------------------------------------------------ __eq__ == veq for every ordered kind pair
    def mk_pair(k1, k2, same=False):
        def setup(it):
            x = V.of_kind(it, k1, "x")
            y = x if same else V.of_kind(it, k2, "y")
            return [], {}, {"x": x, "y": y}
        return setup

    def eq_body(it, c):
        r = it.eq(c["x"], c["y"])
        return Outcome("return", r)

    def eq_post(k1, k2):
        def post(it, c, o):
            r = o.value
            it.check("post:returns-a-bool", isinstance(r, (bool, SBool)))
            rz = as_z(r.z if isinstance(r, SBool) else bool(r)) if isinstance(r, (bool, SBool)) else as_z(it.truth(r))
            it.check("post:eq==veq", rz == as_z(veq(V, k1, c["x"], k2, c["y"])))
        return post
    for k1 in KINDS:
        for k2 in KINDS:
            U.append(Unit(f"values.py::{KCLS[k1]}.__eq__", mk_pair(k1, k2), eq_post(k1, k2),
                          name=f"values.py::{KCLS[k1]}.__eq__[{k1}=={k2}]", body=eq_body, allowed=(),
                          config={"max_depth": 40}, replay=replay_eq(k1, k2)))
    # reflexivity on the same object (identity kinds and everything else)
    for k1 in KINDS:
        U.append(Unit(f"values.py::{KCLS[k1]}.__eq__", mk_pair(k1, k1, same=True),
                      lambda it, c, o: it.check("post:reflexive", as_z(it.truth(o.value)) == z3.BoolVal(True)),
                      name=f"values.py::{KCLS[k1]}.__eq__[x=={k1}-x]", body=eq_body, allowed=(),
                      config={"max_depth": 40}, replay=replay_eq(k1, k1)))

    # ------------------------------------------------------------------ veq(x,y) => hash(x) == hash(y)
    def small_container(it, kind, name, ids, order):
        elems = [SElem(z3.Int(f"e{i}")) for i in ids]
        elems = [elems[i] for i in order]
        if kind == "list":
            return V.list_of(it, elems, name)
        if kind == "set":
            return V.set_of(it, elems, name)
        vals_ = [SElem(z3.Int(f"w{i}")) for i in ids]
        vals_ = [vals_[i] for i in order]
        if kind == "map":
            return V.map_of(it, list(zip(elems, vals_)), name)
        return V.object_of(it, [(f"k{ids[i]}", vals_[j]) for j, i in enumerate(order)], name)

    def hash_unit(k1, k2, n=None, order=None):
        def setup(it):
            if n is None:
                x = V.of_kind(it, k1, "x")
                y = x if k1 in ("func", "null", "true", "false") else V.of_kind(it, k2, "y")
                it.assume(as_z(veq(V, k1, x, k2, y)))
            else:
                x = small_container(it, k1, "x", list(range(n)), list(range(n)))
                y = small_container(it, k1, "y", list(range(n)), list(order))
                if k1 != "list":
                    it.assume(z3.Distinct(*[z3.Int(f"e{i}") for i in range(n)]) if n > 1 else z3.BoolVal(True))
            return [], {}, {"x": x, "y": y}

        def body(it, c):
            hx = w.py_hash(it, c["x"], None)
            hy = w.py_hash(it, c["y"], None)
            return Outcome("return", (hx, hy))

        def post(it, c, o):
            hx, hy = o.value
            it.check("post:equal-values-have-equal-hashes", zi(hx) == zi(hy))
        tag = f"{k1},{k2}" if n is None else f"{k1},n={n},order={''.join(map(str, order))}"
        return Unit(f"values.py::{KCLS[k1]}.__hash__", setup, post, name=f"values.py::{KCLS[k1]}.__hash__[{tag}]",
                    body=body, allowed=(), bounded=None if n is None else "containers of <= 3 elements, every iteration order")
    for k1 in ("null", "true", "false", "int", "decimal", "string", "date", "pattern", "func", "node"):
        U.append(hash_unit(k1, k1))
    U.append(hash_unit("int", "decimal"))
    U.append(hash_unit("decimal", "int"))
    for kind in ("list", "set", "map", "object"):
        for n in (0, 1, 2, 3):
            orders = [tuple(range(n))] if kind == "list" else list(itertools.permutations(range(n)))
            for order in orders:
                U.append(hash_unit(kind, kind, n, order))

    # ------------------------------------------------------------------ veq is an equivalence (lemmas over the spec)
    def lemma(name, build):
        def body(it, c):
            for nm, f in build():
                it.check("lemma:" + nm, f, assume=False)
            return Outcome("return", None)
        return Unit(None, lambda it: ([], {}, {}), None, name="lemma::" + name, body=body, canary=False)

    def l_equiv():
        out = []
        a, b, c = z3.Reals("a b c")
        out.append(("numeric:reflexive-symmetric-transitive", z3.And(a == a, (a == b) == (b == a), z3.Implies(z3.And(a == b, b == c), a == c))))
        i, r = z3.Int("i"), z3.Real("r")
        j = z3.Int("j")
        out.append(("int-vs-decimal:transitive-through-a-decimal", z3.Implies(z3.And(z3.ToReal(i) == r, r == z3.ToReal(j)), i == j)))
        s1, s2, s3 = z3.Strings("s1 s2 s3")
        out.append(("string:equivalence", z3.And(s1 == s1, (s1 == s2) == (s2 == s1), z3.Implies(z3.And(s1 == s2, s2 == s3), s1 == s3))))
        L1, L2, L3 = [z3.Const(n, z3.SeqSort(z3.IntSort())) for n in ("L1", "L2", "L3")]
        out.append(("list:equivalence", z3.And(L1 == L1, (L1 == L2) == (L2 == L1), z3.Implies(z3.And(L1 == L2, L2 == L3), L1 == L3))))
        A1, A2, A3 = [z3.Array(n, z3.IntSort(), z3.BoolSort()) for n in ("A1", "A2", "A3")]
        out.append(("set:equivalence", z3.And(A1 == A1, (A1 == A2) == (A2 == A1), z3.Implies(z3.And(A1 == A2, A2 == A3), A1 == A3))))
        x = z3.Int("x")
        out.append(("set:extensional", z3.Implies(z3.ForAll([x], z3.Select(A1, x) == z3.Select(A2, x)), A1 == A2)))
        return out
    U.append(lemma("veq-is-an-equivalence-per-kind", l_equiv))

    # ------------------------------------------------------------------ wiring: equals / not_equals natives
    def s_eqfn(clsname, k1, k2):
        def setup(it):
            x, y = V.of_kind(it, k1, "x"), V.of_kind(it, k2, "y")
            f = Obj(funcs[clsname], {"name": clsname, "secure": True})
            return [f, V.args(it, {"a": x, "b": y}), V.env(it), V.pos(it, "cpos")], {}, {"x": x, "y": y}
        return setup

    def p_eqfn(neg, k1, k2):
        def post(it, c, o):
            it.check("post:returns-boolean-singleton", o.kind == "return" and (o.value is V.TRUE or o.value is V.FALSE))
            want = as_z(veq(V, k1, c["x"], k2, c["y"]))
            if neg:
                want = z3.Not(want)
            it.check("post:result==veq" if not neg else "post:result==not-veq", z3.BoolVal(o.value is V.TRUE) == want)
        return post
    for k1, k2 in [("int", "int"), ("int", "decimal"), ("decimal", "int"), ("decimal", "decimal"), ("string", "string"), ("list", "list"),
                   ("set", "set"), ("map", "map"), ("int", "string"), ("null", "null"), ("null", "int"), ("true", "false"),
                   ("date", "date"), ("string", "pattern")]:
        U.append(Unit("functions.py::FuncEquals.execute", s_eqfn("FuncEquals", k1, k2), p_eqfn(False, k1, k2),
                      name=f"functions.py::FuncEquals.execute[{k1},{k2}]", allowed=()))
        U.append(Unit("functions.py::FuncNotEquals.execute", s_eqfn("FuncNotEquals", k1, k2), p_eqfn(True, k1, k2),
                      name=f"functions.py::FuncNotEquals.execute[{k1},{k2}]", allowed=()))

    # ------------------------------------------------------------------ wiring: membership node and container methods
    def elem(name):
        return SElem(z3.Int(name))

    def s_in(kind):
        def setup(it):
            x = elem("x")
            if kind == "list":
                cont = V.list_sym(it, "l")
            elif kind == "set":
                cont = V.set_sym(it, "st")
            else:
                cont = V.map_sym(it, "m")
            node = Obj(nodes["NodeIn"], {"expression": S.node("expr", x), "list": S.node("list", cont), "pos": V.pos(it)})
            node.fresh = False
            return [node, V.env(it)], {}, {"x": x, "cont": cont}
        return setup

    def p_in(kind):
        def post(it, c, o):
            it.check("post:returns-boolean-singleton", o.kind == "return" and (o.value is V.TRUE or o.value is V.FALSE))
            x = c["x"].z
            pl = c["cont"].fields["value"]
            if kind == "list":
                q = z3.Int("qm")
                want = z3.Exists([q], z3.And(q >= 0, q < z3.Length(pl.sym), pl.sym[q] == x))
            else:
                want = z3.Select(pl.sym_dom, x)
            it.check("post:membership-modulo-equality", z3.BoolVal(o.value is V.TRUE) == want)
        return post

    def in_inv(st):
        q = z3.Int("qi")
        L = st["container"].fields["value"].sym
        return [z3.ForAll([q], z3.Implies(z3.And(q >= 0, q < zi(st.k)), L[q] != st["value"].z)), zi(st.k) >= 0]
    for kind in ("list", "set", "map"):
        U.append(Unit("nodes.py::NodeIn.evaluate", s_in(kind), p_in(kind), name=f"nodes.py::NodeIn.evaluate[{kind}]",
                      loops={0: Loop(in_inv)} if kind == "list" else None, allowed=(), replay=replay_in))

    # ValueSet / ValueMap methods: exact effect on the abstract container
    def s_setop(op):
        def setup(it):
            st = V.set_sym(it, "st")
            x = elem("x")
            old = st.fields["value"].sym_dom
            return [st, x], {}, {"st": st, "x": x, "old": old}
        return setup

    def p_setop(op):
        def post(it, c, o):
            x, old = c["x"].z, c["old"]
            new = c["st"].fields["value"].sym_dom
            if op == "addItem":
                it.check("post:set==old+{x}", new == z3.Store(old, x, True))
                it.check("post:no-duplicate-representative", z3.Implies(z3.Select(old, x), new == old))
            elif op == "hasItem":
                it.check("post:membership", as_z(o.value.z if isinstance(o.value, SBool) else o.value) == z3.Select(old, x))
                it.check("post:unchanged", new is old or new == old)
            else:
                if o.kind == "raise":
                    it.check("raises:only-when-absent", z3.Not(z3.Select(old, x)))
                else:
                    it.check("post:set==old-{x}", new == z3.Store(old, x, False))
        return post
    for op in ("addItem", "hasItem", "removeItem"):
        U.append(Unit(f"values.py::ValueSet.{op}", s_setop(op), p_setop(op), allowed=("KeyError",) if op == "removeItem" else ()))

    def s_mapop(op):
        def setup(it):
            m = V.map_sym(it, "m")
            k, v = elem("k"), SElem(z3.Int("v"), "val")
            c = {"m": m, "k": k, "v": v, "dom": m.fields["value"].sym_dom, "val": m.fields["value"].sym_val}
            return ([m, k, v] if op == "addItem" else [m, k]), {}, c
        return setup

    def p_mapop(op):
        def post(it, c, o):
            k, dom, val = c["k"].z, c["dom"], c["val"]
            nd, nv = c["m"].fields["value"].sym_dom, c["m"].fields["value"].sym_val
            if op == "addItem":
                it.check("post:map==old[k:=v]", z3.And(nd == z3.Store(dom, k, True), nv == z3.Store(val, k, c["v"].z)))
            elif op == "hasItem":
                it.check("post:key-membership", as_z(o.value.z if isinstance(o.value, SBool) else o.value) == z3.Select(dom, k))
            elif op == "getItem":
                if o.kind == "raise":
                    it.check("raises:only-when-absent", z3.Not(z3.Select(dom, k)))
                else:
                    it.check("post:value-of-equal-key", isinstance(o.value, SElem) and o.value.z == z3.Select(val, k))
            else:
                if o.kind == "raise":
                    it.check("raises:only-when-absent", z3.Not(z3.Select(dom, k)))
                else:
                    it.check("post:key-removed", nd == z3.Store(dom, k, False))
        return post
    for op in ("addItem", "hasItem", "getItem", "removeItem"):
        U.append(Unit(f"values.py::ValueMap.{op}", s_mapop(op), p_mapop(op),
                      allowed=("KeyError",) if op in ("getItem", "removeItem") else ()))
    return U


# ----------------------------------------------------------------------------- replay on the real classes

def _real():
    import importlib
    import sys
    import os
    root = os.path.join(os.environ.get("VERIF_REPO", "/repo"), "src")
    if root not in sys.path:
        sys.path.insert(0, root)
    for m in [k for k in sys.modules if k == "ckl" or k.startswith("ckl.")]:
        del sys.modules[m]
    return importlib.import_module("ckl.values")


def pool(v):
    import datetime
    import io
    L = lambda *xs: [v.ValueList().addItem(x) for x in []] and None
    def lst(*xs):
        r = v.ValueList()
        for x in xs:
            r.addItem(x)
        return r
    def st(*xs):
        r = v.ValueSet()
        for x in xs:
            r.addItem(x)
        return r
    def mp(*kv):
        r = v.ValueMap()
        for k, x in kv:
            r.addItem(k, x)
        return r
    f1, f2 = v.ValueFunc("f"), v.ValueFunc("f")
    out1, out2 = v.ValueOutput(v.StringOutput()), v.ValueOutput(v.StringOutput())
    inp = v.ValueInput(v.StringInput("x"))
    return {
        "null": [v.NULL], "true": [v.TRUE], "false": [v.FALSE],
        "int": [v.ValueInt(0), v.ValueInt(1), v.ValueInt(2 ** 70), v.ValueInt(2 ** 53 + 1)],
        "decimal": [v.ValueDecimal(0.0), v.ValueDecimal(1.0), v.ValueDecimal(float(2 ** 70)), v.ValueDecimal(1.5), v.ValueDecimal(float(2 ** 53))],
        "string": [v.ValueString(""), v.ValueString("1"), v.ValueString("a")],
        "date": [v.ValueDate(datetime.datetime(2020, 1, 1)), v.ValueDate(datetime.datetime(2020, 1, 2))],
        "pattern": [v.ValuePattern("a"), v.ValuePattern("1")],
        "list": [lst(), lst(v.ValueInt(1)), lst(v.ValueDecimal(1.0)), lst(v.ValueInt(1), v.ValueInt(2))],
        "set": [st(), st(v.ValueInt(1), v.ValueInt(2)), st(v.ValueInt(2), v.ValueDecimal(1.0))],
        "map": [mp(), mp((v.ValueInt(1), v.ValueString("a"))), mp((v.ValueDecimal(1.0), v.ValueString("a")))],
        "object": [v.ValueObject(), v.ValueObject().addItem("a", v.ValueInt(1))],
        "func": [f1, f2], "input": [inp], "output": [out1, out2],
        "node": [], "break": [v.ValueControlBreak(None)], "continue": [v.ValueControlContinue(None)],
        "return": [v.ValueControlReturn(v.NULL, None)],
    }


def py_veq(v, a, b):
    num = (v.ValueInt, v.ValueDecimal)
    if isinstance(a, num) and isinstance(b, num):
        return a.value == b.value
    if type(a) is not type(b):
        return False
    if isinstance(a, (v.ValueString, v.ValuePattern, v.ValueDate, v.ValueBoolean)):
        return a.value == b.value
    if isinstance(a, v.ValueNull):
        return True
    if isinstance(a, v.ValueList):
        return len(a.value) == len(b.value) and all(py_veq(v, x, y) for x, y in zip(a.value, b.value))
    if isinstance(a, v.ValueSet):
        return all(any(py_veq(v, x, y) for y in b.value) for x in a.value) and all(any(py_veq(v, x, y) for y in a.value) for x in b.value)
    if isinstance(a, (v.ValueMap, v.ValueObject)):
        ka, kb = list(a.value.items()), list(b.value.items())
        m = lambda k1, k2: py_veq(v, k1, k2) if not isinstance(k1, str) else k1 == k2
        return len(ka) == len(kb) and all(any(m(k1, k2) and py_veq(v, x1, x2) for k2, x2 in kb) for k1, x1 in ka)
    return a is b


def replay_eq(k1, k2):
    def replay(fail):
        import sys
        v = _real()
        P = pool(v)
        old = sys.getrecursionlimit()
        for a in P.get(k1, []):
            for b in P.get(k2, []):
                try:
                    obs = bool(a == b)
                    hs = (hash(a) == hash(b)) if obs else True
                except BaseException as e:
                    return {"reproduced": True, "input": f"{type(a).__name__}({a!r}) == {type(b).__name__}({b!r})" if k1 != "output" else f"{k1} == {k2}",
                            "observed": "host " + type(e).__name__, "expected": str(py_veq(v, a, b))}
                exp = py_veq(v, a, b)
                if obs != exp or not hs:
                    return {"reproduced": True, "input": f"{type(a).__name__}({a}) == {type(b).__name__}({b})",
                            "observed": f"{obs} (hash equal: {hs})", "expected": str(exp)}
        return {"reproduced": False}
    return replay


def replay_in(fail):
    import importlib
    _real()
    interp = importlib.import_module("ckl.interpreter").Interpreter(True, False)
    for src, exp in [("1.0 in [1, 2]", "TRUE"), ("1 in <<1.0, 2>>", "TRUE"), ("1 in <<<1.0 => 'a'>>>", "TRUE"),
                     ("3 in [1, 2]", "FALSE"), ("[1] in [[1.0]]", "TRUE"), ("'1' in [1]", "FALSE")]:
        try:
            obs = str(interp.interpret(src, "-"))
        except Exception as e:
            obs = repr(e)
        if obs != exp:
            return {"reproduced": True, "input": src, "observed": obs, "expected": exp}
    return {"reproduced": False}


def bounded(tier, seed):
    """CPython cross-check: the spec equality and hash law on real value objects (all pairs/triples of a pool)."""
    import time
    t0 = time.time()
    v = _real()
    P = pool(v)
    allv = [(k, x) for k, xs in P.items() for x in xs]
    fails, ev = [], 0
    for (k1, a) in allv:
        for (k2, b) in allv:
            ev += 1
            try:
                obs = bool(a == b)
                ok = obs == py_veq(v, a, b) and (not obs or hash(a) == hash(b)) and (bool(b == a) == obs)
            except BaseException as e:
                ok, obs = False, "host " + type(e).__name__
            if not ok:
                fails.append({"id": f"bounded:eq-law[{k1},{k2}]", "input": f"{k1}:{a if k1 != 'output' else 'stream'} == {k2}:{b if k2 != 'output' else 'stream'}",
                              "observed": str(obs), "expected": "veq/hash/symmetry"})
    # sets never hold two equal representatives; lookups agree for equal representatives
    s = v.ValueSet()
    for x in (v.ValueInt(1), v.ValueDecimal(1.0), v.ValueInt(2 ** 60), v.ValueDecimal(float(2 ** 60))):
        s.addItem(x)
    ev += 1
    if len(s.value) != 2:
        fails.append({"id": "bounded:set-no-equal-duplicates", "input": "<<1, 1.0, 2^60, 2.0^60>>", "observed": str(len(s.value)), "expected": "2"})
    r0 = BoundedResult("equality/hash laws on real value objects", f"all ordered pairs of a {len(allv)}-value pool",
                       ev, ev, fails, [f"{allv[3][0]} vs {allv[8][0]}"], "guards the spec veq and the hash model against CPython",
                       time.time() - t0)
    # through the language: what `==` says is what sets, maps, `in`, remove and `==` on containers act on, and it is an equivalence
    t1 = time.time()
    import importlib
    interp = importlib.import_module("ckl.interpreter")
    I = interp.Interpreter(True, True)
    EXPRS = ["NULL", "TRUE", "FALSE", "0", "1", "1.0", "3", "3.0", "2.9999999999999996", "0.3", "0.1 + 0.2", "0.30000000000000004", "0.3000000000000001",
             "9007199254740993", "9007199254740992.0", "9007199254740992", "'a'", "'1'", "''", "[1]", "[1.0]", "[]", "<<1>>", "<<1.0>>", "<<>>",
             "<<<1 => 2>>>", "<<<1.0 => 2.0>>>", "date('20200101')", "//a//", "[0.1 + 0.2]", "[0.3]", "<<0.3>>", "<<0.1 + 0.2>>"]
    lfails, lev = [], 0
    eqtab = {}
    for i, a in enumerate(EXPRS):
        for j, b in enumerate(EXPRS):
            lev += 1
            src = (f"def x = {a}; def y = {b}; def mx = <<<>>>; mx[x] = 1; def my = <<<>>>; my[y] = 1; "
                   f"[x == y, not (x != y), y == x, y in <<x>>, length(<<x, y>>) == 1, [x] == [y], <<x>> == <<y>>, "
                   f"mx == my, mx[y, 0] == 1, length(remove(<<x>>, y)) == 0, y in [x], equals(x, y), not not_equals(x, y)]")
            try:
                obs = str(I.interpret(src, "-"))
            except Exception as e:
                obs = repr(e)
            eqtab[(i, j)] = obs.startswith("[TRUE")
            if obs not in ("[" + ", ".join(["TRUE"] * 13) + "]", "[" + ", ".join(["FALSE"] * 13) + "]") and len(lfails) < 3:
                lfails.append({"id": "bounded:one-equality-for-operators-sets-maps-and-containers", "input": src, "observed": obs, "expected": "all TRUE or all FALSE"})
    n = len(EXPRS)
    for i in range(n):
        if not eqtab[(i, i)] and len(lfails) < 3:
            lfails.append({"id": "bounded:equality-is-reflexive", "input": EXPRS[i], "observed": "x == x is FALSE", "expected": "TRUE"})
        for j in range(n):
            for k in range(n):
                lev += 1
                if eqtab[(i, j)] and eqtab[(j, k)] and not eqtab[(i, k)] and len(lfails) < 3:
                    lfails.append({"id": "bounded:equality-is-transitive", "input": f"{EXPRS[i]} == {EXPRS[j]} == {EXPRS[k]}", "observed": f"{EXPRS[i]} != {EXPRS[k]}", "expected": "equal"})
    # a list that was used as a probe / element / key before and is then changed by element assignment is, from then on, the value it is now
    for src, exp in (("def p = [1, 2]; def t = p in <<[1, 2]>>; p[0] = 5; [t, p == [5, 2], p in <<[5, 2]>>, [5, 2] in <<p>>, length(<<p, [5, 2]>>)]", "[TRUE, TRUE, TRUE, TRUE, 1]"),
                     ("def p = [1, 2]; def m = <<<[1, 2] => 'old', [5, 2] => 'new'>>>; def t = m[p]; p[0] = 5; [t, m[p]]", "['old', 'new']"),
                     ("def p = [[1], 2]; def t = p in <<[[1], 2]>>; append(p[0], 9); [t, p in <<[[1, 9], 2]>>, p in <<[[1], 2]>>]", "[TRUE, TRUE, FALSE]"),
                     ("def q = <<1, 2>>; def t = q in << <<1, 2>> >>; append(q, 3); [t, q in << <<1, 2, 3>> >>]", "[TRUE, TRUE]")):
        lev += 1
        try:
            obs = str(I.interpret(src, "-"))
        except Exception as e:
            obs = repr(e)
        if obs != exp and len(lfails) < 3:
            lfails.append({"id": "bounded:a-changed-value-is-looked-up-as-the-value-it-is-now", "input": src, "observed": obs, "expected": exp})
    r1 = BoundedResult("equality through the language (real interpreter): operators, sets, maps, membership, removal, containers agree; equivalence laws",
                       f"all ordered pairs and triples of {n} expressions (neighbouring decimals, ints beyond 2^53, every kind)", lev, lev, lfails,
                       [{"x": "0.1 + 0.2", "y": "0.3"}], "the operators reach the value equality through natives (equals / not_equals)", time.time() - t1)
    return [r0, r1]
