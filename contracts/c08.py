"""C08 - Rendering is canonical and data literals round-trip through print and parse."""
import itertools
import z3

from pyvc.verify import Unit, Outcome
from pyvc.values import SInt, SStr, SElem, SBool, SFloat, Obj, PList, PDict, PSet, PyClass, zi, zs, zb
from pyvc.runner import BoundedResult
from .common import Vals, StubFuncs, real_env, cls_name, date_abstractions
from .lexstep import step_unit, state_inv
from . import c13

MANIFEST_ENTRY = {
    'category': 'proof',
    'text': "string escape/unescape lemma on the real scanner loop body: for every character the escape sequence the renderer produces (\\\\ \\' \\r \\n \\t, any other character unchanged) drives the single-quote string states back to the string state having appended exactly that character, and only an unescaped quote ends the token - so scanning a rendered string yields the original text by induction over its characters; constructor typing: every built-in inside the engine's subset that returns an int value returns one whose payload is a Python int (never a float), for every combination of argument kinds, which with ValueInt.__repr__ = str(payload) gives integer numerals; set and map rendering enumerate through the sorted views (order independence shared with C12); decimal numeral shapes, the five-step replace chain of the string renderer, nested bracket tokenisation and the full round trip eval(string(v)) == v by bounded generation of data values on the real interpreter; values built from host data (parse_json) get the value kind of the host kind - a host bool is a boolean, never an int value holding True; values built by library functions and by mutation (NULL map keys) round-trip in the stand-in; numbers built by conversion and rounding functions from ints beyond 2^53; equal containers built in different orders (two listed known findings for 1 / 1.0 representatives)",
    'note': "float(repr(x)) == x and int(str(n)) == n are CPython's; decimal rendering goes through repr(float) and decimal.Decimal formatting (bounded check across magnitudes); the equivalence of the replace chain with the per-character map is checked exhaustively for short strings only (bounded); known findings: patterns whose text cannot stand between // and // have no literal form (four shapes listed in known_findings.json)",
    'technique': 'deductive verification: scanner step lemmas and constructor-typing obligations from the real AST (pyvc + z3); bounded round-trip generation for numerals and collections',
}
PROPERTY = "C08"
LEVEL = "proof"
UNIT_BUDGET_S = 400
TRUSTED = ["float(repr(x)) == x, int(str(n)) == n (CPython)", "induction over the characters of a string from the per-character lemma"]
ASSUMPTIONS = ["NaN and infinities excluded", "code points below U+30000"]
EXPLANATION = "per-character escape/unescape lemma on the scanner; constructor typing of int results; bounded round trip for numerals and collections"


def units(w):
    V = Vals(w)
    F = StubFuncs(w)
    U = []
    funcs = w.import_module("ckl.functions").ns
    vals = w.import_module("ckl.values").ns
    VF = vals["ValueFunc"]
    DATE_ABS = date_abstractions(w)

    # ================================================================== per-character escape/unescape lemma (single-quote states)
    def same(a, b):
        return zs(a) == zs(b)

    def plain(it, st, o):
        pre, L = st.pre, st.post
        it.check("post:stays-in-the-string-state-no-token", o.kind == "return" and L["state"] == 4 and len(st.emitted) == 0)
        it.check("post:appends-exactly-that-character", zs(L["token"]) == z3.Concat(zs(pre["token"]), z3.String("chs")))
    U.append(step_unit(w, "rendered ordinary character: state 4 appends it", 4, plain,
                       ch=lambda c: z3.And(c != 39, c != 92), replay=replay_rt))

    def backslash(it, st, o):
        it.check("post:backslash-enters-the-escape-state-without-emitting-or-appending", o.kind == "return" and st.post["state"] == 41
                 and len(st.emitted) == 0)
        it.check("post:pending-text-unchanged", same(st.post["token"], st.pre["token"]))
    U.append(step_unit(w, "backslash in a string starts an escape", 4, backslash, ch="\\", replay=replay_rt))

    def esc_unit(ch, produced):
        def post(it, st, o):
            it.check("post:returns-to-the-string-state-no-token", o.kind == "return" and st.post["state"] == 4 and len(st.emitted) == 0)
            it.check(f"post:escape-\\{ch!r}-appends-{produced!r}", zs(st.post["token"]) == z3.Concat(zs(st.pre["token"]), z3.StringVal(produced)))
        return step_unit(w, f"escape sequence \\{ch} yields {produced!r}", 41, post, ch=ch, replay=replay_rt)
    for ch, produced in (("\\", "\\"), ("'", "'"), ("n", "\n"), ("r", "\r"), ("t", "\t")):
        U.append(esc_unit(ch, produced))

    def quote(it, st, o):
        it.check("post:unescaped-quote-ends-the-token", o.kind == "return" and st.post["state"] == 0 and len(st.emitted) == 1)
        if st.emitted:
            t = st.emitted[0]
            it.check("post:string-token-with-the-pending-text", z3.And(zs(t.fields["value"]) == zs(st.pre["token"]), zs(t.fields["type"]) == z3.StringVal("string")))
    U.append(step_unit(w, "an unescaped quote ends the string token", 4, quote, ch="'", replay=replay_rt))

    def opens(it, st, o):
        it.check("post:quote-between-tokens-opens-a-string", o.kind == "return" and st.post["state"] == 4 and len(st.emitted) == 0)
    U.append(step_unit(w, "a quote between tokens opens a string", 0, opens, ch="'", replay=replay_rt))

    # ================================================================== renderer wiring
    def s_int(it):
        v = V.int(it, "n")
        return [v], {}, {"n": zi(v.fields["value"])}
    U.append(Unit("values.py::ValueInt.__repr__", s_int,
                  lambda it, c, o: it.check("post:str(payload)", o.kind == "return" and zs(o.value) == zs(it.py_str(SInt(c["n"])))), allowed=()))

    def s_bool(it):
        return [V.TRUE if it.path.choose(2) == 0 else V.FALSE], {}, {}
    U.append(Unit("values.py::ValueBoolean.__repr__", s_bool,
                  lambda it, c, o: it.check("post:TRUE/FALSE", o.kind == "return" and o.value in ("TRUE", "FALSE")), allowed=()))
    U.append(Unit("values.py::ValueNull.__repr__", lambda it: ([V.NULL], {}, {}),
                  lambda it, c, o: it.check("post:NULL", o.kind == "return" and o.value == "NULL"), allowed=()))

    def s_str(it):
        v = V.string(it, "s")
        return [v], {}, {"s": v.fields["value"].z}

    def p_str(it, c, o):
        r = zs(o.value)
        q = z3.StringVal("'")
        ra = w.replace_all
        body = ra(ra(ra(ra(ra(c["s"], z3.StringVal("\\"), z3.StringVal("\\\\")), q, z3.StringVal("\\'")), z3.StringVal("\r"), z3.StringVal("\\r")),
                     z3.StringVal("\n"), z3.StringVal("\\n")), z3.StringVal("\t"), z3.StringVal("\\t"))
        it.check("post:quoted-with-backslash-quote-CR-LF-TAB-escaped-in-that-order", r == z3.Concat(q, body, q))
    U.append(Unit("values.py::ValueString.__repr__", s_str, p_str, allowed=()))

    def sorted_wiring(target, kind):
        marker = {}

        def prepare(world):
            def hook(it, items, src, n):
                marker["src"] = src
                return PList(list(items))
            world.hooks["sorted"] = hook

        def setup(it):
            marker.clear()
            if kind == "set":
                v = V.set_of(it, [V.int(it, "a"), V.int(it, "b")], "st")
            else:
                v = V.map_of(it, [(V.int(it, "a"), V.string(it, "x")), (V.int(it, "b"), V.string(it, "y"))], "m")
            it.assume(z3.Int("a") != z3.Int("b"))
            return [v], {}, {"v": v}

        def post(it, c, o):
            from pyvc.interp import DictView
            src = marker.get("src")
            ok = src is c["v"].fields["value"] or (isinstance(src, DictView) and src.d is c["v"].fields["value"] and src.kind == "keys")
            it.check("post:rendering-enumerates-through-the-sorted-view(order-independent)", o.kind == "return" and ok)
        return Unit(target, setup, post, prepare=prepare, allowed=())
    U.append(sorted_wiring("values.py::ValueSet.__repr__", "set"))
    U.append(sorted_wiring("values.py::ValueMap.__repr__", "map"))

    # ================================================================== constructor typing: int results hold Python ints
    for cname in sorted(funcs):
        cls = funcs[cname]
        if not (isinstance(cls, PyClass) and cls is not VF and cls.issubclass(VF) and "execute" in cls.methods):
            continue
        if cname in c13.SKIP:
            continue
        gan = cls.methods.get("getArgNames")
        try:
            names = [n_.value for n_ in gan.node.body[0].value.elts]
        except Exception:
            continue
        if any(n.endswith("...") for n in names):
            continue
        # only natives that can construct an int value
        import ast
        if not any(isinstance(n_, ast.Call) and isinstance(n_.func, ast.Name) and n_.func.id == "ValueInt" for n_ in ast.walk(cls.methods["execute"].node)):
            continue

        def setup(it, cls=cls, names=names):
            f = Obj(cls, {"name": cls.name, "secure": True, "info": ""})
            f.fresh = False
            la = c13.LazyArgs(V, F, names[:2], c13.KINDS)
            args = Obj(vals["Args"], {"argNames": PList(list(names)), "args": la, "restArgName": None, "pos": V.pos(it)})
            args.fresh = False
            env = real_env(w, it, {"compare": F.func("compare", ["a", "b"], lambda it_, vs: V.int(it_, it_.fresh("cmp"))),
                                   "identity": F.func("identity", ["obj"], lambda it_, vs: vs[0])})
            it.global_overlay[("ckl.functions", "seed")] = SInt(z3.Int("seed0"))      # module invariant (C13): the generator state is a number
            return [f, args, env, V.pos(it, "cpos")], {}, {}

        def post(it, c, o):
            if o.kind == "return" and isinstance(o.value, Obj) and o.value.cls.name == "ValueInt" and o.value.fresh:
                pv = o.value.fields.get("value")
                it.check("post:int-value-holds-a-python-int(renders-as-an-integer-numeral)", isinstance(pv, (int, SInt)) and not isinstance(pv, bool),
                         detail=f"payload {type(pv).__name__}")
            else:
                it.check("post:no-int-constructed-on-this-path", True)
        U.append(Unit(f"functions.py::{cname}.execute", setup, post, name=f"functions.py::{cname}.execute[int results are ints]",
                      abstractions=DATE_ABS, config={"max_unroll": 12, "max_depth": 40}, prepare=c13.install_streams, replay=replay_rt))
    # values built from host data (parse_json): every host kind becomes the value kind that renders as that kind's literal --
    # in particular a host bool is a boolean value, never an int value holding True (which would render as `True`)
    def conv_unit(hostkind):
        def setup(it):
            from pyvc.values import PDict
            f = Obj(funcs["FuncParseJson"], {"name": "parse_json", "secure": True})
            obj = {"str": lambda: it.fresh_str("j"), "int": lambda: it.fresh_int("j"), "float": lambda: it.fresh_float("j"), "bool": lambda: it.fresh_bool("j"),
                   "list": lambda: PList([it.fresh_int("e0"), it.fresh_bool("e1")]), "dict": lambda: PDict([["k", it.fresh_bool("v")]])}[hostkind]()
            return [f, obj], {}, {"obj": obj}

        def check_atom(it, v, hk, where):
            from pyvc.values import SFloat
            want = {"str": "ValueString", "int": "ValueInt", "float": "ValueDecimal", "bool": "ValueBoolean"}[hk]
            it.check(f"post:{where}: a host {hk} becomes a {want}", cls_name(v) == want, detail=cls_name(v) or type(v).__name__)
            if cls_name(v) == "ValueInt":
                pv = v.fields["value"]
                it.check(f"post:{where}: the payload of the int value is an int, not a bool", isinstance(pv, (int, SInt)) and not isinstance(pv, (bool, SBool)))
            if cls_name(v) == "ValueBoolean":
                it.check(f"post:{where}: booleans are the two singletons", v is V.TRUE or v is V.FALSE)

        def post(it, c, o):
            if o.kind != "return":
                it.check("post:returns", False)
                return
            if hostkind in ("str", "int", "float", "bool"):
                check_atom(it, o.value, hostkind, "atom")
            elif hostkind == "list":
                items = o.value.fields["value"].items if cls_name(o.value) == "ValueList" else None
                it.check("post:a host list becomes a list value of the same length", items is not None and len(items) == 2)
                if items is not None and len(items) == 2:
                    check_atom(it, items[0], "int", "element 0")
                    check_atom(it, items[1], "bool", "element 1")
            else:
                ents = o.value.fields["value"].entries if cls_name(o.value) in ("ValueMap", "ValueObject") else None
                it.check("post:a host dict becomes a map value with the same keys", ents is not None and len(ents) == 1)
                if ents:
                    check_atom(it, ents[0][1], "bool", "member value")
        return Unit("functions.py::FuncParseJson.convertObj", setup, post, name=f"functions.py::FuncParseJson.convertObj[host {hostkind}]", allowed=(),
                    config={"max_depth": 30}, bounded=("containers of the stated shape" if hostkind in ("list", "dict") else None))
    for hk in ("str", "int", "float", "bool", "list", "dict"):
        U.append(conv_unit(hk))
    return U


# ----------------------------------------------------------------------------- bounded round trip on the real interpreter

def _mods():
    import importlib
    import sys
    import os
    root = os.path.join(os.environ.get("VERIF_REPO", "/repo"), "src")
    if root not in sys.path:
        sys.path.insert(0, root)
    for m in [k for k in sys.modules if k == "ckl" or k.startswith("ckl.")]:
        del sys.modules[m]
    return importlib.import_module("ckl.interpreter"), importlib.import_module("ckl.errors"), importlib.import_module("ckl.values")


def gen_values(v, rnd, tier):
    """python-built data values (depth <= 3) with adversarial strings and numerals"""
    strs = ["", "a", "'", "\\", "\\'", "it's", "a\\nb", "\n", "\r\n", "\t", "#c", "//x//", "{x}", "é", "\\\\'", "<<>>", " ", "a b", "'''", "\\t", "\x00", "\x0b",
            "end\\"]
    specials = ["\\", "'", "\n", "\r", "\t", "a", "n"]
    for n in range(0, 4 if tier == "thorough" else 3):
        for t in itertools.product(specials, repeat=n):
            strs.append("".join(t))
    ints = [0, 1, -1, 7, -12, 2 ** 53 + 1, -(2 ** 63), 2 ** 80, 10 ** 30]
    decs = [0.0, 1.5, -2.25, 1e16, 1e22, 1e-7, 1e-5, 123456.789, -1e300, 5e-324, 1.7976931348623157e308, 0.1, 1e15, 9999999999999998.0, 2.5e-10, 100.0]
    for _ in range(200 if tier == "thorough" else 40):
        decs.append(rnd.uniform(-1, 1) * 10 ** rnd.randint(-30, 30))
    atoms = [v.NULL, v.TRUE, v.FALSE] + [v.ValueInt(i) for i in ints] + [v.ValueDecimal(d) for d in decs] + [v.ValueString(s) for s in strs] + \
            [v.ValuePattern(p) for p in ["a", "a.b", "[0-9]+", "x|y"]]
    for a in atoms:
        yield a

    def lst(xs):
        r = v.ValueList()
        for x in xs:
            r.addItem(x)
        return r

    def st(xs):
        r = v.ValueSet()
        for x in xs:
            r.addItem(x)
        return r

    def mp(kvs):
        r = v.ValueMap()
        for k, x in kvs:
            r.addItem(k, x)
        return r
    small = [v.ValueInt(1), v.ValueInt(-2), v.ValueDecimal(1.5), v.ValueString("a'b"), v.ValueString("ident"), v.NULL, v.TRUE, v.ValueString("\\")]
    level1 = [lst([]), st([]), mp([]), lst(small[:3]), st(small[:4]), mp([(small[0], small[3]), (small[4], small[2])]), st([v.ValueInt(3), v.ValueInt(1), v.ValueInt(2)]),
              mp([(v.ValueString("b"), v.ValueInt(1)), (v.ValueString("a"), v.ValueInt(2))])]
    for x in level1:
        yield x
    level2 = [lst([level1[1]]), st([level1[1]]), st([level1[4], level1[6]]), st([level1[5]]), mp([(v.ValueInt(1), level1[4])]), mp([(v.ValueInt(1), level1[5])]),
              lst([level1[4], level1[5]]), st([lst([v.ValueInt(1)]), level1[2]]), mp([(level1[6], v.ValueInt(0))]), st([st([]), st([v.ValueInt(1)])])]
    for x in level2:
        yield x
    for x in [st([level2[1]]), st([level2[4]]), mp([(v.ValueInt(1), level2[2])]), lst([level2[2], level2[5]]), st([level2[8], level2[1]])]:
        yield x
    # all insertion orders of up to 4 elements render identically
    base = [v.ValueString("pear"), v.ValueInt(3), v.ValueString("apple"), v.ValueDecimal(2.5)]
    for perm in itertools.permutations(base):
        a = st(list(perm))
        a.permuted = True
        yield a
        b = mp([(k, v.ValueInt(i)) for i, k in enumerate(sorted(perm, key=str))][::1] if False else [(k, v.ValueInt(base.index(k))) for k in perm])
        b.permuted = True
        yield b


def bounded(tier, seed):
    import random
    import time
    t0 = time.time()
    interp, errors, v = _mods()
    rnd = random.Random(seed)
    I = interp.Interpreter(True, True)
    fails, ev = [], 0
    canon_sets, canon_maps = set(), set()
    for val in gen_values(v, rnd, tier):
        ev += 1
        text = str(val)
        kind = type(val).__name__
        try:
            back = I.interpret(text, "-")
            ok = (back == val) and type(back) is type(val) and str(back) == text
            obs = f"{type(back).__name__} {back}"
        except Exception as e:
            ok, obs = False, repr(e)
        if kind == "ValueInt":
            ok = ok and text.lstrip("-").isdigit()
        if kind == "ValueDecimal":
            ok = ok and "." in text and "e" not in text.lower() and text.replace("-", "").replace(".", "").isdigit()
        if not ok:
            fails.append({"id": f"bounded:round-trip[{kind}]", "input": f"{kind} rendered as {text!r}", "observed": obs, "expected": "an equal value of the same type rendering to the same text"})
        if getattr(val, "permuted", False):
            (canon_sets if kind == "ValueSet" else canon_maps).add(text)
    # data values produced by library functions from host data / by mutation (not by literals)
    for src in ["""parse_json('[0, 1, true, false, 2.5, "s"]')""", """parse_json('{"a": true, "b": [false, 1]}')""", "set(parse_json('[true, 1, 0]'))",
                "set(parse_json('[0, 1, true]'))", "def m = <<<>>>; m[NULL] = 1; m[TRUE] = 2; m", "[int('7'), decimal('2'), boolean('1' == '1')]",
                "[1 == 1, length('ab'), 7 / 2, 7.0 / 2, round(2.5), abs(-3)]", "<<NULL>>", "[NULL, [NULL]]",
                # numbers made by conversion and rounding functions, also from ints beyond 2^53
                "[decimal(1180591620717411303424), decimal(3), decimal('2.5'), decimal(TRUE)]",
                "[floor(1180591620717411303425), ceiling(1180591620717411303425), round(1180591620717411303425), floor(2.5), ceiling(-2.5), round(2.567, 2)]",
                "[sum([1180591620717411303424, 0.5]), 1180591620717411303424 * 1.0, 1180591620717411303424 + 0.0, 1180591620717411303424 / 1.0, int(2.0), int('12')]",
                "[sqrt(16), pow(2, 0.5), pow(2, 70), abs(-2.5), min([1, 2.0]), max([1, 2.0]), sum([1, 2]), sum([1, 2.0])]",
                "object(<<<'b' => 1, 'a' => 2>>>)", "map(<*b = 1, a = 2*>)", "list(<<3, 1, 2>>)", "set([3, 1, 3])",
                # zeros made by arithmetic and rounding (one zero: its text evaluates to itself)
                "[0.0 * -1, round(-0.4), 0 * -2.5, -0.0, 0.0 - 0.0, ceiling(-0.5), sum([0.0, 0.0 * -1]), abs(0.0 * -1), min([0.0, 0.0 * -1])]"]:
        ev += 1
        try:
            val = I.interpret(src, "-")
            text = str(val)
            back = I.interpret(text, "-")
            ok = (back == val) and type(back) is type(val) and str(back) == text
            obs = f"{text} evaluates to {type(back).__name__} {back}"
        except Exception as e:
            ok, obs = False, repr(e)
        if not ok:
            fails.append({"id": "bounded:round-trip[value built by a library function]", "input": src, "observed": obs, "expected": "an equal value of the same type rendering to the same text"})
    # patterns whose text cannot stand between // and //: each shape is its own obligation (known findings are listed per shape)
    for shape, src in (("empty text", "pattern('')"), ("leading slash", "pattern('/a')"), ("trailing slash", "pattern('a/')"), ("double slash inside", "pattern('a//b')")):
        ev += 1
        try:
            val = I.interpret(src, "-")
            text = str(val)
            back = I.interpret(text, "-")
            ok = (back == val) and type(back) is type(val) and str(back) == text
            obs = f"{text} evaluates to {type(back).__name__} {back}"
        except Exception as e:
            ok, obs = False, f"{text if 'text' in dir() else src}: {e!r}"
        if not ok:
            fails.append({"id": f"bounded:round-trip[pattern without a literal form: {shape}]", "input": src, "observed": obs, "expected": "an equal pattern rendering to the same text"})
    # the text depends only on the value: a container that was rendered before and whose held value is then changed in place renders as
    # the value it is now (equal to a freshly written literal of that value)
    for src in ("def m = <<<'a' => [1]>>>; string(m); append(m['a'], 2); [string(m) == string(<<<'a' => [1, 2]>>>), string([m]) == string([<<<'a' => [1, 2]>>>])]",
                "def m = <<<1 => ['x']>>>; string(m); m[1][0] = 'z'; string(m) == string(<<<1 => ['z']>>>)",
                "def m = <<<'in' => <<<'k' => FALSE>>> >>>; string(m); m['in']['k'] = TRUE; string(m) == string(<<<'in' => <<<'k' => TRUE>>> >>>)",
                "def s = <<1>>; def m = <<<'s' => s>>>; string(m); append(s, 2); string(m) == string(<<<'s' => <<1, 2>> >>>)",
                "def l = [[1]]; string(l); append(l[0], 2); string(l) == string([[1, 2]])", "def s = << [1] >>; string(s); def o = <*a = [1]*>; string(o); append(o->a, 2); string(o) == string(<*a = [1, 2]*>)"):
        ev += 1
        try:
            obs = str(I.interpret(src, "-"))
        except Exception as e:
            obs = repr(e)
        if obs not in ("TRUE", "[TRUE, TRUE]"):
            fails.append({"id": "bounded:rendered-before-then-changed-renders-as-the-value-it-is-now", "input": src, "observed": obs, "expected": "TRUE"})
    # equal containers built in different orders render identically - also when the orders differ in which of two equal
    # numbers (1 and 1.0) comes first
    for a, b in (("<<1, 1.0>>", "<<1.0, 1>>"), ("<<<1 => 'a', 1.0 => 'b'>>>", "<<<1.0 => 'a', 1 => 'b'>>>"), ("<<2, 1, 3>>", "<<3, 2, 1>>"),
                 ("<<<'b' => 1, 'a' => 2>>>", "<<<'a' => 2, 'b' => 1>>>"), ("<<[1, 2], [1]>>", "<<[1], [1, 2]>>")):
        ev += 1
        try:
            va, vb = I.interpret(a, "-"), I.interpret(b, "-")
            ok = (va == vb) and str(va) == str(vb)
            obs = f"{va} and {vb} (equal: {va == vb})"
        except Exception as e:
            ok, obs = False, repr(e)
        if not ok:
            fails.append({"id": f"bounded:equal-containers-render-identically-whatever-their-construction-order[{a} vs {b}]", "input": f"{a} vs {b}", "observed": obs,
                          "expected": "one rendering"})
    if len(canon_sets) > 1 or len(canon_maps) > 1:
        fails.append({"id": "bounded:rendering-independent-of-insertion-order", "input": "all 24 insertion orders of 4 elements", "observed": str(sorted(canon_sets)[:2] + sorted(canon_maps)[:2]), "expected": "one rendering per value"})
    seen, uniq = set(), []
    for f in fails:
        if f["id"] not in seen:
            seen.add(f["id"])
            uniq.append(f)
    return [BoundedResult("round trip eval(string(v)) == v on generated data values (real interpreter)",
                          "NULL, booleans, ints to 10^30, decimals across magnitudes 1e-324..1e308, adversarial strings (all strings of length <= 2/3 over the "
                          "special characters), patterns, lists/sets/maps to depth 3, all insertion orders of 4 elements", ev, ev, uniq,
                          [{"value": "<< <<1>> >>"}], "numeral shapes, replace chain and nested brackets are bounded only", time.time() - t0)]


def replay_rt(fail):
    for b in bounded("quick", 0):
        if b.failures:
            f = dict(b.failures[0])
            f["reproduced"] = True
            return f
    return {"reproduced": False}
