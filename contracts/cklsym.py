"""Library functions *written in Checkerlang* under contract: symbolic execution of the real interpreter on their real AST.

The functions of the bundled modules (math.ckl, core.ckl, ...) are not Python, so the VC generator cannot read them
directly.  What runs them is Python, though: `invoke` / `FuncLambda.execute` / the `evaluate` methods of nodes.py over the
node tree the real parser built.  This kit

  1. builds, natively on every run, an interpreter of the tree under test ($VERIF_REPO) and lets the *real* code load the
     module (`require Math`): real lexer, real parser, real NodeRequire, real module text;
  2. reflects the resulting heap - environments, function values, node trees, literal values - mechanically into the
     engine's heap (one engine object per host object, same class, same attributes, sharing and cycles preserved);
  3. lets a unit call a function of that heap with *symbolic* arguments: the engine executes the real Python of nodes.py,
     functions.py and values.py over the reflected nodes.

What the reflection drops: nothing of the node trees, environments and values.  Host objects without a model (compiled
regular expressions, streams, the interpreter object held by `run`) become opaque placeholders; touching one leaves the
subset (undecided).  Recursive library functions are verified modularly: inside the body the function's own name is bound
to its contract (induction hypothesis) with a termination measure that must decrease.
"""
import datetime
import importlib
import os
import sys

from pyvc.values import Obj, PList, PDict, PSet, SElem
from pyvc.world import new_datetime
import z3

_NATIVE = {}


def native_session(modules=("Math",), legacy=False):
    """a native interpreter of the tree under test with the given modules loaded"""
    key = (os.environ.get("VERIF_REPO", "/repo"), tuple(modules), legacy)
    if key in _NATIVE:
        return _NATIVE[key]
    root = os.path.join(key[0], "src")
    if root not in sys.path:
        sys.path.insert(0, root)
    for m in [k for k in sys.modules if k == "ckl" or k.startswith("ckl.")]:
        del sys.modules[m]
    interp = importlib.import_module("ckl.interpreter")
    I = interp.Interpreter(True, legacy)
    for m in modules:
        I.interpret(f"require {m}", "-")
    _NATIVE[key] = I
    return I


class Reflector:
    """host object graph -> engine object graph (memoised by identity)"""

    def __init__(self, world):
        self.w = world
        self.memo = {}
        self.count = 0
        self.opaque = []

    def seed_singletons(self, native_values_module):
        """the module-level singletons of values.py (NULL, TRUE, FALSE, ...) map to the engine's own module-level objects"""
        ns = self.w.import_module("ckl.values").ns
        for name, obj in vars(native_values_module).items():
            if name.isupper() and type(obj).__module__ == "ckl.values" and name in ns and isinstance(ns[name], Obj):
                self.memo[id(obj)] = (ns[name], obj)

    def cls_of(self, obj):
        mod = type(obj).__module__
        if not mod.startswith("ckl."):
            return None
        try:
            ns = self.w.import_module(mod).ns
        except Exception:
            return None
        return ns.get(type(obj).__name__)

    def reflect(self, x):
        if x is None or isinstance(x, (bool, int, float, str)):
            return x
        k = id(x)
        if k in self.memo:
            return self.memo[k][0]
        if isinstance(x, list):
            out = PList([])
            out.fresh = False
            self.memo[k] = (out, x)
            out.items.extend(self.reflect(e) for e in x)
            return out
        if isinstance(x, tuple):
            return tuple(self.reflect(e) for e in x)
        if isinstance(x, dict):
            out = PDict([])
            out.fresh = False
            self.memo[k] = (out, x)
            for kk, vv in x.items():
                out.entries.append([self.reflect(kk), self.reflect(vv)])
            return out
        if isinstance(x, (set, frozenset)):
            out = PSet([])
            out.fresh = False
            self.memo[k] = (out, x)
            for e in x:
                out.items.append(self.reflect(e))
            return out
        if isinstance(x, datetime.datetime):
            out = new_datetime(self.w, x.year, x.month, x.day, x.hour, x.minute, x.second, x.microsecond)
            self.memo[k] = (out, x)
            return out
        cls = self.cls_of(x)
        if cls is None:
            out = SElem(z3.IntVal(10_000_000 + len(self.opaque)), "hostobject")
            self.opaque.append(type(x).__name__)
            self.memo[k] = (out, x)
            return out
        out = Obj(cls, {}, label=getattr(x, "name", None) if isinstance(getattr(x, "name", None), str) else None)
        out.fresh = False
        self.memo[k] = (out, x)
        self.count += 1
        for name, val in vars(x).items():
            out.fields[name] = self.reflect(val)
        return out


def loop_free_library_functions(modules):
    """(module, name, parameter names, number of parameters without default) of every function of the given bundled modules that
    is written in Checkerlang, contains no loop or comprehension, and calls only natives or other such functions (static scan of
    the node trees the real parser built; recursion excluded)"""
    I = native_session(tuple(modules))
    N, F = sys.modules["ckl.nodes"], sys.modules["ckl.functions"]
    loops = tuple(getattr(N, c) for c in dir(N) if c.startswith("Node") and ("For" in c or "While" in c or "Comprehension" in c))

    def walk(node, seen):
        if id(node) in seen:
            return
        seen.add(id(node))
        yield node
        for v in vars(node).values():
            for x in (v if isinstance(v, (list, tuple)) else [v]):
                for y in (x if isinstance(x, (list, tuple)) else [x]):
                    if type(y).__module__ == "ckl.nodes":
                        yield from walk(y, seen)
    funcs = {}
    for m in modules:
        for name, v in I.environment.get(m).value.items():
            if isinstance(v, F.FuncLambda):
                funcs[(m, name)] = v
    by_id = {id(f): k for k, f in funcs.items()}
    info = {}
    for key, f in funcs.items():
        nodes = list(walk(f.body, set()))
        for dv in f.defValues:
            if dv is not None:
                nodes += list(walk(dv, set()))
        callees = {n.func.value for n in nodes if isinstance(n, N.NodeFuncall) and isinstance(n.func, N.NodeIdentifier)}
        info[key] = (any(isinstance(n, loops) for n in nodes), callees, f)
    ok = {}

    def good(key, stack=()):
        if key in ok:
            return ok[key]
        if key in stack:
            return False
        has_loop, callees, f = info[key]
        res = not has_loop
        for c in sorted(callees):
            if not res:
                break
            try:
                v = f.lexicalEnv.get(c)
            except Exception:
                continue
            if isinstance(v, F.FuncLambda):
                k2 = by_id.get(id(v))
                res = k2 is not None and good(k2, stack + (key,))
        ok[key] = res
        return res
    def closure(key, acc):
        for c in info[key][1]:
            if c in acc:
                continue
            acc.add(c)
            try:
                v = info[key][2].lexicalEnv.get(c)
            except Exception:
                continue
            k2 = by_id.get(id(v))
            if k2 is not None:
                closure(k2, acc)
        return acc
    out = []
    for (m, name), f in sorted(funcs.items()):
        if good((m, name)):
            names = list(f.argNames)
            required = sum(1 for d in f.defValues if d is None)
            out.append((m, name, names, required, sorted(closure((m, name), set()))))
    return out
