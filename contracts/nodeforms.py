"""The node forms swept by C13 (every kind of child value) and C05 (children that raise): one list, two uses.
`child(name)` builds a child node; `body(it)` builds a loop/branch body."""
from pyvc.values import Obj, PList


def node_forms(nodes, child, body, S, F, V):
    out = []

    def form(ncls, fields, name=None, loops=None):
        return (ncls, fields, name, loops)
    out.append(form("NodeDeref", {"expression": lambda it: child("c"), "index": lambda it: child("i"), "default_value": None}))
    out.append(form("NodeDeref", {"expression": lambda it: child("c"), "index": lambda it: child("i"),
                                     "default_value": lambda it: S.node("dflt", V.NULL)}, name="nodes.py::NodeDeref.evaluate[all kinds,default]"))
    out.append(form("NodeDerefSlice", {"expression": lambda it: child("c"), "start": lambda it: child("a"), "end": None},
                       name="nodes.py::NodeDerefSlice.evaluate[all kinds, a to *]"))
    out.append(form("NodeIn", {"expression": lambda it: child("x"), "list": lambda it: child("c")}))
    out.append(form("NodeNot", {"expression": lambda it: child("x")}))
    out.append(form("NodeFor", {"identifiers": lambda it: PList(["x"]), "expression": lambda it: child("c"), "block": body, "what": None},
                       name="nodes.py::NodeFor.evaluate[all kinds, for x]"))
    out.append(form("NodeFor", {"identifiers": lambda it: PList(["x", "y"]), "expression": lambda it: child("c"), "block": body, "what": "entries"},
                       name="nodes.py::NodeFor.evaluate[all kinds, for [x, y] entries]"))
    out.append(form("NodeAssignDestructuring", {"identifiers": lambda it: PList(["x", "y"]), "expression": lambda it: child("c")}))
    out.append(form("NodeDefDestructuring", {"identifiers": lambda it: PList(["x", "y"]), "expression": lambda it: child("c"), "info": ""}))
    out.append(form("NodeIf", {"conditions": lambda it: PList([child("c")]), "expressions": lambda it: PList([body(it)]),
                                  "elseExpression": body}))
    out.append(form("NodeError", {"expression": lambda it: child("v")}))
    for what in (None, "keys", "values", "entries"):
        out.append(form("NodeListComprehension", {"valueExpr": body, "identifier": "x", "listExpr": lambda it: child("c"),
                                                     "what": what, "conditionExpr": None},
                           name=f"nodes.py::NodeListComprehension.evaluate[all kinds,{what}]"))
    spread = lambda it: Obj(nodes["NodeSpread"], {"expression": child("c"), "pos": None})
    out.append(form("NodeList", {"items": lambda it: PList([spread(it)])}, name="nodes.py::NodeList.evaluate[spread of all kinds]"))

    # three-operand forms: the container/index/value kinds fork independently (first two), third restricted
    out.append(form("NodeDerefSlice", {"expression": lambda it: child("c"), "start": lambda it: child("a"), "end": lambda it: child("b")},
                       name="nodes.py::NodeDerefSlice.evaluate[all kinds, a to b]"))
    out.append(form("NodeDerefAssign", {"expression": lambda it: child("c"), "index": lambda it: child("i"), "value": lambda it: child("v")}))
    # the remaining iteration / literal / call forms
    for cls_ in ("NodeSetComprehension", "NodeMapComprehension"):
        for what in (None, "keys", "values", "entries"):
            fs = {"valueExpr": body, "identifier": "x", "listExpr": lambda it: child("c"), "what": what, "conditionExpr": None}
            if cls_ == "NodeMapComprehension":
                fs["keyExpr"] = lambda it: child("k")
            else:
                fs["valueExpr"] = lambda it: child("v")
            out.append(form(cls_, fs, name=f"nodes.py::{cls_}.evaluate[all kinds,{what}]"))
    for cls_ in ("NodeListComprehensionParallel", "NodeListComprehensionProduct", "NodeSetComprehensionParallel", "NodeSetComprehensionProduct"):
        for what in (None, "keys", "values", "entries"):
            out.append(form(cls_, {"valueExpr": body, "identifier1": "x", "listExpr1": lambda it: child("c"), "what1": what,
                                      "identifier2": "y", "listExpr2": lambda it: child("d"), "what2": what, "conditionExpr": None},
                               name=f"nodes.py::{cls_}.evaluate[all kinds,{what}]"))
    out.append(form("NodeSet", {"items": lambda it: PList([child("e"), child("f")])}, name="nodes.py::NodeSet.evaluate[elements of all kinds]"))
    out.append(form("NodeSet", {"items": lambda it: PList([spread(it)])}, name="nodes.py::NodeSet.evaluate[spread of all kinds]"))
    out.append(form("NodeMap", {"keys": lambda it: PList([child("k")]), "values": lambda it: PList([child("v")])}, name="nodes.py::NodeMap.evaluate[key and value of all kinds]"))
    out.append(form("NodeObject", {"keys": lambda it: PList(["m"]), "values": lambda it: PList([child("v")])}, name="nodes.py::NodeObject.evaluate[member of all kinds]"))
    out.append(form("NodeDerefInvoke", {"objectExpr": lambda it: child("o"), "member": "m", "names": lambda it: PList([None]), "args": lambda it: PList([child("a")])},
                       name="nodes.py::NodeDerefInvoke.evaluate[receiver and argument of all kinds]"))
    out.append(form("NodeFuncall", {"func": lambda it: child("f"), "names": lambda it: PList([None]), "args": lambda it: PList([child("a")])},
                       name="nodes.py::NodeFuncall.evaluate[callee and argument of all kinds]"))
    out.append(form("NodeFuncall", {"func": lambda it: S.node("callee", F.func("callee", ["a", "rest..."], lambda it_, vs: V.NULL)),
                                       "names": lambda it: PList([None]), "args": lambda it: PList([spread(it)])},
                       name="nodes.py::NodeFuncall.evaluate[spread argument of all kinds]"))
    out.append(form("NodeAnd", {"expressions": lambda it: PList([child("a"), child("b")])}, name="nodes.py::NodeAnd.evaluate[operands of all kinds]"))
    out.append(form("NodeOr", {"expressions": lambda it: PList([child("a"), child("b")])}, name="nodes.py::NodeOr.evaluate[operands of all kinds]"))

    return out
