"""Bounded runtime contracts for library code written in Checkerlang (modules/*.ckl) and natives outside the
engine's subset.  These are the *bounded stand-ins* of DESIGN.md 2.9: pre/postconditions around the real callable
(`Interpreter.interpret` on the real tree), enumerated over a stated small domain.  Never counted as proved."""
import itertools
import math
import os
import random
import sys
import time

from pyvc.runner import BoundedResult


def interp(legacy=True):
    import importlib
    root = os.path.join(os.environ.get("VERIF_REPO", "/repo"), "src")
    if root not in sys.path:
        sys.path.insert(0, root)
    for m in [k for k in sys.modules if k == "ckl" or k.startswith("ckl.")]:
        del sys.modules[m]
    I = importlib.import_module("ckl.interpreter").Interpreter(True, legacy)
    return I


def lit(x):
    if x is None:
        return "NULL"
    if isinstance(x, bool):
        return "TRUE" if x else "FALSE"
    if isinstance(x, int):
        return str(x)
    if isinstance(x, float):
        return repr(x)
    if isinstance(x, str):
        return "'" + x.replace("\\", "\\\\").replace("'", "\\'").replace("\n", "\\n").replace("\t", "\\t").replace("\r", "\\r") + "'"
    if isinstance(x, list):
        return "[" + ", ".join(lit(e) for e in x) + "]"
    if isinstance(x, (set, frozenset, tuple)):
        return "<<" + ", ".join(lit(e) for e in x) + ">>"
    raise TypeError(x)


def topy(v):
    n = type(v).__name__
    if n == "ValueNull":
        return None
    if n in ("ValueInt", "ValueDecimal", "ValueString", "ValueBoolean"):
        return v.value
    if n == "ValueList":
        return [topy(e) for e in v.value]
    if n == "ValueSet":
        return ("set", sorted((topy(e) for e in v.value), key=lambda t: (str(type(t)), str(t))))
    if n == "ValueMap":
        return ("map", [(topy(k), topy(x)) for k, x in v.value.items()])
    return ("other", str(v))


def same(a, b):
    """typed structural equality (1 and 1.0 differ)"""
    if isinstance(a, list) and isinstance(b, list):
        return len(a) == len(b) and all(same(x, y) for x, y in zip(a, b))
    return type(a) is type(b) and a == b


def seteq(res, expected):
    """result is a set equal (modulo the language's equality) to the expected python collection"""
    if not (isinstance(res, tuple) and res[0] == "set"):
        return False
    got = res[1]
    return all(any(g == e for e in expected) for g in got) and all(any(g == e for g in got) for e in expected) \
        and len(got) == len(dedupe(list(expected)))


def dedupe(xs):
    out = []
    for x in xs:
        if not any(x == y for y in out):
            out.append(x)
    return out


class Runner:
    def __init__(self, legacy=False):
        self.I = interp(legacy)
        if not legacy:
            # module-qualified calls in the non-legacy environment are unambiguous (the legacy environment
            # deliberately lets String->reverse shadow List->reverse)
            self.I.interpret("require List; require Set; require Stat; require Math; require Bitwise; require String; require Type;", "-")
        self.errs = sys.modules["ckl.errors"]
        self.ev = 0
        self.fails = []
        self.samples = []

    def run(self, src):
        self.ev += 1
        try:
            return ("ok", topy(self.I.interpret(src, "-")))
        except self.errs.CklRuntimeError as e:
            return ("err", str(e.value))
        except self.errs.CklSyntaxError as e:
            return ("syntax", str(e))
        except RecursionError:
            return ("host", "RecursionError")
        except Exception as e:
            return ("host", repr(e))

    def expect(self, law, src, pred, expected_desc):
        r = self.run(src)
        ok = False
        try:
            ok = r[0] == "ok" and pred(r[1])
        except Exception:
            ok = False
        if len(self.samples) < 6 and self.ev % 211 == 1:
            self.samples.append({"src": src[:120], "result": str(r[1])[:80]})
        if not ok:
            if not any(f["id"] == law for f in self.fails):
                self.fails.append({"id": law, "input": src, "observed": f"{r[0]}: {r[1]}", "expected": expected_desc})
        return ok


POOL = [0, 1, 1.0, 2, -3, "a", "b", None]
NUMPOOL = [0, 1, 1.0, 2, -3, 2.5]


def lists_upto(pool, n, cap, rnd):
    for k in range(0, n + 1):
        combos = list(itertools.product(pool, repeat=k))
        if len(combos) > cap:
            combos = rnd.sample(combos, cap)
        for c in combos:
            yield list(c)


def c19(tier, seed):
    t0 = time.time()
    R = Runner()
    rnd = random.Random(seed)
    maxlen = 5 if tier == "thorough" else 4
    cap = 400 if tier == "thorough" else 120
    # ---- set algebra on lists and sets
    for a in lists_upto(POOL, 3, cap, rnd):
        for b in lists_upto(POOL, 2, 30, rnd):
            for form in ("list", "set"):
                la, lb = (lit(a), lit(b)) if form == "list" else (lit(tuple(dedupe(a))), lit(tuple(dedupe(b))))
                R.expect("bounded:union", f"Set->union({la}, {lb})", lambda r: seteq(r, a + b), "set union")
                R.expect("bounded:intersection", f"Set->intersection({la}, {lb})", lambda r: seteq(r, [x for x in a if x in b]), "set intersection")
                R.expect("bounded:diff", f"Set->diff({la}, {lb})", lambda r: seteq(r, [x for x in a if x not in b]), "set difference")
                R.expect("bounded:symmetric_diff", f"Set->symmetric_diff({la}, {lb})",
                         lambda r: seteq(r, [x for x in a if x not in b] + [x for x in b if x not in a]), "symmetric difference")
    # ---- list utilities
    for a in lists_upto(POOL, maxlen, cap, rnd):
        la = lit(a)
        R.expect("bounded:unique", f"List->unique({la})", lambda r: same(r, dedupe(a)), "first of each group of equal elements, in order")
        R.expect("bounded:reverse", f"List->reverse({la})", lambda r: same(r, a[::-1]), "reversed list")
        R.expect("bounded:reverse-involution", f"List->reverse(List->reverse({la}))", lambda r: same(r, a), "the list itself")
        R.expect("bounded:enumerate", f"enumerate({la})", lambda r: same(r, [[i, x] for i, x in enumerate(a)]), "index/value pairs")
        R.expect("bounded:pairs", f"pairs({la})", lambda r: same(r, [[a[i], a[i + 1]] for i in range(len(a) - 1)]), "adjacent pairs")
        R.expect("bounded:filter", f"List->filter({la}, fn(x) Type->is_string(x))", lambda r: same(r, [x for x in a if isinstance(x, str)]), "filtered")
        R.expect("bounded:map_list", f"List->map_list({la}, fn(x) [x])", lambda r: same(r, [[x] for x in a]), "mapped")
        groups = [list(g) for _, g in itertools.groupby(a, key=lambda x: x)] if False else None
        exp_groups = []
        for x in a:
            if exp_groups and exp_groups[-1][-1] == x:
                exp_groups[-1].append(x)
            else:
                exp_groups.append([x])
        if all(not isinstance(x, str) for x in a) or all(isinstance(x, str) for x in a):
            R.expect("bounded:grouped", f"List->grouped({la})", lambda r: same(r, exp_groups), "adjacent equal elements grouped")
        if len(a) <= 4:
            # the same with NULL among the elements and with a key function whose result may be NULL
            for nulled in ({x: None for x in a[:1]}, {x: None for x in a[1:2]}, {x: None for x in a[-1:]}):
                an = [nulled.get(x, x) for x in a]
                if not (all(not isinstance(x, str) for x in an if x is not None) or all(isinstance(x, str) for x in an if x is not None)):
                    continue
                eg = []
                for x in an:
                    if eg and eg[-1][-1] == x:
                        eg[-1].append(x)
                    else:
                        eg.append([x])
                R.expect("bounded:grouped", f"List->grouped({lit(an)})", lambda r, eg=eg: same(r, eg), "adjacent equal elements grouped (NULL is an element like any other)")
                recs = [[x, i] for i, x in enumerate(an)]
                egk = []
                for rec in recs:
                    if egk and egk[-1][-1][0] == rec[0]:
                        egk[-1].append(rec)
                    else:
                        egk.append([rec])
                R.expect("bounded:grouped", f"List->grouped({lit(recs)}, key = fn(r) r[0])", lambda r, egk=egk: same(r, egk), "adjacent records with equal keys grouped")
        for cs in (1, 2, 3):
            R.expect("bounded:chunks", f"chunks({la}, {cs})",
                     lambda r: same(r, [a[i:i + cs] for i in range(0, len(a), cs)]), "consecutive chunks of the stated size (the last one may be shorter, none is empty)")
        R.expect("bounded:zip", f"zip({la}, List->reverse({la}))", lambda r: same(r, [[x, y] for x, y in zip(a, a[::-1])]), "pairs")
    # elements of every kind: only child *lists* are replaced by their contents; NULL, sets, booleans ... stay elements
    for a in lists_upto([[1, 2], 3, [], "a", [4, [5]], None, True, frozenset([10, 11]), frozenset(), 2.5, [None], [frozenset([1])]], 3, cap, rnd):
        flat = []
        for x in a:
            flat.extend(x) if isinstance(x, list) else flat.append(x)
        want = R.run(lit(flat))
        R.expect("bounded:flatten", f"List->flatten({lit(a)})", lambda r: want[0] == "ok" and same(r, want[1]), f"one level flattened: {lit(flat)}")
    R.expect("bounded:sum", "sum([])", lambda r: r == 0 and type(r) is int, "empty sum 0")
    R.expect("bounded:prod", "List->prod([])", lambda r: r == 1 and type(r) is int, "empty product 1")
    # ---- numeric folds and order statistics, invariant under permutation
    for a in lists_upto(NUMPOOL, maxlen, cap, rnd):
        if not a:
            continue
        la = lit(a)
        allint = all(isinstance(x, int) for x in a)
        R.expect("bounded:sum", f"sum({la})", lambda r: r == sum(a) and (type(r) is int) == allint, "textbook sum, int iff all ints")
        p = 1
        for x in a:
            p = p * x
        R.expect("bounded:prod", f"List->prod({la})", lambda r: r == p, "textbook product")
        R.expect("bounded:reduce", f"List->reduce({la}, fn(x, y) x - y)", lambda r: r == __import__("functools").reduce(lambda x, y: x - y, a), "left fold")
        srt = sorted(a)
        n = len(a)
        exp_low, exp_high = srt[(n - 1) // 2], srt[n // 2]
        perms = list(itertools.permutations(a)) if n <= (5 if tier == "thorough" else 4) else [tuple(a)]
        for pm in perms[:24 if tier == "quick" else 120]:
            lp = lit(list(pm))
            R.expect("bounded:median_low-permutation-invariant", f"Stat->median_low({lp})", lambda r: r == exp_low, f"low median {exp_low}")
            R.expect("bounded:median_high-permutation-invariant", f"Stat->median_high({lp})", lambda r: r == exp_high, f"high median {exp_high}")
            R.expect("bounded:median-permutation-invariant", f"Stat->median({lp})",
                     lambda r: r == (srt[n // 2] if n % 2 else (srt[n // 2 - 1] + srt[n // 2]) / 2.0), "median")
            # the same value for every arrangement (exactly, not up to a tolerance): the sum of the values in ascending order over n
            R.expect("bounded:mean-permutation-invariant", f"Stat->mean({lp})", lambda r: r == sum(srt) / n and type(r) is float, f"mean {sum(srt) / n!r} for every arrangement")
            R.expect("bounded:min-permutation-invariant", f"min({lp})", lambda r: r == min(a), "minimum")
            R.expect("bounded:max-permutation-invariant", f"max({lp})", lambda r: r == max(a), "maximum")
    # ---- values whose float sums depend on the order of addition, and ints whose running mean is not representable
    for a in ([0.1, 0.2, 0.3], [0.1, 0.7, 0.2, 0.3], [-20, -8, -6, 14], [-19, 4, 7], [1, 0.1, -1, 0.3], [3, 0.1, 0.2], [7, 7, 7, 0.1, 0.2, 0.3][:5]):
        srt = sorted(a)
        n = len(a)
        outs = set()
        for pm in itertools.permutations(a):
            lp = lit(list(pm))
            r = R.run(f"Stat->mean({lp})")
            outs.add(str(r))
            R.expect("bounded:mean-permutation-invariant", f"Stat->mean({lp})", lambda r: r == sum(srt) / n, f"mean {sum(srt) / n!r} for every arrangement")
            R.expect("bounded:median-permutation-invariant", f"Stat->median({lp})",
                     lambda r: r == (srt[n // 2] if n % 2 else (srt[n // 2 - 1] + srt[n // 2]) / 2.0), "median")
    # ---- interval / range
    for a in range(-3, 6):
        R.expect("bounded:interval", f"interval({a})", lambda r: same(r, list(range(1, a + 1))), "1..a")
        for b in range(-3, 6):
            R.expect("bounded:interval", f"interval({a}, {b})", lambda r: same(r, list(range(a, b + 1))), "a..b")
            for st in (-2, -1, 1, 2, 3):
                R.expect("bounded:range", f"range({a}, {b}, {st})", lambda r: same(r, list(range(a, b, st))), "python range")
    # ---- exact integer functions up to 2^80
    big = [0, 1, 2, 3, 12, 18, 2 ** 31, 2 ** 32 + 1, 2 ** 53 + 1, 2 ** 64, 3 ** 40, 2 ** 80, 2 ** 80 - 1, 6 * 7 ** 20]
    for a in big:
        for s in (1, -1):
            v = a * s
            R.expect("bounded:abs", f"Math->abs({v})", lambda r: r == abs(v) and type(r) is int, "exact |n|")
            R.expect("bounded:sign", f"Math->sign({v})", lambda r: r == (v > 0) - (v < 0), "sign")
        for b in big:
            # the whole domain: both signs and zero (gcd and lcm are the non-negative generators: gcd(0, 0) = 0, lcm(0, n) = 0)
            for sa, sb in ((1, 1), (-1, 1), (1, -1), (-1, -1)):
                x, y = a * sa, b * sb
                R.expect("bounded:gcd", f"Math->gcd({x}, {y})", lambda r: r == math.gcd(x, y) and type(r) is int, f"exact gcd {math.gcd(x, y)}")
                R.expect("bounded:lcm", f"Math->lcm({x}, {y})", lambda r: r == math.lcm(x, y) and type(r) is int, f"exact lcm {math.lcm(x, y)}")
            if b <= 40:
                R.expect("bounded:pow", f"Math->pow({a}, {b})", lambda r: r == a ** b and type(r) is int, "exact power")
    words = [0, 1, 2, 0x7FFFFFFF, 0x80000000, 0xFFFFFFFF, 0x12345678, 0xAAAAAAAA, 0x55555555, 0xFFFF0000]
    M = 0xFFFFFFFF
    for a in words:
        for n in range(0, 41):
            k = n % 32
            R.expect("bounded:bit_shift_left", f"Bitwise->bit_shift_left({a}, {n})", lambda r: r == (a << n) & M, "32-bit shl")
            R.expect("bounded:bit_shift_right", f"Bitwise->bit_shift_right({a}, {n})", lambda r: r == a >> n, "32-bit shr")
            R.expect("bounded:bit_rotate_left", f"Bitwise->bit_rotate_left({a}, {n})", lambda r: r == ((a << k) | (a >> (32 - k))) & M, "32-bit rotl")
            R.expect("bounded:bit_rotate_right", f"Bitwise->bit_rotate_right({a}, {n})", lambda r: r == ((a >> k) | (a << (32 - k))) & M, "32-bit rotr")
        for b in words:
            R.expect("bounded:bit_and", f"Bitwise->bit_and({a}, {b})", lambda r: r == a & b, "and")
            R.expect("bounded:bit_or", f"Bitwise->bit_or({a}, {b})", lambda r: r == a | b, "or")
            R.expect("bounded:bit_xor", f"Bitwise->bit_xor({a}, {b})", lambda r: r == a ^ b, "xor")
        R.expect("bounded:bit_not", f"Bitwise->bit_not({a})", lambda r: r == M - a, "not")
    return [BoundedResult("library laws (Checkerlang-defined functions and natives) against host-language oracles",
                          f"lists of length <= {maxlen} over {POOL} / {NUMPOOL} (sampled to {cap} per length), all permutations for order "
                          f"statistics, ints to 2^80, 10 boundary words x shift counts 0..40",
                          R.ev, R.ev, R.fails, R.samples, "runtime contracts on Interpreter.interpret of the real tree", time.time() - t0)]


def run(prop, tier, seed):
    return {"C19": c19}[prop](tier, seed)
