"""C20 - Reported source lines are the lines where the reported construct starts (lexer part + error plumbing)."""
import z3

from pyvc.verify import Unit, Outcome
from pyvc.values import SInt, SStr, SBool, Obj, PList, zi, zs, zb
from pyvc.runner import BoundedResult
from .common import Vals, Stubs, StubFuncs, real_env, runtime_error, cls_name
from .lexstep import STATES, step_unit, state_inv

MANIFEST_ENTRY = {
    'category': 'proof',
    'text': "the loop body of Lexer.scan is executed symbolically from every scanner state for an arbitrary character: every emitted token carries the file name given to the lexer and the remembered start position; the start position is written only while the scanner is between tokens and then equals the line of the character just consumed, which is never a line break when a token starts; the line counter advances exactly on consumed line breaks and an un-read character is not counted twice; runtime errors raised by nodes carry the node's position, invoke() appends exactly one stack-trace line with the call position, require parses module text under the module's name; parser node positions by bounded enumeration of layouts on the real parser; an undefined name is reported at the identifier's own position, also when it is the callee of a call; calling a non-function is reported at the call; every node a parse function builds is positioned at a token of its construct (a token the function consumed, or the opening/operator token just before its entry), proved on the abstract token stream for all parse functions; binary operations and comparisons are positioned at their operator token; module text is scanned under the file name mod:<module> whatever the alias (NodeRequire units); module error positions under every import form (bounded); parse_script returns what this call scanned and parsed and keeps nothing between calls (same text under several file names)",
    'note': 'columns are not part of the property; composition over all iterations is the standard inductive argument over the per-step obligations; characters below U+30000 (z3 range)',
    'technique': 'deductive verification: per-step VCs of the scanner loop body from the real AST + z3; bounded layout enumeration for parser positions',
}
PROPERTY = "C20"
LEVEL = "proof"
TRUSTED = ["induction over loop iterations from the per-step obligations (paper argument)"]
ASSUMPTIONS = ["column numbers are not specified by the property", "code points below U+30000"]
EXPLANATION = "per-step proof of token positions in the scanner; error position plumbing; bounded layout enumeration"


def units(w):
    V = Vals(w)
    U = []
    lexns = w.import_module("ckl.lexer").ns

    def post_for(q):
        def post(it, st, o):
            pre, L = st.pre, st.post
            if o.kind == "raise":
                # syntax errors raised by the scanner carry a position on the current line
                p = o.exc.fields.get("pos")
                it.check("raises:syntax-error-has-message-and-position", isinstance(p, Obj) and p.cls.name == "SourcePos"
                         and o.exc.fields.get("msg") is not None)
                return
            nl = zi(pre["ch_code"]) == 10
            # (d) the line counter advances exactly on consumed line breaks
            it.check("post:line-advances-exactly-on-consumed-line-breaks",
                     zi(L["line"]) == zi(pre["line"]) + z3.If(z3.And(zb(pre["updatepos"]), nl), 1, 0))
            # (e) un-read: updatepos is cleared exactly when the character is given back
            up = L["updatepos"]
            upz = z3.BoolVal(up) if isinstance(up, bool) else zb(up)
            it.check("post:updatepos-cleared-exactly-on-unread", z3.Not(upz) == (zi(L["pos"]) == zi(pre["pos"])))
            it.check("post:pos-advances-by-one-or-unreads", z3.Or(zi(L["pos"]) == zi(pre["pos"]) + 1, zi(L["pos"]) == zi(pre["pos"])))
            # (b) token in progress: the remembered start position is not touched
            if q != 0:
                it.check("post:start-position-frozen-while-a-token-is-in-progress",
                         z3.And(zi(L["startline"]) == zi(pre["startline"]), zi(L["startcolumn"]) == zi(pre["startcolumn"])))
            else:
                # (c) between tokens: the start position is the position of the character just consumed;
                # if that character starts or is a token it is not a line break, so the line is the token's first line
                it.check("post:start-position-is-the-current-character", zi(L["startline"]) == zi(L["line"]))
                starts = z3.BoolVal(len(st.emitted) > 0) if isinstance(L["state"], int) and L["state"] == 0 else z3.BoolVal(True)
                if not (isinstance(L["state"], int) and L["state"] in (0, 9)) or st.emitted:
                    it.check("post:a-token-never-starts-with-a-line-break", z3.Not(nl))
            # (a) every emitted token carries file name and remembered start line
            for t in st.emitted:
                p = t.fields["pos"]
                ok = isinstance(p, Obj) and p.cls.name == "SourcePos"
                it.check("post:token-has-a-SourcePos", ok)
                if ok:
                    it.check("post:token-line-is-the-remembered-start-line", zi(p.fields["line"]) == zi(L["startline"]))
                    it.check("post:token-file-name-is-the-lexer-name", zs(p.fields["filename"]) == z3.String("fname"))
        return post
    for q in STATES:
        U.append(step_unit(w, f"state {q}: positions", q, post_for(q), replay=replay_bounded))

    # ------------------------------------------------------------------ SourcePos / error text
    def s_pos(it):
        p = Obj(lexns["SourcePos"], {"filename": SStr(z3.String("f")), "line": SInt(z3.Int("ln")), "column": SInt(z3.Int("col"))})
        it.assume(z3.Length(z3.String("f")) > 0)
        it.assume(z3.Int("ln") >= 0)
        return [p], {}, {"p": p}

    def p_pos(it, c, o):
        it.check("post:returns-text", o.kind == "return")
        ln = z3.IntToStr(z3.Int("ln"))
        it.check("post:rendering-contains-line", z3.Contains(zs(o.value), z3.Concat(z3.StringVal(":"), ln, z3.StringVal(":"))))
        it.check("post:rendering-names-the-file-unless-stdin", z3.Implies(z3.String("f") != z3.StringVal("-"), z3.PrefixOf(z3.String("f"), zs(o.value))))
    U.append(Unit("lexer.py::SourcePos.__repr__", s_pos, p_pos, allowed=()))

    # ------------------------------------------------------------------ invoke: one stack-trace line with the call position
    S = Stubs(w)
    F = StubFuncs(w)
    nodes = w.import_module("ckl.nodes").ns

    def s_invoke(it):
        err = runtime_error(w, it, V.string(it, "ev"), "err")
        pos = V.pos(it, "callpos")

        def beh(it_, vals):
            raise __import__("pyvc.interp", fromlist=["PyRaise"]).PyRaise(err)
        fn = F.func("callee", ["a"], beh)
        args = PList([S.node("arg0", V.int(it, "x"))])
        return [fn, PList([None]), args, real_env(w, it, {}), pos], {}, {"err": err, "pos": pos}

    def p_invoke(it, c, o):
        it.check("post:error-propagates-as-the-same-object", o.kind == "raise" and o.exc is c["err"])
        st = c["err"].fields["stacktrace"]
        it.check("post:exactly-one-stack-trace-entry-added", isinstance(st, PList) and st.items is not None and len(st.items) == 1)
    U.append(Unit("nodes.py::invoke", s_invoke, p_invoke, config={"repr_mode": "opaque"}))

    # ------------------------------------------------------------------ an undefined name is reported where the name stands
    def s_ident(it):
        ipos = V.pos(it, "identpos")
        node = Obj(nodes["NodeIdentifier"], {"value": SStr(z3.String("name")), "pos": ipos})
        return [node, real_env(w, it, {})], {}, {"ipos": ipos}

    def p_ident(it, c, o):
        it.check("raises:undefined-name-is-a-runtime-error-at-the-identifier's-own-position",
                 o.kind == "raise" and o.exc_class == "CklRuntimeError" and o.exc.fields.get("pos") is c["ipos"])
    U.append(Unit("nodes.py::NodeIdentifier.evaluate", s_ident, p_ident, name="nodes.py::NodeIdentifier.evaluate[undefined name]"))

    def s_call_ident(it):
        ipos, cpos = V.pos(it, "identpos"), V.pos(it, "callpos")
        ident = Obj(nodes["NodeIdentifier"], {"value": SStr(z3.String("name")), "pos": ipos})
        node = Obj(nodes["NodeFuncall"], {"func": ident, "names": PList([]), "args": PList([]), "pos": cpos})
        return [node, real_env(w, it, {})], {}, {"ipos": ipos, "cpos": cpos}

    def p_call_ident(it, c, o):
        it.check("raises:an-undefined-callee-name-is-reported-at-the-name (not at the opening parenthesis of the call)",
                 o.kind == "raise" and o.exc_class == "CklRuntimeError" and o.exc.fields.get("pos") is c["ipos"])
    U.append(Unit("nodes.py::NodeFuncall.evaluate", s_call_ident, p_call_ident, name="nodes.py::NodeFuncall.evaluate[undefined callee name]"))

    def s_call_nonfunc(it):
        ipos, cpos = V.pos(it, "identpos"), V.pos(it, "callpos")
        node = Obj(nodes["NodeFuncall"], {"func": S.node("callee", V.int(it, "notafunction")), "names": PList([]), "args": PList([]), "pos": cpos})
        return [node, real_env(w, it, {})], {}, {"cpos": cpos}

    def p_call_nonfunc(it, c, o):
        it.check("raises:calling-a-non-function-is-reported-at-the-call", o.kind == "raise" and o.exc_class == "CklRuntimeError" and o.exc.fields.get("pos") is c["cpos"])
    U.append(Unit("nodes.py::NodeFuncall.evaluate", s_call_nonfunc, p_call_nonfunc, name="nodes.py::NodeFuncall.evaluate[callee is not a function]"))

    # ------------------------------------------------------------------ the parser positions every node it builds at a token of the construct
    from .parserproof import parser_units
    U.extend(parser_units(w, "C20", only=tuple(n_ for n_ in __import__("contracts.parserproof", fromlist=["STRICT"]).STRICT
                                               + __import__("contracts.parserproof", fromlist=["LITERALS"]).LITERALS
                                               + list(__import__("contracts.parserproof", fromlist=["POSTFIX"]).POSTFIX))))
    # binary operations and comparisons are positioned at their operator token (grammar-level units of C02 with the position
    # obligations switched on)
    from .c02_parser import parser_units as grammar_units
    U.extend([u for u in grammar_units(w, "C20") if "parse_add_expr" in u.name or "parse_mul_expr" in u.name or "parse_rel_expr" in u.name])
    # every position carries the file name given to *this* call: parse_script scans and parses its own arguments and keeps nothing
    # between calls (unit of contracts/parserproof.py)
    U.extend(u for u in parser_units(w, "C20") if u.name == "parser.py::parse_script")
    # errors raised inside module code name the module: the module text is scanned under the file name mod:<module> (the units of
    # C11 over the real NodeRequire.evaluate with an abstract file system; the obligation that matters here is the parse name)
    from . import c11
    U.extend(u for u in c11.units(w) if "NodeRequire.evaluate[" in u.name and "cached" not in u.name.split(",")[1])
    return U


# ----------------------------------------------------------------------------- bounded: layouts on the real lexer/parser

def replay_bounded(fail):
    for b in bounded("quick", 0):
        if b.failures:
            f = dict(b.failures[0])
            f["reproduced"] = True
            return f
    return {"reproduced": False}


def _mods():
    import importlib
    import sys
    import os
    root = os.path.join(os.environ.get("VERIF_REPO", "/repo"), "src")
    if root not in sys.path:
        sys.path.insert(0, root)
    for m in [k for k in sys.modules if k == "ckl" or k.startswith("ckl.")]:
        del sys.modules[m]
    return importlib.import_module("ckl.lexer"), importlib.import_module("ckl.parser"), importlib.import_module("ckl.interpreter"), importlib.import_module("ckl.errors")


TOKENS = ["x", "abc1", "12", "1.5", "0x1F", "0b11", "'s'", '"d"', "//p//", "TRUE", "if", "+", "+=", "<=", "<>", "<<", "<<<", ">>>", "(", "]",
          ",", ";", "!>", "->", "*>", "<*", "...", "/", "%", "=", "==", "!="]
FOLLOW = [" ", "\n", "\r\n", "\t", " # c\n", "\n\n", "(", "+", ""]


def bounded(tier, seed):
    import itertools
    import random
    import time
    t0 = time.time()
    lexer, parser, interp, errors = _mods()
    fails, ev = [], 0
    # every token kind followed by every kind of following character, on lines 1..3
    for lead in ("", "\n", "a\n\n"):
        line0 = 1 + lead.count("\n")
        for tok in TOKENS:
            for fol in FOLLOW:
                for nxt in ("y", "7", "'z'", ""):
                    src = lead + tok + fol + nxt
                    ev += 1
                    try:
                        toks = lexer.Lexer(src, "file.ckl").scan().tokens
                    except errors.CklSyntaxError:
                        continue
                    except Exception as e:
                        fails.append({"id": "bounded:token-line", "input": repr(src), "observed": repr(e), "expected": "tokens"})
                        continue
                    idx = 1 if lead == "a\n\n" else 0
                    if len(toks) <= idx:
                        continue
                    t = toks[idx]
                    if t.pos.line != line0 or t.pos.filename != "file.ckl":
                        fails.append({"id": "bounded:token-line", "input": repr(src), "observed": f"{t.value!r} at {t.pos}", "expected": f"line {line0}"})
                    if nxt and len(toks) > idx + 1 and fol not in ("(", "+"):
                        want = line0 + fol.count("\n")
                        t2 = toks[-1]
                        if t2.pos.line != want and not (tok in ("'s'", '"d"', "//p//") and False):
                            fails.append({"id": "bounded:token-line", "input": repr(src), "observed": f"{t2.value!r} at {t2.pos}", "expected": f"line {want}"})
    # one fault planted at a known token, re-rendered under multi-line layouts: reported line = line of the construct
    I = interp.Interpreter(True, False)
    progs = [
        (["def", "a", "=", "1", ";", "undefined_name", "+", "1"], 5, "runtime"),
        (["def", "a", "=", "1", ";", "if", "1", "then", "2"], 5, "runtime"),
        (["def", "a", "=", "1", ";", "error", "'boom'"], 5, "runtime"),
        (["def", "a", "=", "[", "1", ",", "2", "]", ";", "a", "[", "7", "]"], (9, 10), "runtime"),
        (["def", "f", "(", "x", ")", "x", "+", "nope", ";", "1", ";", "f", "(", "2", ")"], 7, "runtime"),
        (["1", "+", ";", "2"], 2, "syntax"),
        (["def", "a", "=", "1", ";", "while", "3", "do", "1", "end"], 5, "runtime"),
        (["def", "a", "=", "1", ";", "not", "5"], 5, "runtime"),
        (["def", "a", "=", "1", ";", "missing_fn", "(", "a", ")"], 5, "runtime"),
        (["def", "a", "=", "1", ";", "a", "!>", "missing_fn", "(", ")"], 7, "runtime"),
        (["def", "a", "=", "1", ";", "[", "1", ",", "missing_name", ",", "3", "]"], 8, "runtime"),
        (["def", "o", "=", "<*", "a", "=", "1", "*>", ";", "o", "->", "nope", "(", ")"], (10, 11, 12), "runtime"),
        (["def", "a", "=", "1", ";", "a", "(", "2", ")"], (5, 6), "runtime"),
        (["def", "a", "=", "10", ";", "a", "/", "(", "0", ")"], (5, 6), "runtime"),
        (["def", "a", "=", "10", ";", "a", "%", "(", "a", "-", "10", ")"], (5, 6), "runtime"),
        (["def", "f", "=", "fn", "(", ")", "1", ";", "f", "*", "[", "1", ",", "2", "]"], (8, 9), "runtime"),
        (["def", "a", "=", "1", ";", "a", "+", "(", "'x'", "-", "1", ")"], (8, 9), "runtime"),
    ]
    rnd = random.Random(seed)
    nlay = 40 if tier == "thorough" else 12
    for toks, fault, kind in progs:
        for _ in range(nlay):
            seps = [rnd.choice([" ", "\n", " \n ", "\n\n", " # note\n", "\r\n", "\t"]) for _ in toks]
            src, line, fline = "", 1, []
            faults = fault if isinstance(fault, tuple) else (fault,)
            for i, (tk, sp) in enumerate(zip(toks, seps)):
                if i in faults:
                    fline.append(line)      # the construct's first token, or the offending operator token
                src += tk + sp
                line += sp.count("\n")
            ev += 1
            try:
                I.interpret(src, "prog.ckl")
                obs = None
            except errors.CklRuntimeError as e:
                obs = e.pos
            except errors.CklSyntaxError as e:
                obs = e.pos
            except Exception as e:
                obs = repr(e)
            got = getattr(obs, "line", obs)
            fn = getattr(obs, "filename", None)
            if got not in fline or fn != "prog.ckl":
                fails.append({"id": f"bounded:error-line[{' '.join(toks[faults[0]:faults[0] + 2])}]", "input": repr(src), "observed": f"{obs}", "expected": f"prog.ckl line {fline}"})
    # the same text under different file names, in one process: every error names the file of its own call
    for src, line in (("def a = 1;\nundefined_name + 1", 2), ("def f(x) do\n  error 'inside';\nend;\nf(1)", 2), ("1 +", 1)):
        for reuse in (False, True):
            K_ = interp.Interpreter(True, False)
            for fname in ("alpha.ckl", "beta.ckl", "alpha.ckl", "gamma.ckl"):
                ev += 1
                J = K_ if reuse else interp.Interpreter(True, False)
                try:
                    J.interpret(src, fname)
                    obs, trace = None, []
                except errors.CklRuntimeError as e:
                    obs, trace = e.pos, list(e.stacktrace)
                except errors.CklSyntaxError as e:
                    obs, trace = e.pos, []
                if getattr(obs, "filename", None) != fname or any((".ckl:" in str(t)) and (fname not in str(t)) for t in trace):
                    fails.append({"id": "bounded:error-names-the-file-of-its-own-call", "input": f"{src!r} interpreted as {fname} after the same text under other names",
                                  "observed": f"{obs} trace={[str(t) for t in trace]}", "expected": f"{fname} line {line}"})
    # errors raised inside module code name the module and the line within the module, however the module was imported
    import os
    import shutil
    import tempfile
    import importlib
    values = importlib.import_module("ckl.values")
    d = tempfile.mkdtemp(prefix="c20mods", dir=os.environ.get("VERIF_SCRATCH", "/var/tmp"))
    try:
        with open(os.path.join(d, "faulty.ckl"), "w") as f:
            f.write("# a user module\ndef ok() 1;\n\ndef boom(x) do\n  def y = x;\n  error 'inside';\nend;\ndef outer(x) do\n  boom(x);\nend;\n")
        forms = [("require faulty; faulty->boom(1)", 6), ("require faulty as F; F->boom(1)", 6), ("require faulty unqualified; boom(1)", 6),
                 ("require faulty import [boom as b]; b(1)", 6), ("require 'faulty.ckl' as G; G->boom(1)", 6), ("require faulty as H; H->outer(2)", 6)]
        for legacy in (False, True):
            for src, line in forms:
                for first_alias in (None, "Z"):
                    J = interp.Interpreter(True, legacy)
                    mp = values.ValueList()
                    mp.addItem(values.ValueString(d))
                    J.base_environment.put("checkerlang_module_path", mp)
                    ev += 1
                    try:
                        if first_alias:      # the module was first loaded under another alias: the cached module keeps its own name
                            J.interpret(f"require faulty as {first_alias}", "prog.ckl")
                        J.interpret(src, "prog.ckl")
                        obs, trace = None, []
                    except errors.CklRuntimeError as e:
                        obs, trace = e.pos, list(e.stacktrace)
                    except Exception as e:
                        obs, trace = repr(e), []
                    ok = getattr(obs, "filename", None) == "mod:faulty" and getattr(obs, "line", None) == line
                    if "outer" in src:
                        ok = ok and any("mod:faulty:9" in str(t) for t in trace)
                    ok = ok and any("prog.ckl:1" in str(t) for t in trace)
                    if not ok:
                        fails.append({"id": "bounded:module-error-names-the-module-and-its-line", "input": (f"require faulty as {first_alias}; " if first_alias else "") + src,
                                      "observed": f"{obs} trace={[str(t) for t in trace]}", "expected": f"mod:faulty line {line}, trace through prog.ckl:1"})
        # a bundled module required under an alias
        for legacy in (False, True):
            J = interp.Interpreter(True, legacy)
            ev += 1
            try:
                J.interpret("require List as L;\nL->reduce([], add)", "prog.ckl")
                obs = None
            except errors.CklRuntimeError as e:
                obs = e.pos
            if getattr(obs, "filename", None) != "mod:List":
                fails.append({"id": "bounded:module-error-names-the-module-and-its-line", "input": "require List as L; L->reduce([], add)", "observed": str(obs), "expected": "mod:List:<line>"})
    finally:
        shutil.rmtree(d, ignore_errors=True)
    seen, uniq = set(), []
    for f in fails:
        if f["id"] not in seen:
            seen.add(f["id"])
            uniq.append(f)
    return [BoundedResult("token and error lines under layouts (real lexer, parser, interpreter)",
                          f"{len(TOKENS)} token kinds x {len(FOLLOW)} followers x 4 successors x 3 leading layouts; {len(progs)} faulty programs x {nlay} random multi-line layouts; errors inside a user module and a bundled module under every import form and alias history",
                          ev, ev, uniq, [{"src": "x\\ny"}], "parser node positions are outside the proof part", time.time() - t0)]
