"""Shared spec functions (z3 reading + Python reading) and factories for symbolic language values."""
import z3

from pyvc.values import (SInt, SBool, SFloat, SStr, SElem, Obj, PList, PDict, PSet, zi, zr, zb, zs,
                         mk_int, mk_bool, mk_str)
from pyvc.world import new_datetime, assume_dt_valid, dt_valid

I = z3.IntVal

# ----------------------------------------------------------------------------- calendar specs (DESIGN A.1)
CUM = [0, 31, 59, 90, 120, 151, 181, 212, 243, 273, 304, 334, 365]
DPM = [31, 28, 31, 30, 31, 30, 31, 31, 30, 31, 30, 31]


def z_leap(y):
    return z3.And(y % 4 == 0, z3.Or(y % 100 != 0, y % 400 == 0))


def z_yd(y):
    return z3.If(z_leap(y), I(366), I(365))


def z_L(y):
    return y / 4 - y / 100 + y / 400


L1899 = 1899 // 4 - 1899 // 100 + 1899 // 400   # 460


def z_D(y):
    """days before 1 January of year y, counted from 1 January 1900"""
    return 365 * (y - 1900) + z_L(y - 1) - I(L1899)


def z_table(idx, table):
    e = I(table[-1])
    for i in range(len(table) - 2, -1, -1):
        e = z3.If(idx == i, I(table[i]), e)
    return e


def z_M(y, m0):
    """days before month m0 (zero based, 0..12) in year y"""
    return z_table(m0, CUM) + z3.If(z3.And(z_leap(y), m0 >= 2), I(1), I(0))


def z_md(y, m0):
    return z3.If(z3.And(z_leap(y), m0 == 1), I(29), z_table(m0, DPM))


def z_N(y, m0, d):
    """day number of the civil date (y, m0+1, d): N(1900,0,1) = 2, N(1970,0,1) = 25569"""
    return 1 + z_D(y) + z_M(y, m0) + d


def py_leap(y):
    return y % 4 == 0 and (y % 100 != 0 or y % 400 == 0)


def py_D(y):
    L = lambda v: v // 4 - v // 100 + v // 400
    return 365 * (y - 1900) + L(y - 1) - L1899


def py_M(y, m0):
    return CUM[m0] + (1 if py_leap(y) and m0 >= 2 else 0)


def py_N(y, m0, d):
    return 1 + py_D(y) + py_M(y, m0) + d


N_MIN = py_N(1, 0, 1)            # 0001-01-01
N_1900 = py_N(1900, 0, 1)        # 2
N_MAX = py_N(9999, 11, 31)       # 2958466


def selfcheck_specs():
    """z3 and Python readings of the spec functions must agree, and agree with the host calendar."""
    import datetime
    import random
    rnd = random.Random(12345)
    assert py_N(1970, 0, 1) == 25569 and N_1900 == 2
    for _ in range(300):
        y, m0 = rnd.randint(1, 9999), rnd.randint(0, 11)
        d = rnd.randint(1, 28)
        o = datetime.date(y, m0 + 1, d).toordinal() - datetime.date(1900, 1, 1).toordinal() + 2
        assert py_N(y, m0, d) == o, (y, m0, d)
        zv = z3.simplify(z_N(I(y), I(m0), I(d)))
        assert zv.as_long() == o, (y, m0, d, zv)
    return True


# ----------------------------------------------------------------------------- sequence specs (DESIGN A.1)

def z_clamp(n, a):
    """clamp(a) = min(max(a<0 ? a+n : a, 0), n)"""
    a1 = z3.If(a < 0, a + n, a)
    return z3.If(a1 < 0, I(0), z3.If(a1 > n, n, a1))


def z_slice(s, a, b, empty):
    n = z3.Length(s)
    ca, cb = z_clamp(n, a), z_clamp(n, b)
    return z3.If(ca < cb, z3.SubSeq(s, ca, cb - ca), empty)


def z_tdiv(a, b):
    """truncating division, b != 0"""
    absa = z3.If(a >= 0, a, -a)
    absb = z3.If(b >= 0, b, -b)
    q = absa / absb
    return z3.If((a >= 0) == (b >= 0), q, -q)


# ----------------------------------------------------------------------------- value factory

class Vals:
    """Builds symbolic Checkerlang values as instances of the repository's own classes."""

    def __init__(self, world):
        self.w = world
        self.values = world.import_module("ckl.values").ns
        self.TRUE = self.values["TRUE"]
        self.FALSE = self.values["FALSE"]
        self.NULL = self.values["NULL"]
        self._register_vint()
        self._register_any()

    def _register_any(self):
        """symbolic lists whose elements are arbitrary values the function under contract must not look into"""
        def wrap(it_, z):
            return self.opaque(it_, "anyelem")

        def unwrap(it_, v):
            return z3.Int(it_.fresh("anyid"))
        self.w.elem_kinds["any"] = (wrap, unwrap)

    def _register_vint(self):
        VI = self.values["ValueInt"]

        def wrap(it_, z):
            o = Obj(VI, {"value": SInt(z) if not z3.is_int_value(z) else z.as_long(), "info": ""})
            o.fresh = False
            return o

        def unwrap(it_, v):
            if isinstance(v, Obj) and v.cls is VI and isinstance(v.fields.get("value"), (int, SInt)):
                return zi(v.fields["value"])
            return None
        self.w.elem_kinds["vint"] = (wrap, unwrap)

    def cls(self, name):
        return self.values[name]

    def _mk(self, clsname, fields, label=None):
        o = Obj(self.cls(clsname), dict(fields), label=label)
        o.fresh = False          # an input object, not allocated by the call
        o.fields.setdefault("info", "")
        return o

    def int(self, it, name="n"):
        return self._mk("ValueInt", {"value": SInt(z3.Int(name))}, name)

    def dec(self, it, name="x"):
        return self._mk("ValueDecimal", {"value": SFloat(z3.Real(name))}, name)

    def string(self, it, name="s"):
        return self._mk("ValueString", {"value": SStr(z3.String(name))}, name)

    def boolean(self, it, name="b"):
        """one of the two singletons"""
        return self.TRUE if it.path.choose(2) == 0 else self.FALSE

    def date(self, it, name="d", midnight=False, min_year=1):
        fs = [SInt(z3.Int(f"{name}.{f}")) for f in ("year", "month", "day")]
        if midnight:
            ts = [0, 0, 0, 0]
        else:
            ts = [SInt(z3.Int(f"{name}.{f}")) for f in ("hour", "minute", "second")] + [0]
        dt = new_datetime(self.w, *(fs + ts))
        dt.fresh = False
        it.path.assume(dt_valid(dt), check=False)
        it.path.assume(zi(fs[0]) >= min_year)
        return self._mk("ValueDate", {"value": dt}, name)

    def pattern(self, it, name="p"):
        s = SStr(z3.String(name))
        return self._mk("ValuePattern", {"value": s, "pattern": Obj(self.w.builtin_classes["Pattern"], {"pattern": s})}, name)

    def list_sym(self, it, name="l", kind="elem"):
        sort = {"int": z3.IntSort(), "str": z3.StringSort()}.get(kind, z3.IntSort())
        pl = PList(sym=z3.Const(name, z3.SeqSort(sort)), kind=kind, label=name)
        pl.fresh = False
        return self._mk("ValueList", {"value": pl}, name)

    def list_of_ints(self, it, name="l"):
        """a list of arbitrary length whose elements are all ValueInt objects (payloads = the z3 Seq(Int) entries)"""
        pl = PList(sym=z3.Const(name, z3.SeqSort(z3.IntSort())), kind="vint", label=name)
        pl.fresh = False
        return self._mk("ValueList", {"value": pl}, name)

    def list_of(self, it, items, name="l"):
        pl = PList(list(items), label=name)
        pl.fresh = False
        return self._mk("ValueList", {"value": pl}, name)

    def set_of(self, it, items, name="st"):
        ps = PSet(list(items), label=name)
        ps.fresh = False
        return self._mk("ValueSet", {"value": ps}, name)

    def map_of(self, it, entries, name="m"):
        pd = PDict([list(e) for e in entries], label=name)
        pd.fresh = False
        return self._mk("ValueMap", {"value": pd}, name)

    def object_of(self, it, entries, name="o", is_module=False):
        pd = PDict([list(e) for e in entries], label=name)
        pd.fresh = False
        return self._mk("ValueObject", {"value": pd, "isModule": is_module}, name)

    def set_sym(self, it, name="st"):
        """a set of arbitrary (finite) content, elements are opaque ids modulo the language's equality"""
        ps = PSet([], label=name)
        ps.sym_dom = z3.Array(name, z3.IntSort(), z3.BoolSort())
        ps.fresh = False
        return self._mk("ValueSet", {"value": ps}, name)

    def map_sym(self, it, name="m", keys="elem"):
        pd = PDict([], label=name)
        ks = z3.StringSort() if keys == "str" else z3.IntSort()
        pd.sym_dom = z3.Array(name + ".dom", ks, z3.BoolSort())
        pd.sym_val = z3.Array(name + ".val", ks, z3.IntSort())
        pd.key_kind = keys
        pd.fresh = False
        return self._mk("ValueMap", {"value": pd}, name)

    def object_sym(self, it, name="o"):
        pd = PDict([], label=name)
        pd.sym_dom = z3.Array(name + ".dom", z3.StringSort(), z3.BoolSort())
        pd.sym_val = z3.Array(name + ".val", z3.StringSort(), z3.IntSort())
        pd.key_kind = "str"
        pd.fresh = False
        return self._mk("ValueObject", {"value": pd, "isModule": SBool(z3.Bool(name + ".isModule"))}, name)

    def func(self, it, name="f"):
        # (object invariant of ValueFunc: name, secure flag, creation serial)
        return self._mk("ValueFunc", {"name": name, "secure": True, "serial": SInt(z3.Int("serial." + name))}, name)

    def opaque(self, it, name="v", excluding=()):
        """A value of any kind other than the classes named in `excluding` (which the harness enumerates
        separately). Soundness-checked: calling a method that one of the remaining concrete kinds
        overrides aborts the unit with `kind split needed`."""
        return self._mk("Value", {"__opaque__": tuple(excluding)}, name)

    def pos(self, it, name="pos"):
        lex = self.w.import_module("ckl.lexer").ns
        o = Obj(lex["SourcePos"], {"filename": "-", "line": SInt(z3.Int(name + ".line")),
                                   "column": SInt(z3.Int(name + ".col"))}, label=name)
        o.fresh = False
        return o

    def args(self, it, mapping, names=None, pos=None):
        """Args object (the repository's class) holding the given name -> value bindings."""
        A = self.cls("Args")
        pos = pos if pos is not None else self.pos(it)
        a = Obj(A, {"argNames": PList(list(names or mapping.keys())), "args": PDict([[k, v] for k, v in mapping.items()]),
                    "restArgName": None, "pos": pos}, label="args")
        a.fresh = False
        a.fields["argNames"].fresh = False
        a.fields["args"].fresh = False
        return a

    def env(self, it, name="env"):
        return SElem(z3.Int(name), "env")

    KINDS0 = ["null", "true", "false", "int", "decimal", "string", "date", "pattern", "list0", "set0", "map0", "object0",
              "func", "input", "output", "node", "break", "continue", "return"]
    KINDS = ["null", "true", "false", "int", "decimal", "string", "date", "pattern", "list", "set", "map", "object",
             "func", "input", "output", "node", "break", "continue", "return"]

    def of_kind(self, it, kind, name):
        """a symbolic value of the given kind (collections: symbolic spine for lists, small concrete for others)"""
        if kind == "null":
            return self.NULL
        if kind == "true":
            return self.TRUE
        if kind == "false":
            return self.FALSE
        if kind == "int":
            return self.int(it, name)
        if kind == "decimal":
            return self.dec(it, name)
        if kind == "string":
            return self.string(it, name)
        if kind == "date":
            return self.date(it, name)
        if kind == "pattern":
            return self.pattern(it, name)
        if kind == "list0":
            return self.list_of(it, [], name)
        if kind == "set0":
            return self.set_of(it, [], name)
        if kind == "map0":
            return self.map_of(it, [], name)
        if kind == "object0":
            return self.object_of(it, [], name)
        if kind == "list":
            return self.list_sym(it, name)
        if kind == "set":
            return self.set_sym(it, name)
        if kind == "map":
            return self.map_sym(it, name)
        if kind == "object":
            return self.object_sym(it, name)
        if kind == "func":
            return self.func(it, name)
        if kind == "input":
            return self._mk("ValueInput", {"input": SElem(z3.Int(name + ".in"), "stream"), "closed": SBool(z3.Bool(name + ".closed"))}, name)
        if kind == "output":
            return self._mk("ValueOutput", {"output": SElem(z3.Int(name + ".out"), "stream"), "closed": SBool(z3.Bool(name + ".closed"))}, name)
        if kind == "node":
            return self._mk("ValueNode", {"value": SElem(z3.Int(name + ".node"), "node")}, name)
        if kind == "break":
            return self._mk("ValueControlBreak", {"pos": self.pos(it, name + ".pos")}, name)
        if kind == "continue":
            return self._mk("ValueControlContinue", {"pos": self.pos(it, name + ".pos")}, name)
        if kind == "return":
            return self._mk("ValueControlReturn", {"value": self.opaque(it, name + ".val"), "pos": self.pos(it, name + ".pos")}, name)
        raise ValueError(kind)


def cls_name(v):
    return v.cls.name if isinstance(v, Obj) else type(v).__name__


def date_N(v):
    """z3 day number of a ValueDate / datetime object"""
    dt = v.fields["value"] if v.cls.name == "ValueDate" else v
    f = dt.fields
    return z_N(zi(f["year"]), zi(f["month"]) - 1, zi(f["day"]))


def date_sod(v):
    dt = v.fields["value"] if v.cls.name == "ValueDate" else v
    f = dt.fields
    return zi(f["hour"]) * 3600 + zi(f["minute"]) * 60 + zi(f["second"])


# ----------------------------------------------------------------------------- abstract children (DESIGN A.3)

class Stubs:
    """Abstract AST children / callee functions: `evaluate` is not executed, it appends an event to the
    ghost trace and yields the outcome scripted by the harness (a value, or a raised CklRuntimeError)."""

    def __init__(self, world):
        from pyvc.values import PyClass, Builtin
        self.w = world
        self.cls = PyClass("StubNode", None, [world.object_cls])
        self.cls.methods["evaluate"] = Builtin("StubNode.evaluate", self._evaluate)
        self.cls.methods["collectVars"] = Builtin("StubNode.collectVars", lambda it, a, k, n: None)

    def node(self, name, outcome=None, script=None):
        o = Obj(self.cls, {"name": name, "outcome": outcome, "script": list(script) if script is not None else None,
                           "count": 0, "pos": None}, label=name)
        o.fresh = False
        return o

    def _evaluate(self, it, a, k, n):
        node, env = a[0], a[1] if len(a) > 1 else None
        f = node.fields
        it.trace.append(("eval", f["name"], env))
        if f["script"] is not None:
            if f["count"] >= len(f["script"]):
                from pyvc.path import PathEnd
                raise PathEnd()           # script exhausted: this behaviour of the child is not explored further
            out = f["script"][f["count"]]
        else:
            out = f["outcome"]
        f["count"] += 1
        if callable(out):
            out = out(it, env)
        if isinstance(out, tuple) and len(out) == 2 and out[0] == "raise":
            from pyvc.interp import PyRaise
            raise PyRaise(out[1])
        return out


def runtime_error(world, it, value=None, name="err"):
    """a CklRuntimeError object as raised by an abstract child"""
    cls = world.import_module("ckl.errors").ns["CklRuntimeError"]
    e = Obj(cls, {"value": value, "msg": SStr(z3.String(name + ".msg")), "pos": None, "stacktrace": PList([]),
                  "args": ()}, label=name)
    return e


def events(it, kind="eval"):
    return [e[1] for e in it.trace if e[0] == kind]


class StubFuncs:
    """Abstract callee functions (user callbacks): `execute` logs an event and returns what `behaviour` says."""

    def __init__(self, world):
        from pyvc.values import PyClass, Builtin
        self.w = world
        base = world.import_module("ckl.values").ns["ValueFunc"]
        self.cls = PyClass("StubFunc", None, [base])
        self.cls.total_ordering = True
        self.cls.methods["execute"] = Builtin("StubFunc.execute", self._execute)
        self.cls.methods["getArgNames"] = Builtin("StubFunc.getArgNames", lambda it, a, k, n: PList(list(a[0].fields["argnames"])))

    def func(self, name, argnames, behaviour):
        o = Obj(self.cls, {"name": name, "secure": True, "argnames": list(argnames), "behaviour": behaviour, "info": "",
                           "serial": SInt(z3.Int("serial." + name))}, label=name)
        o.fresh = False
        return o

    def _execute(self, it, a, k, n):
        f, args = a[0], a[1]
        vals = [e[1] for e in args.fields["args"].entries]
        it.trace.append(("exec", f.fields["name"], tuple(vals)))
        return f.fields["behaviour"](it, vals)


def real_env(world, it, bindings=None, parent=None):
    """an instance of the repository's Environment class holding the given bindings"""
    E = world.import_module("ckl.functions").ns["Environment"]
    pd = PDict([[k, v] for k, v in (bindings or {}).items()])
    o = Obj(E, {"map": pd, "parent": parent}, label="env")
    if parent is None:
        o.fields["modules"] = PDict([])
        o.fields["modulestack"] = PList([])
    o.fresh = False
    pd.fresh = False
    return o


# ----------------------------------------------------------------------------- callee contracts of date.py (proved in C17)

def date_abstractions(w):
    """to_oa_date / to_date replaced by their contracts (which C17 proves against the bodies)."""
    from pyvc.values import mk_int

    def abs_to_oa(it, a, k, node):
        d = a[0]
        if not (isinstance(d, Obj) and d.cls.name == "datetime"):
            it.check("pre:to_oa_date:argument-is-datetime", False, node)
        it.check("pre:to_oa_date:year>=1", zi(d.fields["year"]) >= 1, node)
        n = date_N(d)
        if all(isinstance(d.fields[f], int) and d.fields[f] == 0 for f in ("hour", "minute", "second", "microsecond")):
            return SFloat(z3.ToReal(n), intz=n)
        r = it.fresh_float("oa")
        it.path.assume(z3.And(r.z >= z3.ToReal(n), r.z < z3.ToReal(n) + 1), check=False)
        return r

    def abs_to_date(it, a, k, node):
        x = a[0]
        if isinstance(x, SFloat) and x.intz is not None:
            x = mk_int(x.intz)
        if isinstance(x, float):
            if x != x or x in (float("inf"), float("-inf")) or not (N_MIN <= x < N_MAX + 1):
                it.throw("ValueError", "day number out of range", node)
            x = SFloat(z3.RealVal(repr(x)))
        if isinstance(x, SFloat):
            if not it.path.branch(z3.And(x.z >= N_MIN, x.z < N_MAX + 1)):
                it.throw("ValueError", "day number out of range", node)
            d = new_datetime(w, it.fresh_int("ry"), it.fresh_int("rm"), it.fresh_int("rd"), it.fresh_int("rh"),
                             it.fresh_int("rmi"), it.fresh_int("rs"), it.fresh_int("rus"))
            it.path.assume(dt_valid(d), check=False)
            return d
        if not isinstance(x, (int, SInt)):
            it.guard(False, "TypeError", node, "unsupported operand for to_date")
        if not it.path.branch(z3.And(zi(x) >= N_MIN, zi(x) <= N_MAX)):
            it.throw("ValueError", "day number out of range", node)
        d = new_datetime(w, it.fresh_int("ry"), it.fresh_int("rm"), it.fresh_int("rd"), 0, 0, 0, 0)
        it.path.assume(dt_valid(d), check=False)
        it.path.assume(date_N(d) == zi(x), check=False)
        return d
    return {"to_oa_date": abs_to_oa, "to_date": abs_to_date}
