"""Parser functions on an abstract token stream (C01 parser part; feeds C02 / C11 / C20 parser clauses).

The token list is abstract: `tokens[i]` is a Token whose value/type are the i-th entries of two uninterpreted
arrays and whose pos is an opaque non-None position; the list has symbolic length n >= 1 and the cursor nextToken
is symbolic with 0 <= nextToken <= n (the lexer object invariant I_lex).  Token well-formedness (what the scanner
guarantees: int tokens are digits, decimal tokens digits '.' digits*, pattern tokens at least //..//) is assumed for
each token that is read.

Every parse function F is verified in isolation: all *other* parse functions (and F's recursive calls) are replaced
by the contract
      requires I_lex
      ensures  returns a node, nextToken' > nextToken (strict progress), nextToken' <= n, tokens unchanged
            or raises CklSyntaxError(msg, pos) with pos not None
(postfix helpers: progress only when the token they are entered on is theirs).  Every loop gets the default loop
contract: invariant I_lex /\\ nextToken >= its value at loop entry, variant n - nextToken, everything reachable from the
locals havocked.  Obligations: no exception but CklSyntaxError escapes, every CklSyntaxError carries message and position,
the contract's own ensures clause, the variant of every loop.
"""
import ast
import z3

from pyvc.verify import Unit, Outcome
from pyvc.interp import Loop, PyRaise, ScriptAbs, Frame
from pyvc.values import SInt, SStr, SBool, SElem, Obj, PList, PDict, PyFunc, PyClass, Builtin, zi, zs, mk_bool, mk_int
from .common import Vals

TV = z3.Array("TOKVAL", z3.IntSort(), z3.StringSort())
TT = z3.Array("TOKTYPE", z3.IntSort(), z3.StringSort())
TPOS = z3.Function("TOKPOS", z3.IntSort(), z3.IntSort())
N = z3.Int("ntokens")
DIG = z3.Range("0", "9")
# the scanner's word classes (lexer.KEYWORDS re-read from the tree at import time would be circular here: the scanner
# step obligations in c01.py prove "identifier tokens are none of these" against the real KEYWORDS list)
WORDS_NOT_IDENTIFIERS = ["if", "then", "elif", "else", "and", "or", "not", "is", "in", "def", "fn", "for", "while", "do", "end", "finally", "catch",
                         "break", "continue", "return", "error", "require", "as", "also", "TRUE", "FALSE"]

STRICT = ["parse_bare_block", "parse_block", "parse_statement", "parse_expression", "parse_or_expr", "parse_and_expr", "parse_not_expr",
          "parse_rel_expr", "parse_add_expr", "parse_mul_expr", "parse_unary_expr", "parse_pred_expr", "parse_primary_expr", "parse_fn"]
# entered after their opening token was consumed: they return a node having consumed at least the closing bracket
LITERALS = ["parse_list_literal", "parse_set_literal", "parse_map_literal", "parse_object_literal"]
POSTFIX = {"_invoke": [("!>", "operator")], "_call": [("(", "interpunction")], "_deref": [("->", "operator"), ("[", "interpunction")],
           "deref_or_call_or_invoke": [], "deref_or_invoke": [], "invoke": [], "collect_predicate_min_max_exact": []}


def token_wf(val, typ):
    """what the scanner guarantees about every token it emits (numeral shapes: bounded fuzzing only, see lexstep.py;
    word classes: proved on the scanner step in c01.py)"""
    return z3.And(
        z3.Implies(typ == z3.StringVal("int"), z3.InRe(val, z3.Plus(DIG))),
        z3.Implies(typ == z3.StringVal("decimal"), z3.InRe(val, z3.Concat(z3.Plus(DIG), z3.Re(z3.StringVal(".")), z3.Star(DIG)))),
        z3.Implies(typ == z3.StringVal("pattern"), z3.Length(val) >= 4),
        z3.Implies(typ == z3.StringVal("identifier"), z3.Not(RESERVED(val))))


RESERVED = z3.Function("RESERVED_WORD", z3.StringSort(), z3.BoolSort())


def reserved_facts():
    """ground facts about the uninterpreted predicate RESERVED: it holds of every keyword and of TRUE / FALSE (the scanner
    step obligation in c01.py proves `identifier tokens are none of these words` against the real lexer.KEYWORDS)"""
    return z3.And(*[RESERVED(z3.StringVal(k)) for k in WORDS_NOT_IDENTIFIERS])


def make_lexer(w, it, nonempty=True):
    """`nonempty`: the precondition of every parse function and of Lexer.getPos / getPosNext (which would recurse
    forever on an empty token list): the token list has at least one token.  Call sites must establish it."""
    lex = w.import_module("ckl.lexer").ns

    def tok(it_, idx, node):
        n = N
        i = zi(idx)
        it_.guard(mk_bool(z3.And(i >= -n, i < n)), "IndexError", node, "list index out of range")
        j = z3.simplify(z3.If(i >= 0, i, i + n))
        val, typ = z3.Select(TV, j), z3.Select(TT, j)
        # what the scanner guarantees about the token it emitted (assumed here, see module docstring)
        it_.path.assume(token_wf(val, typ), check=False)
        o = Obj(lex["Token"], {"value": SStr(val), "type": SStr(typ), "pos": SElem(TPOS(j), "pos")})
        o.fresh = False
        return o
    tokens = ScriptAbs(SInt(N), tok)
    lx = Obj(lex["Lexer"], {"script": "", "name": SStr(z3.String("fname")), "tokens": tokens, "nextToken": SInt(z3.Int("nt0"))})
    lx.fresh = False
    it.assume(z3.And(N >= (1 if nonempty else 0), z3.Int("nt0") >= 0, z3.Int("nt0") <= N))
    it.path.assume(reserved_facts(), check=False)
    return lx


def nt(lexer):
    return zi(lexer.fields["nextToken"])


class AbsNodeFactory:
    """Nodes returned by sub-parsers: opaque ids whose class is decided lazily, the first time the function under
    contract asks (isinstance) -- so only the paths that look at a node's class fork on it."""
    CLASSES = ("NodeIdentifier", "NodeReturn", "NodeBlock", "NodeList")

    def __init__(self, w):
        self.w = w
        self.nodes = w.import_module("ckl.nodes").ns

    def node(self, it, label="node"):
        return SElem(z3.Int(it.fresh(label)), "node")

    def memo(self, it, v):
        return it.ghost.setdefault("nodes", {}).setdefault(str(v.z), {})

    def cls_of(self, it, v):
        m = self.memo(it, v)
        if "cls" not in m:
            c = it.path.choose(len(self.CLASSES) + 1)
            m["cls"] = self.CLASSES[c] if c < len(self.CLASSES) else "other"
        return m["cls"]

    def isinstance(self, it, v, cl, n):
        if v.sort == "anyobj":
            if cl.name == "object":
                return True
            it.unsupported(f"isinstance({cl.name}) of an element of a havocked list of unknown element kind", n)
        if v.sort != "node":
            return cl.name == "object"
        if cl.name == "object":
            return True
        if cl.name not in self.nodes or self.nodes[cl.name] is not cl:
            return False
        if cl.name not in self.CLASSES:
            it.unsupported(f"isinstance of a parsed node against {cl.name}", n)
        return self.cls_of(it, v) == cl.name

    def attr(self, it, v, name, node):
        if v.sort != "node":
            it.unsupported(f"attribute {name} of an opaque {v.sort}", node)
        m = self.memo(it, v)
        if name in m:
            return m[name]
        if name == "pos":
            r = SElem(z3.Int(it.fresh("npos")), "pos")
        elif name == "collectVars":
            r = Builtin("ParsedNode.collectVars", lambda it_, a, k, n: None)
        elif name in ("hasFinally", "hasCatch"):
            r = Builtin("ParsedNode." + name, lambda it_, a, k, n: it_.fresh_bool(name))
        elif name.startswith(("add", "set")):
            # a mutator of some node class: the tree a sub-parser returned belongs to the program, it is not the caller's to change
            def mutator(it_, a, k, n, name=name):
                it_.check(f"frame:a-node-returned-by-a-sub-parser-is-not-modified ({name})", False, n)
                return None
            r = Builtin("ParsedNode." + name, mutator)
        else:
            c = self.cls_of(it, v)
            if c == "NodeIdentifier" and name == "value":
                r = it.fresh_str("ident")
            elif c == "NodeReturn" and name == "expression":
                r = self.node(it, "retexpr") if it.path.choose(2) == 0 else None
            elif c == "NodeBlock" and name in ("expressions", "catchexprs", "finallyexprs"):
                r = PList(sym=z3.Const(it.fresh(name), z3.SeqSort(z3.IntSort())), kind="node")
                r.fresh = False
                r.of_parsed_node = True
            elif c == "NodeBlock" and name == "toplevel":
                r = it.fresh_bool("toplevel")
            elif c == "NodeList" and name == "items":
                r = PList(sym=z3.Const(it.fresh("items"), z3.SeqSort(z3.IntSort())), kind="node")
                r.fresh = False
                r.of_parsed_node = True
            else:
                it.throw("AttributeError", f"'{c}' object has no attribute '{name}'", node)
        m[name] = r
        return r

    def setattr(self, it, v, name, value, node):
        self.memo(it, v)[name] = value

    def install(self, w):
        w.hooks["elem_isinstance"] = self.isinstance
        w.hooks["elem_attr"] = self.attr
        w.hooks["value_as_elem"] = lambda it, value, node: value if isinstance(value, SElem) else SElem(z3.Int(it.fresh("anyid")), "any")
        # lists havocked by a loop contract without a declared element kind: their elements may be anything
        w.elem_kinds["any"] = (lambda it, z: SElem(z, "anyobj"), lambda it, v: z3.Int(it.fresh("anyid")))
        def wrap_pair(it, z):
            # an element of NodeBlock.catchexprs: [error expression or None (catch all), handler]
            memo = it.ghost.setdefault("pairs", {})
            key = str(z3.simplify(z))
            if key not in memo:
                err = self.node(it, "catcherr") if it.path.choose(2) == 0 else None
                memo[key] = PList([err, self.node(it, "handler")])
            return memo[key]

        def unwrap_pair(it, v):
            if isinstance(v, PList) and not v.is_sym() and len(v.items) == 2:
                z = z3.Int(it.fresh("pair"))
                it.ghost.setdefault("pairs", {})[str(z)] = v
                return z
            return None
        w.elem_kinds["catchpair"] = (wrap_pair, unwrap_pair)
        w.elem_kinds["node"] = (lambda it, z: SElem(z, "node"), lambda it, v: v.z if isinstance(v, SElem) and v.sort == "node" else z3.Int(it.fresh("nodeid")))


def parser_units(w, prop, only=None):
    V = Vals(w)
    U = []
    parser = w.import_module("ckl.parser").ns
    lexns = w.import_module("ckl.lexer").ns
    NF = AbsNodeFactory(w)
    errs = w.import_module("ckl.errors").ns
    allfuncs = [n for n, f in parser.items() if isinstance(f, PyFunc) and f.module.name == "ckl.parser"]

    def syntax_error(it, lexer):
        e = Obj(errs["CklSyntaxError"], {"msg": it.fresh_str("msg"), "pos": SElem(z3.Int(it.fresh("epos")), "pos"), "args": ()})
        e.fields["_from_callee"] = True
        return e

    def callee(name):
        """contract of a sub-parser at a call site"""
        def handler(it, a, k, node):
            lexer = [x for x in list(a) + list(k.values()) if isinstance(x, Obj) and x.cls.name == "Lexer"][0]
            cur = nt(lexer)
            # pre: the lexer invariant
            it.check(f"pre:{name}:lexer-invariant", z3.And(cur >= 0, cur <= N), node)
            if not it.path.branch(N >= 1):
                # on an empty token list Lexer.getPos / getPosNext call each other without end: the host stack overflows.
                # (A RecursionError is a possible outcome of any recursive-descent parse; parse_script must turn it into a
                # syntax error -- see the parse_script unit.)
                it.throw("RecursionError", "maximum recursion depth exceeded", node)
            if it.path.choose(2) == 1:
                raise PyRaise(syntax_error(it, lexer))
            new = it.fresh_int("nt")
            if name in STRICT:
                it.assume(z3.And(new.z > cur, new.z <= N))
            elif name in LITERALS:
                it.assume(z3.And(new.z > cur, new.z <= N))
            elif name in POSTFIX:
                mine = z3.BoolVal(False)
                for val, typ in POSTFIX[name]:
                    mine = z3.Or(mine, z3.And(cur < N, z3.Select(TV, cur) == z3.StringVal(val), z3.Select(TT, cur) == z3.StringVal(typ)))
                it.assume(z3.And(new.z >= cur, new.z <= N, z3.Implies(mine, new.z > cur)))
            else:
                it.assume(z3.And(new.z >= cur, new.z <= N))
            lexer.fields["nextToken"] = new
            if name == "_deref":
                return PList([NF.node(it, name), it.fresh_bool("interrupt")])
            return NF.node(it, name)
        return handler

    ABS = {n: callee(n) for n in STRICT + LITERALS + list(POSTFIX)}

    def default_loop(it, fn, ordinal, node, frame):
        lexer = frame.locals.get("lexer")
        if lexer is None:
            # loops of node constructors over what the parser collected (no cursor involved)
            return Loop(lambda st: [], modifies=["*reachable*"]) if isinstance(node, ast.For) else None
        entry_nt = nt(lexer)

        def inv(st):
            cur = nt(st["lexer"])
            return [cur >= entry_nt, cur <= N, cur >= 0]
        if isinstance(node, ast.For):
            # loops over node items (no token consumption needed): invariant only
            return Loop(inv, modifies=["lexer.nextToken", "*reachable*"])
        return Loop(inv, modifies=["lexer.nextToken", "*reachable*"], decreases=lambda st: mk_int(N - nt(st["lexer"])))

    def fn_unit(name):
        fn = parser[name]
        params = [p.arg for p in fn.node.args.args]

        def setup(it):
            lexer = make_lexer(w, it)
            args = []
            for p in params:
                if p == "lexer":
                    args.append(lexer)
                elif p in ("toplevel", "unary_minus"):
                    args.append(it.path.choose(2) == 1)
                elif p == "token":
                    # the opening token that the caller has just consumed
                    it.assume(z3.Int("nt0") >= 1)
                    args.append(lexer.fields["tokens"].getitem(it, mk_int(z3.Int("nt0") - 1), None))
                elif p in ("node", "expr"):
                    args.append(NF.node(it, p))
                elif p == "pos":
                    args.append(SElem(z3.Int("argpos"), "pos"))
                elif p == "fn":
                    args.append("is_numerical")
                else:
                    args.append(NF.node(it, p))
            return args, {}, {"lexer": lexer}

        def body(it, c):
            args, _, _ = c["args"]
            return Outcome("return", it.call_func(fn, args, {}))

        def setup2(it):
            a = setup(it)
            a[2]["args"] = a
            return a

        def post(it, c, o):
            lexer = c["lexer"]
            cur, start = nt(lexer), z3.Int("nt0")
            # (the tail-return rewrite of NodeLambda.setBody replaces the last statement `return e` of a body block by `e`:
            #  an element replacement, the only write to a parsed node that is part of the design)
            foreign = [(type(obj).__name__, what) for obj, what, _ in it.writes if getattr(obj, "of_parsed_node", False) and what != "[]="]
            it.check("frame:nodes-returned-by-sub-parsers-are-not-modified", not foreign, detail=str(foreign[:3]))
            gw = [x[1] for x in it.effects if x[0] == "global-write"]
            it.check("frame:no-module-level-state-is-written (the outcome of a parse depends on the text alone)", not gw, detail=str(gw[:3]))
            if o.kind == "raise":
                if o.exc.fields.get("_from_callee"):
                    it.check("raises:callee-syntax-error-propagates", True)
                    return
                p = o.exc.fields.get("pos")
                it.check("raises:syntax-error-carries-message-and-position", o.exc.fields.get("msg") is not None and p is not None,
                         detail=f"pos={p!r}")
                return
            it.check("post:cursor-stays-within-the-token-list", z3.And(cur >= 0, cur <= N))
            if prop == "C20" and isinstance(o.value, Obj) and "pos" in o.value.fields:
                # a node built here is positioned at one of the tokens of its construct: a token this function consumed, or (for
                # the helpers entered after the opening token / on a postfix operator) the token just before the entry cursor
                pz = o.value.fields["pos"]
                if isinstance(pz, SElem) and z3.is_app(pz.z) and pz.z.decl().name() == "TOKPOS":
                    j = pz.z.arg(0)
                    slack = 0 if name in STRICT else 1
                    it.check("post:the-node-is-positioned-at-a-token-of-its-construct", z3.And(j >= start - slack, j < cur), detail=str(pz.z))
                else:
                    it.check("post:the-node-has-a-position", pz is not None)
            if name in STRICT:
                it.check("post:returns-a-node-after-consuming-at-least-one-token", z3.And(o.value is not None, cur > start))
            elif name in LITERALS:
                it.check("post:returns-a-node-after-consuming-at-least-the-closing-token", z3.And(o.value is not None, cur > start))
            elif name in POSTFIX and POSTFIX[name]:
                mine = z3.BoolVal(False)
                for val, typ in POSTFIX[name]:
                    mine = z3.Or(mine, z3.And(start < N, z3.Select(TV, start) == z3.StringVal(val), z3.Select(TT, start) == z3.StringVal(typ)))
                it.check("post:progress-when-entered-on-its-own-token", z3.And(o.value is not None, cur >= start, z3.Implies(mine, cur > start)))
            else:
                it.check("post:returns-a-node-cursor-not-moved-backwards", z3.And(o.value is not None, cur >= start))
        u = Unit(f"parser.py::{name}", setup2, post, name=f"parser.py::{name}[abstract token stream]", body=body, allowed=("CklSyntaxError",),
                 abstractions=ABS, config={"default_loop": default_loop, "max_unroll": 30, "max_depth": 30, "local_kinds": {"identifiers": "str", ".expressions": "node", ".finallyexprs": "node", ".catchexprs": "catchpair"}, "merge_boolops": True},
                 replay=replay_fuzz, prepare=NF.install)
        return u
    for name in STRICT + LITERALS + list(POSTFIX):
        if name in parser and (only is None or name in only):
            U.append(fn_unit(name))
    if only is not None:
        return U

    # parse(lexer): entry point
    def s_parse(it):
        lexer = make_lexer(w, it, nonempty=False)     # parse() itself accepts what scan() returns: any token list
        it.assume(z3.Int("nt0") == 0)
        return [lexer], {}, {"lexer": lexer, "args": ([lexer], {}, {})}

    def p_parse(it, c, o):
        if o.kind == "raise" and o.exc_class == "RecursionError":
            return
        if o.kind == "raise":
            if not o.exc.fields.get("_from_callee"):
                it.check("raises:syntax-error-carries-message-and-position", o.exc.fields.get("msg") is not None and o.exc.fields.get("pos") is not None)
            return
        it.check("post:a-program-is-returned-only-when-all-tokens-were-consumed", z3.And(o.value is not None, nt(c["lexer"]) == N))
    U.append(Unit("parser.py::parse", s_parse, p_parse, name="parser.py::parse[abstract token stream]", allowed=("CklSyntaxError", "RecursionError"),
                  abstractions=ABS, config={"default_loop": default_loop, "merge_boolops": True}, body=lambda it, c: Outcome("return", it.call_func(parser["parse"], c["args"][0], {})),
                  replay=replay_fuzz, prepare=NF.install))

    # parse_script(script, filename) = parse(Lexer(script, filename).scan()): scan() and parse() by their contracts
    def s_script(it):
        return [it.fresh_str("script"), it.fresh_str("filename")], {}, {}

    def scan_contract(it, a, k, node):
        lx = a[0]
        # contracts/lexstep.py (scanner units): scan() terminates, raises only CklSyntaxError(msg, pos), returns the lexer
        # itself holding a token list of any length (possibly empty) with the cursor at 0
        if it.path.choose(2) == 1:
            raise PyRaise(syntax_error(it, lx))
        it.assume(N >= 0)
        lx.fields["tokens"] = ScriptAbs(SInt(N), lambda it_, idx, n_: it_.unsupported("token access in parse_script"))
        lx.fields["nextToken"] = 0
        it.ghost["scanned"] = lx
        return lx

    def parse_contract(it, a, k, node):
        lx = a[0]
        it.check("pre:parse:the-freshly-scanned-lexer-with-cursor-0", lx is it.ghost.get("scanned") and lx.fields.get("nextToken") == 0, node)
        c = it.path.choose(3)
        if c == 1:
            raise PyRaise(syntax_error(it, lx))
        if c == 2:
            it.throw("RecursionError", "maximum recursion depth exceeded", node)      # nesting deeper than the host stack
        r = NF.node(it, "program")
        it.ghost["program"] = r
        return r

    def p_script(it, c, o):
        if o.kind == "raise":
            it.check("raises:a-syntax-error-of-scan-or-parse-or-the-converted-stack-overflow", bool(o.exc.fields.get("_from_callee")) or
                     (o.exc.fields.get("msg") is not None and o.exc.fields.get("pos") is not None))
            return
        it.check("post:returns-a-program", o.value is not None)
        # the program is the one parsed from *this* text under *this* file name: scanned and parsed by this call, nothing kept
        # from or for another call (a tree from an earlier parse would carry the earlier call's file name in every position)
        it.check("post:the-program-is-what-this-call's-parse-returned", o.value is it.ghost.get("program"))
        gw = [x[1] for x in it.effects if x[0] == "global-write"]
        kept = [(type(obj).__name__, what) for obj, what, _ in it.writes if not getattr(obj, "fresh", True)]
        it.check("frame:no-module-level-state-is-read-or-written-by-parse_script", not gw and not kept, detail=str((gw + kept)[:3]))
    U.append(Unit("parser.py::parse_script", s_script, p_script, allowed=("CklSyntaxError",),
                  abstractions={"Lexer.scan": scan_contract, "parse": parse_contract}, replay=replay_fuzz, prepare=NF.install))

    # lexer cursor methods against the abstract token list
    def cursor_unit(meth, extra=None):
        def setup(it):
            lexer = make_lexer(w, it)
            args = [lexer] + (extra(it) if extra else [])
            return args, {}, {"lexer": lexer}

        def post(it, c, o):
            cur, start = nt(c["lexer"]), z3.Int("nt0")
            if o.kind == "raise":
                it.check("raises:syntax-error-with-position", o.exc.fields.get("pos") is not None and o.exc.fields.get("msg") is not None)
                if meth in ("next", "peek", "match", "matchIdentifier"):
                    it.check("raises:end-of-input-or-mismatch-cursor-within-list", z3.And(cur >= 0, cur <= N))
                return
            it.check("post:cursor-within-the-token-list", z3.And(cur >= 0, cur <= N))
            if meth == "next":
                it.check("post:advances-by-one", cur == start + 1)
            if meth in ("peek", "hasNext", "peekn", "peekOne", "getPos", "getPosNext"):
                it.check("post:cursor-unchanged", cur == start)
            if meth in ("getPos", "getPosNext"):
                it.check("post:position-is-not-None", o.value is not None)
            if meth == "hasNext":
                r = o.value
                it.check("post:hasNext-iff-cursor-before-the-end", (r.z if isinstance(r, SBool) else z3.BoolVal(bool(r))) == (start < N))
        return Unit(f"lexer.py::Lexer.{meth}", setup, post, allowed=("CklSyntaxError",), config={"max_depth": 12}, replay=replay_fuzz)
    for meth, extra in (("hasNext", None), ("next", None), ("peek", None), ("getPos", None), ("getPosNext", None),
                        ("match", lambda it: [it.fresh_str("tok"), it.fresh_str("typ")]), ("matchIdentifier", None),
                        ("peekn", lambda it: [1 + it.path.choose(3), it.fresh_str("tok"), it.fresh_str("typ")]),
                        ("matchIf", lambda it: [it.fresh_str("tok"), it.fresh_str("typ")]),
                        ("matchIf", lambda it: [PList([it.fresh_str("t1"), it.fresh_str("t2")]), it.fresh_str("typ")])):
        u = cursor_unit(meth, extra)
        if meth == "matchIf":
            u.name += "[list]" if any(x.name == u.name for x in U) else ""
        U.append(u)
    return U


def replay_fuzz(fail):
    from . import c01
    for b in c01.bounded("quick", 0):
        if b.failures:
            f = dict(b.failures[0])
            f["reproduced"] = True
            return f
    return {"reproduced": False}
