"""C07 - Comparison is a total order per kind and sorting agrees with it."""
import itertools
import z3

from pyvc.verify import Unit, Outcome
from pyvc.interp import Loop
from pyvc.values import SInt, SStr, SElem, SBool, Obj, PList, zi, zr, zs, zb, mk_bool, mk_int
from pyvc.world import dt_key, World
from pyvc.runner import BoundedResult
from .common import Vals, Stubs, StubFuncs, real_env, I, cls_name
from .c06 import veq, as_z, _real, KINDS

MANIFEST_ENTRY = {
    "category": "proof",
    "text": "__lt__ of every data kind is executed symbolically and proved equal to the stated order (numeric across int/decimal, code-point lexicographic strings, FALSE<TRUE, chronological dates, lexicographic lists); the derived operators and compare/less/less_equals/greater/greater_equals are proved consistent with it; the order is proved a strict total order (z3 lemmas); sorted enumeration of sets/map keys is wired to sorted(); sorted() itself (insertion sort) is proved an ordered, stable permutation for lists up to length 4/5 (symbolic-bounded); min/max (Checkerlang code) by bounded enumeration; min and max of core.ckl on the module's real AST for lists of <= 3 symbolic ints and the two-argument form, with and without key functions: the first element whose key no other key beats (symbolic-bounded)",
    "note": "functools.total_ordering and reflected operators modelled after CPython 3.11; host sorted() assumed ascending and stable for a strict weak order; list comparison: spine <= 2 (symbolic-bounded); sorted(): length bound stated",
    "technique": "deductive verification: pyvc VCs from the real AST + z3; symbolic-bounded unrolling for sorted(); bounded runtime contracts for min/max",
}
PROPERTY = "C07"
LEVEL = "proof"
TRUSTED = ["functools.total_ordering derives > <= >= from __lt__ and __eq__ as in CPython 3.11",
           "z3 str.< is code-point lexicographic order with a proper prefix first",
           "host sorted() returns the ascending stable arrangement under __lt__"]
ASSUMPTIONS = ["cross-kind comparisons are outside the property (values of one kind)",
               "list elements are abstract ids ordered by an uninterpreted strict total order (induction hypothesis)"]
EXPLANATION = "per-kind proof of __lt__ == vlt, consistency of derived operators and natives, order lemmas, sorting contracts"

ORDERED = ["true", "false", "int", "decimal", "string", "date", "pattern"]
ELT = z3.Function("elem_rank", z3.IntSort(), z3.IntSort())   # abstract elements are ordered by an injective rank


def vlt(k1, x, k2, y):
    if k1 in ("int", "decimal") and k2 in ("int", "decimal"):
        return zr(x.fields["value"]) < zr(y.fields["value"])
    if k1 in ("true", "false") and k2 in ("true", "false"):
        return k1 == "false" and k2 == "true"
    assert k1 == k2, (k1, k2)
    if k1 in ("string", "pattern"):
        return zs(x.fields["value"]) < zs(y.fields["value"])
    if k1 == "date":
        return dt_key(x.fields["value"]) < dt_key(y.fields["value"])
    raise ValueError(k1)


def same_order_kind(k1, k2):
    num = ("int", "decimal")
    bl = ("true", "false")
    return (k1 in num and k2 in num) or (k1 in bl and k2 in bl) or (k1 == k2 and k1 in ("string", "date", "pattern"))


def install_elem_order(world):
    def elem_order(it, t, a, b):
        import ast
        x, y = ELT(a.z), ELT(b.z)
        return mk_bool({ast.Lt: x < y, ast.LtE: x <= y, ast.Gt: x > y, ast.GtE: x >= y}[t])
    world.hooks["elem_order"] = elem_order


def units(w):
    V = Vals(w)
    S = Stubs(w)
    F = StubFuncs(w)
    U = []
    vals = w.import_module("ckl.values").ns
    funcs = w.import_module("ckl.functions").ns
    KCLS = {"true": "ValueBoolean", "false": "ValueBoolean", "int": "ValueInt", "decimal": "ValueDecimal",
            "string": "ValueString", "date": "ValueDate", "pattern": "ValuePattern", "list": "ValueList"}
    import ast as _ast
    OPS = {"<": _ast.Lt, "<=": _ast.LtE, ">": _ast.Gt, ">=": _ast.GtE}

    def truthy(it, r):
        if isinstance(r, SBool):
            return r.z
        return z3.BoolVal(bool(it.truth(r)))

    # ------------------------------------------------------------------ operators on same-kind pairs
    def mk_pair(k1, k2):
        def setup(it):
            return [], {}, {"x": V.of_kind(it, k1, "x"), "y": V.of_kind(it, k2, "y")}
        return setup

    def op_unit(k1, k2, sym):
        def body(it, c):
            return Outcome("return", it.compare(OPS[sym](), c["x"], c["y"], None))

        def post(it, c, o):
            lt = as_z(vlt(k1, c["x"], k2, c["y"]))
            gt = as_z(vlt(k2, c["y"], k1, c["x"]))
            eq = as_z(veq(V, k1, c["x"], k2, c["y"]))
            want = {"<": lt, "<=": z3.Or(lt, eq), ">": gt, ">=": z3.Or(gt, eq)}[sym]
            it.check(f"post:truthiness-of-({sym})-is-the-stated-order", truthy(it, o.value) == want)
        return Unit(f"values.py::{KCLS[k1]}.__lt__", mk_pair(k1, k2), post, name=f"values.py::{KCLS[k1]}.__lt__[{k1} {sym} {k2}]",
                    body=body, allowed=(), replay=replay_order)
    for k1 in ORDERED:
        for k2 in ORDERED:
            if same_order_kind(k1, k2):
                for sym in OPS:
                    U.append(op_unit(k1, k2, sym))

    # ------------------------------------------------------------------ lists: lexicographic (spine <= 2, elements abstract)
    def list_unit(n1, n2, sym):
        def setup(it):
            x = V.list_of(it, [SElem(z3.Int(f"a{i}")) for i in range(n1)], "x")
            y = V.list_of(it, [SElem(z3.Int(f"b{i}")) for i in range(n2)], "y")
            # elements: rank is injective on ids (ids are values modulo equality)
            ids = [z3.Int(f"a{i}") for i in range(n1)] + [z3.Int(f"b{i}") for i in range(n2)]
            for p, q in itertools.combinations(ids, 2):
                it.assume(z3.Implies(ELT(p) == ELT(q), p == q))
            return [], {}, {"x": x, "y": y, "n1": n1, "n2": n2}

        def body(it, c):
            return Outcome("return", it.compare(OPS[sym](), c["x"], c["y"], None))

        def lex(a, b):
            if not a:
                return z3.BoolVal(len(b) > 0)
            if not b:
                return z3.BoolVal(False)
            return z3.Or(ELT(a[0]) < ELT(b[0]), z3.And(a[0] == b[0], lex(a[1:], b[1:])))

        def post(it, c, o):
            a = [z3.Int(f"a{i}") for i in range(n1)]
            b = [z3.Int(f"b{i}") for i in range(n2)]
            lt, gt = lex(a, b), lex(b, a)
            eq = z3.And(*[p == q for p, q in zip(a, b)]) if n1 == n2 else z3.BoolVal(False)
            want = {"<": lt, "<=": z3.Or(lt, eq), ">": gt, ">=": z3.Or(gt, eq)}[sym]
            it.check(f"post:list-({sym})-is-lexicographic", truthy(it, o.value) == want)
        return Unit("values.py::ValueList.__lt__", setup, post, name=f"values.py::ValueList.__lt__[len {n1} {sym} len {n2}]",
                    body=body, allowed=(), prepare=install_elem_order, bounded="list spines of length <= 2, elements abstract",
                    replay=replay_order)
    for n1 in range(3):
        for n2 in range(3):
            for sym in OPS:
                U.append(list_unit(n1, n2, sym))

    # ------------------------------------------------------------------ natives: compare / less / ...
    def nat_unit(clsname, k1, k2):
        def setup(it):
            x, y = V.of_kind(it, k1, "x"), V.of_kind(it, k2, "y")
            f = Obj(funcs[clsname], {"name": clsname, "secure": True})
            return [f, V.args(it, {"a": x, "b": y}), V.env(it), V.pos(it, "cpos")], {}, {"x": x, "y": y}

        def post(it, c, o):
            lt = as_z(vlt(k1, c["x"], k2, c["y"]))
            gt = as_z(vlt(k2, c["y"], k1, c["x"]))
            eq = as_z(veq(V, k1, c["x"], k2, c["y"]))
            it.check("post:returns", o.kind == "return")
            if clsname == "FuncCompare":
                it.check("post:returns-ValueInt", cls_name(o.value) == "ValueInt")
                r = zi(o.value.fields["value"])
                it.check("post:-1-iff-less", (r == -1) == lt)
                it.check("post:1-iff-greater", (r == 1) == gt)
                it.check("post:0-iff-equal", (r == 0) == eq)
            else:
                it.check("post:returns-boolean-singleton", o.value is V.TRUE or o.value is V.FALSE)
                want = {"FuncLess": lt, "FuncLessEquals": z3.Or(lt, eq), "FuncGreater": gt, "FuncGreaterEquals": z3.Or(gt, eq)}[clsname]
                it.check("post:agrees-with-the-order", z3.BoolVal(o.value is V.TRUE) == want)
        return Unit(f"functions.py::{clsname}.execute", setup, post, name=f"functions.py::{clsname}.execute[{k1},{k2}]",
                    allowed=(), replay=replay_order)
    for clsname in ("FuncCompare", "FuncLess", "FuncLessEquals", "FuncGreater", "FuncGreaterEquals"):
        for k1, k2 in [("int", "int"), ("int", "decimal"), ("decimal", "int"), ("decimal", "decimal"), ("string", "string"),
                       ("true", "false"), ("false", "true"), ("true", "true"), ("date", "date")]:
            U.append(nat_unit(clsname, k1, k2))

    # ------------------------------------------------------------------ order lemmas
    def lemma(name, build, prefer="z3"):
        def body(it, c):
            for nm, f in build():
                it.check("lemma:" + nm, f, assume=False)
            return Outcome("return", None)
        return Unit(None, lambda it: ([], {}, {}), None, name="lemma::" + name, body=body, canary=False, config={"prefer": prefer})

    def l_num():
        a, b, c = z3.Reals("a b c")
        return [("numeric:irreflexive", z3.Not(a < a)), ("numeric:asymmetric", z3.Implies(a < b, z3.Not(b < a))),
                ("numeric:transitive", z3.Implies(z3.And(a < b, b < c), a < c)),
                ("numeric:trichotomy", z3.And(z3.Or(a < b, a == b, b < a), z3.Not(z3.And(a < b, a == b)), z3.Not(z3.And(a < b, b < a))))]
    U.append(lemma("numeric-order-is-strict-total", l_num))

    def l_str():
        s, t, u = z3.Strings("s t u")
        return [("string:irreflexive", z3.Not(s < s)), ("string:asymmetric", z3.Implies(s < t, z3.Not(t < s))),
                ("string:trichotomy", z3.Or(s < t, s == t, t < s)),
                ("string:proper-prefix-first", z3.Implies(z3.And(z3.PrefixOf(s, t), s != t), s < t)),
                ("string:transitive", z3.Implies(z3.And(s < t, t < u), s < u))]
    U.append(lemma("string-order-is-strict-total-prefix-first", l_str, prefer="cvc5"))

    # ------------------------------------------------------------------ sorted enumeration is wired to sorted()
    def sorted_wiring(target, kind):
        marker = {}

        def prepare(world):
            def hook(it, items, src, n, kw):
                marker["src"] = src
                marker["kw"] = {k_: v_ for k_, v_ in kw.items() if v_ is not None}
                out = PList(list(items))
                marker["out"] = out
                return out
            world.hooks["sorted"] = hook

        def setup(it):
            marker.clear()
            if kind == "set":
                v = V.set_of(it, [SElem(z3.Int("e0")), SElem(z3.Int("e1"))], "st")
            else:
                v = V.map_of(it, [(SElem(z3.Int("e0")), SElem(z3.Int("w0"), "val")), (SElem(z3.Int("e1")), SElem(z3.Int("w1"), "val"))], "m")
            it.assume(z3.Int("e0") != z3.Int("e1"))
            return [v], {}, {"v": v}

        def post(it, c, o):
            from pyvc.interp import DictView
            src = marker.get("src")
            ok = o.kind == "return" and o.value is marker.get("out")
            it.check("post:returns-sorted(host-container)", ok)
            it.check("post:sorted-by-the-value-order-itself (no key function, not reversed)", not marker.get("kw"), detail=str(list(marker.get("kw", {}))))
            if kind == "set":
                it.check("post:sorted-over-the-elements", src is c["v"].fields["value"])
            else:
                it.check("post:sorted-over-the-keys", (isinstance(src, DictView) and src.kind == "keys" and src.d is c["v"].fields["value"])
                         or src is c["v"].fields["value"])
        return Unit(target, setup, post, prepare=prepare, allowed=())
    U.append(sorted_wiring("values.py::ValueSet.getSortedItems", "set"))
    U.append(sorted_wiring("values.py::ValueMap.getSortedKeys", "map"))

    # ------------------------------------------------------------------ sorted(): ordered stable permutation (symbolic-bounded)
    RANK = z3.Function("key_rank", z3.IntSort(), z3.IntSort())

    def sorted_unit(n, with_key, thorough_only=False):
        def setup(it):
            elems = [SElem(z3.Int(f"e{i}")) for i in range(n)]
            lst = V.list_of(it, elems, "lst")
            for p, q in itertools.combinations(range(n), 2):
                it.assume(z3.Int(f"e{p}") != z3.Int(f"e{q}"))

            def cmp_beh(it_, vals):
                a, b = vals
                d = RANK(a.z) - RANK(b.z)
                r = Obj(vals_ns["ValueInt"], {"value": mk_int(z3.If(d < 0, -1, z3.If(d > 0, 1, 0)))})
                return r

            def key_beh(it_, vals):
                return vals[0]
            vals_ns = vals
            cmp = F.func("cmp", ["a", "b"], cmp_beh)
            key = F.func("key", ["obj"], key_beh)
            env = real_env(w, it, {"compare": cmp, "identity": key})
            m = {"lst": lst}
            if with_key:
                m["cmp"] = cmp
                m["key"] = key
            f = Obj(funcs["FuncSorted"], {"name": "sorted", "secure": True})
            return [f, V.args(it, m, ["lst", "cmp", "key"]), env, V.pos(it, "cpos")], {}, {"lst": lst, "n": n}

        def post(it, c, o):
            it.check("post:returns-a-new-ValueList", o.kind == "return" and cls_name(o.value) == "ValueList" and o.value is not c["lst"]
                     and o.value.fields["value"] is not c["lst"].fields["value"])
            out = o.value.fields["value"].items
            it.check("post:same-length", len(out) == n)
            if len(out) != n:
                return
            ids = [z3.Int(f"e{i}") for i in range(n)]
            outz = [x.z for x in out]
            it.check("post:permutation", z3.And(*[z3.Or(*[oz == e for oz in outz]) for e in ids]) if n else True)
            it.check("post:ordered", z3.And(*[RANK(outz[i]) <= RANK(outz[i + 1]) for i in range(n - 1)]) if n > 1 else True)
            # stability: equal keys keep their input order. position of input element i in the output:
            pos_of = lambda e: z3.Sum([z3.If(outz[p] == e, p, 0) for p in range(n)]) if n else I(0)
            stab = [z3.Implies(RANK(ids[i]) == RANK(ids[j]), pos_of(ids[i]) < pos_of(ids[j]))
                    for i in range(n) for j in range(i + 1, n)]
            it.check("post:stable", z3.And(*stab) if stab else True)
            it.check("post:argument-list-unchanged", [x.z for x in c["lst"].fields["value"].items] == ids
                     if all(isinstance(x, SElem) for x in c["lst"].fields["value"].items) else False)
        u = Unit("functions.py::FuncSorted.execute", setup, post, name=f"functions.py::FuncSorted.execute[n={n},{'cmp+key' if with_key else 'defaults'}]",
                 allowed=(), bounded=f"list length {n} (all key orders symbolic)", replay=replay_sorted, config={"max_unroll": 200})
        u.thorough_only = thorough_only
        return u
    for n in range(0, 5):
        U.append(sorted_unit(n, False))
    U.append(sorted_unit(3, True))
    U.append(sorted_unit(5, False, thorough_only=True))
    # ---- min / max are written in Checkerlang (core.ckl): on the module's real AST (contracts/cklsym.py) with lists of <= 3 symbolic ints
    #      and the two-argument form, with and without a key function: the result is an element whose key no other element's key
    #      beats (the first such element)
    import sys as _sys
    from . import cklsym

    def s_minmax(fname, n, keytxt, two):
        def setup(it):
            I_ = cklsym.native_session(())
            R = cklsym.Reflector(w)
            R.seed_singletons(_sys.modules["ckl.values"])
            env = R.reflect(I_.environment)
            xs = [V.int(it, f"x{i}") for i in range(n)]
            if two:
                text, binds = f"{fname}(p, q{keytxt})", {"p": xs[0], "q": xs[1]}
            else:
                text, binds = f"{fname}(a{keytxt})", {"a": V.list_of(it, xs, "a")}
            call = R.reflect(_sys.modules["ckl.parser"].parse_script(text, "unit"))
            it.ghost["xs"] = xs
            it.ghost["res"] = it.call(w.func(f"nodes.py::{cls_name(call)}.evaluate"), [call, real_env(w, it, binds, parent=env)])
            return [], {}, {}
        return setup

    def p_minmax(fname, n, keyf):
        def post(it, c, o):
            r, xs = it.ghost["res"], [zi(x.fields["value"]) for x in it.ghost["xs"]]
            it.check("post:returns-an-int", cls_name(r) == "ValueInt")
            if cls_name(r) != "ValueInt":
                return
            rz = zi(r.fields["value"])
            better = (lambda a, b: keyf(a) < keyf(b)) if fname == "min" else (lambda a, b: keyf(a) > keyf(b))
            it.check("post:an-element-whose-key-no-other-element's-key-beats", z3.And(z3.Or(*[rz == x for x in xs]), *[z3.Not(better(x, rz)) for x in xs]))
            first = xs[-1]
            for i in range(len(xs) - 2, -1, -1):
                first = z3.If(z3.And(*[z3.Not(better(x, xs[i])) for x in xs]), xs[i], first)
            it.check("post:the-first-such-element", keyf(rz) == keyf(first))
        return post
    for fname in ("min", "max"):
        for keytxt, keyf, klabel in (("", lambda v: v, "no key"), (", key = fn(v) 0 - v", lambda v: 0 - v, "key -v"), (", key = fn(v) v * v", lambda v: v * v, "key v*v")):
            for n in (1, 2, 3):
                U.append(Unit("nodes.py::invoke", s_minmax(fname, n, keytxt, False), p_minmax(fname, n, keyf), body=lambda it, c: Outcome("return", None),
                              name=f"core.ckl::{fname}[real module source, list of {n} symbolic ints, {klabel}]", bounded="lists of <= 3 elements (values symbolic)",
                              replay=replay_order))
            U.append(Unit("nodes.py::invoke", s_minmax(fname, 2, keytxt, True), p_minmax(fname, 2, keyf), body=lambda it, c: Outcome("return", None),
                          name=f"core.ckl::{fname}[real module source, two arguments, {klabel}]", bounded="two symbolic ints", replay=replay_order))

    return U


# ----------------------------------------------------------------------------- replay / bounded

def order_pool(v):
    import datetime
    def lst(*xs):
        r = v.ValueList()
        for x in xs:
            r.addItem(x)
        return r
    return {
        "bool": [v.FALSE, v.TRUE],
        "num": [v.ValueInt(-1), v.ValueInt(0), v.ValueDecimal(0.5), v.ValueInt(1), v.ValueDecimal(1.0), v.ValueInt(2 ** 60), v.ValueDecimal(float(2 ** 61))],
        "string": [v.ValueString(x) for x in ["", " ", "!", "'", "(", "a", "a b", "a'", "ab", "b", "\\", "\n", "é"]],
        "date": [v.ValueDate(datetime.datetime(1999, 12, 31)), v.ValueDate(datetime.datetime(2000, 1, 1)), v.ValueDate(datetime.datetime(2000, 1, 1, 0, 0, 1))],
        "list": [lst(), lst(v.ValueInt(1)), lst(v.ValueInt(1), v.ValueInt(0)), lst(v.ValueInt(2)), lst(v.ValueDecimal(1.0), v.ValueInt(5))],
    }


def py_key(v, x):
    if isinstance(x, v.ValueList):
        return [py_key(v, e) for e in x.value]
    return x.value


def check_pool(v, limit=1):
    fails, ev = [], 0
    for kind, xs in order_pool(v).items():
        for a in xs:
            for b in xs:
                ev += 1
                ka, kb = py_key(v, a), py_key(v, b)
                exp = (ka < kb, ka <= kb, ka > kb, ka >= kb)
                try:
                    obs = (bool(a < b), bool(a <= b), bool(a > b), bool(a >= b))
                except Exception as e:
                    obs = repr(e)
                if obs != exp:
                    fails.append({"id": f"bounded:order[{kind}]", "input": f"{a!r} ? {b!r}", "observed": str(obs), "expected": f"(<,<=,>,>=) = {exp}"})
    return fails, ev


def replay_order(fail):
    v = _real()
    fails, _ = check_pool(v)
    if fails:
        f = fails[0]
        f["reproduced"] = True
        return f
    return {"reproduced": False}


def _interp():
    import importlib
    _real()
    return importlib.import_module("ckl.interpreter").Interpreter(True, False)


SORT_CASES = [("sorted([[1, 'b'], [0, 'a'], [1, 'a'], [0, 'b']], key = fn(x) x[0])", "[[0, 'a'], [0, 'b'], [1, 'b'], [1, 'a']]"),
              ("sorted([3, 1, 2])", "[1, 2, 3]"), ("def l = [3, 1, 2]; sorted(l); l", "[3, 1, 2]"),
              ("sorted([2, 1.0, 1, 2.0], cmp = fn(a, b) compare(int(a), int(b)))", "[1.0, 1, 2, 2.0]"),
              ("sorted(['b', 'a b', 'a'])", "['a', 'a b', 'b']"), ("sorted([TRUE, FALSE, TRUE])", "[FALSE, TRUE, TRUE]")]


def replay_sorted(fail):
    it = _interp()
    for src, exp in SORT_CASES:
        try:
            obs = str(it.interpret(src, "-"))
        except Exception as e:
            obs = repr(e)
        if obs != exp:
            return {"reproduced": True, "input": src, "observed": obs, "expected": exp}
    return {"reproduced": False}


def bounded(tier, seed):
    import time
    import random
    t0 = time.time()
    v = _real()
    fails, ev = check_pool(v)
    r1 = BoundedResult("order laws on real value objects", "all ordered pairs within 5 same-kind pools", ev, ev, fails[:3],
                       ["'a' vs 'a b'"], "guards the spec order against CPython", time.time() - t0)
    # min / max / sorted at language level (min, max are Checkerlang library code): enumeration
    t1 = time.time()
    it = _interp()
    pools = {"num": ["0", "1", "1.0", "2", "-3", "2.5"], "str": ["'a'", "'a b'", "'b'", "''", "'B'"], "bool": ["TRUE", "FALSE"]}
    pykey = {"0": 0, "1": 1, "1.0": 1.0, "2": 2, "-3": -3, "2.5": 2.5, "'a'": "a", "'a b'": "a b", "'b'": "b", "''": "", "'B'": "B", "TRUE": True, "FALSE": False}
    maxlen = 5 if tier == "thorough" else 4
    f2, ev2 = [], 0
    rnd = random.Random(seed)
    for kind, pool in pools.items():
        for n in range(1, maxlen + 1):
            combos = list(itertools.product(pool, repeat=n))
            if len(combos) > 1500:
                combos = rnd.sample(combos, 1500)
            for combo in combos:
                ev2 += 1
                src_list = "[" + ", ".join(combo) + "]"
                keys = [pykey[c] for c in combo]
                exp_sorted = [c for _, c in sorted(zip(keys, range(n)), key=lambda t: t[0])]
                try:
                    got_min = it.interpret(f"min({src_list})", "-")
                    got_max = it.interpret(f"max({src_list})", "-")
                    got_sorted = it.interpret(f"sorted({src_list})", "-")
                    ok = (got_min.value == min(keys) and got_max.value == max(keys)
                          and [x.value for x in got_sorted.value] == sorted(keys)
                          and [type(x.value) for x in got_sorted.value] == [type(keys[i]) for i in exp_sorted])
                    obs = f"min={got_min} max={got_max} sorted={got_sorted}"
                except Exception as e:
                    ok, obs = False, repr(e)
                if not ok and len(f2) < 3:
                    f2.append({"id": "bounded:min-max-sorted", "input": src_list, "observed": obs,
                               "expected": f"min={min(keys)} max={max(keys)} sorted stable"})
    r2 = BoundedResult("min/max/sorted at language level (min, max are library code written in Checkerlang)",
                       f"lists of length <= {maxlen} over same-kind pools (sampled to 1500 per length)", ev2, ev2, f2,
                       ["min([1, 1.0, 2])"], "runtime contract: minimum/maximum under the order; sorted stable", time.time() - t1)
    return [r1, r2]
