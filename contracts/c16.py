"""C16 - Only documented mutators change their arguments; aliases see mutations.

Frame (`modifies`) obligations on the symbolic heap: every write performed by a built-in or node must hit an object
allocated during the call, or the declared target of a documented mutator; results of non-mutating operations are
containers allocated during the call; reads return the stored object itself (reference sharing).
"""
import z3

from pyvc.verify import Unit, Outcome
from pyvc.interp import Loop, PyRaise
from pyvc.values import SInt, SStr, SElem, SBool, Obj, PList, PDict, PSet, PyClass, HeapObj, zi, zs
from pyvc.runner import BoundedResult
from .common import Vals, Stubs, StubFuncs, real_env, I, cls_name, date_abstractions
from . import c13

MANIFEST_ENTRY = {
    'category': 'proof',
    'text': "for every built-in inside the engine's subset and every kind combination of its arguments, each heap write is proved to hit an object allocated during the call or the declared target of a documented mutator (append, insert_at, delete_at, remove, put, element/member assignment), changing exactly the targeted position/key; results of non-mutating operations are proved to be containers allocated during the call (no aliasing of an argument's host container); identifier lookup, argument passing and container literals are proved to store and return the same object (reference sharing); library code written in Checkerlang and the remaining built-ins are covered by before/after argument snapshots in the pool enumeration (bounded); destructuring (for-loop rows, def, assignment) does not write the destructured value (padding happens in a copy); member assignment to an inherited member writes the target, not the prototype; def leaves the bound value as it is (a named function keeps its name); a function definition evaluates neither its default expressions nor its body (defaults are evaluated at each call: no container shared between calls); results of library functions written in Checkerlang hold no container of the argument at any depth (units on the real AST); look-then-mutate programs for every container kind (bounded)",
    'note': 'collection arguments are small shapes with symbolic payloads (symbolic-bounded); callbacks abstract; one known finding: string element assignment overwrites the payload of the shared string object',
    'technique': 'deductive verification: frame obligations collected by pyvc on the symbolic heap + z3; bounded before/after snapshots for CKL library code',
}
PROPERTY = "C16"
LEVEL = "proof"
UNIT_BUDGET_S = 400
TRUSTED = ["the engine records every write to a host list/dict/set/object field (append, insert, del, item and attribute assignment)"]
ASSUMPTIONS = ["callbacks passed to built-ins are abstract and do not write", "stream built-ins may write their stream; set_seed/random the generator state"]
EXPLANATION = "frame obligations per built-in and node; allocation freshness of results; reference sharing; bounded snapshots for library code"

# documented in-place mutators: name of the argument that may be written
MUTATORS = {"FuncAppend": "lst", "FuncInsertAt": "lst", "FuncDeleteAt": "lst", "FuncRemove": "lst", "FuncPut": "m"}
# functions that return one of their arguments by design (no fresh container expected)
IDENTITY_LIKE = {"FuncIdentity", "FuncIfNull", "FuncIfEmpty", "FuncIfNullOrEmpty", "FuncList", "FuncSet", "FuncMap", "FuncObject",
                 "FuncString", "FuncAppend", "FuncInsertAt", "FuncDeleteAt", "FuncRemove", "FuncPut", "FuncDate", "FuncPattern",
                 "FuncBoolean", "FuncInt", "FuncDecimal"}


def containers_of(v, acc, depth=0):
    if isinstance(v, Obj):
        pv = v.fields.get("value")
        if isinstance(pv, (PList, PDict, PSet)):
            acc.append(pv)
            items = pv.items if isinstance(pv, (PList, PSet)) and pv.items is not None else []
            if isinstance(pv, PDict):
                items = [e[1] for e in pv.entries] + [e[0] for e in pv.entries]
            if depth < 3:
                for x in items:
                    containers_of(x, acc, depth + 1)


def units(w):
    V = Vals(w)
    S = Stubs(w)
    F = StubFuncs(w)
    U = []
    funcs = w.import_module("ckl.functions").ns
    vals = w.import_module("ckl.values").ns
    nodes = w.import_module("ckl.nodes").ns
    VF = vals["ValueFunc"]
    DATE_ABS = date_abstractions(w)
    ATOMIC = ("ValueString", "ValueInt", "ValueDecimal", "ValueBoolean", "ValueDate", "ValuePattern", "ValueNull")

    def check_frame(it, la_entries, allowed_target, o, unit_kind):
        allowed_objs = []
        if allowed_target is not None:
            for k, v in la_entries:
                if k == allowed_target and isinstance(v, Obj):
                    allowed_objs.append(v)
                    if isinstance(v.fields.get("value"), HeapObj):
                        allowed_objs.append(v.fields["value"])
        bad = []
        atomic = []
        for obj, attr, node in it.writes:
            if isinstance(obj, Obj) and obj.cls.name in ATOMIC and attr == "value":
                # strings, numbers, dates ... are values: nothing may overwrite their payload after construction
                atomic.append((obj, attr, node))
                continue
            if any(obj is a for a in allowed_objs):
                continue
            if isinstance(obj, Obj) and obj.cls.name in ("CklRuntimeError",) or (isinstance(obj, Obj) and attr in ("info", "pos", "name")):
                # error objects / documentation and position metadata are not language-visible state of a value
                continue
            if isinstance(obj, Obj) and obj.cls.name in ATOMIC and attr == "value":
                atomic.append((obj, attr, node))
                continue
            bad.append((obj, attr, node))
        from pyvc.source import anchor
        if bad:
            obj, attr, node = bad[0]
            it.path.fail(f"{it.target}#frame:write-outside-modifies@{anchor(node) if node is not None else attr}",
                         detail=f"writes {attr} of argument object {obj!r}")
        else:
            it.check("frame:writes-only-to-fresh-objects-or-declared-target", True)
        if atomic:
            obj, attr, node = atomic[0]
            it.path.fail(f"{it.target}#frame:atomic-payload-immutable@{anchor(node) if node is not None else attr}",
                         detail=f"overwrites the payload of {obj.cls.name} in place")

    # ------------------------------------------------------------------ natives: frame + freshness of results
    for cname in sorted(funcs):
        cls = funcs[cname]
        if not (isinstance(cls, PyClass) and cls is not VF and cls.issubclass(VF) and "execute" in cls.methods):
            continue
        if cname in c13.SKIP:
            continue
        gan = cls.methods.get("getArgNames")
        try:
            names = [n_.value for n_ in gan.node.body[0].value.elts]
        except Exception:
            continue
        if any(n.endswith("...") for n in names):
            continue

        def setup(it, cls=cls, names=names):
            f = Obj(cls, {"name": cls.name, "secure": True, "info": ""})
            f.fresh = False
            la = c13.LazyArgs(V, F, names[:3], c13.KINDS)
            args = Obj(vals["Args"], {"argNames": PList(list(names)), "args": la, "restArgName": None, "pos": V.pos(it)})
            args.fresh = False
            env = real_env(w, it, {"compare": F.func("compare", ["a", "b"], lambda it_, vs: V.int(it_, it_.fresh("cmp"))),
                                   "identity": F.func("identity", ["obj"], lambda it_, vs: vs[0])})
            it.global_overlay[("ckl.functions", "seed")] = SInt(z3.Int("seed0"))      # module invariant (C13): the generator state is a number
            return [f, args, env, V.pos(it, "cpos")], {}, {"la": la}

        def post(it, c, o, cname=cname):
            la = c["la"]
            check_frame(it, la.entries, MUTATORS.get(cname), o, "native")
            if o.kind == "return" and isinstance(o.value, Obj) and cname not in IDENTITY_LIKE:
                pv = o.value.fields.get("value")
                if isinstance(pv, (PList, PDict, PSet)):
                    acc = []
                    for k, v in la.entries:
                        containers_of(v, acc)
                    it.check("post:result-container-allocated-by-the-call(no alias of an argument)",
                             not any(pv is x for x in acc))
        U.append(Unit(f"functions.py::{cname}.execute", setup, post, name=f"functions.py::{cname}.execute[frame, all kinds]",
                      abstractions=DATE_ABS, config={"max_unroll": 12, "max_depth": 40}, prepare=c13.install_streams,
                      replay=replay_frame(cname)))

    # ------------------------------------------------------------------ element / member assignment: exactly the container
    NK = [k for k in c13.KINDS if k != "absent"]
    holder = {}

    def child(name):
        def outcome(it, env):
            k = NK[it.path.choose(len(NK))]
            v = c13.make_value(V, F, it, k, name)
            holder[name] = v
            return v
        return S.node(name, outcome)

    def s_assign(it):
        holder.clear()
        node = Obj(nodes["NodeDerefAssign"], {"expression": child("c"), "index": child("i"), "value": child("v"), "pos": V.pos(it)})
        node.fresh = False
        return [node, real_env(w, it, {})], {}, {}

    def p_assign(it, c, o):
        cont = holder.get("c")
        check_frame(it, [("c", cont)] if cont is not None else [], "c", o, "node")
        if o.kind == "return":
            it.check("post:returns-the-container-itself", o.value is cont)
    U.append(Unit("nodes.py::NodeDerefAssign.evaluate", s_assign, p_assign, name="nodes.py::NodeDerefAssign.evaluate[frame, all kinds]",
                  config={"max_unroll": 12}, prepare=c13.install_streams, replay=replay_string_assign))

    # member assignment on an object that inherits the member: the targeted object gets its own member, the prototype (shared
    # with other objects) is not written
    def s_assign_proto(depth):
        def setup(it):
            protos = [V.object_of(it, [("m", V.int(it, f"inherited{i}"))] if i == depth - 1 else [], f"p{i}") for i in range(depth)]
            for i in range(depth - 1):
                protos[i].fields["value"].entries.append(["_proto_", protos[i + 1]])
            o = V.object_of(it, [("own", V.int(it, "own")), ("_proto_", protos[0])], "o")
            v = V.int(it, "newvalue")
            node = Obj(nodes["NodeDerefAssign"], {"expression": S.node("c", o), "index": S.node("i", V._mk("ValueString", {"value": "m"})),
                                                  "value": S.node("v", v), "pos": V.pos(it)})
            node.fresh = False
            return [node, real_env(w, it, {})], {}, {"o": o, "protos": protos, "v": v,
                                                     "before": [list(map(list, p_.fields["value"].entries)) for p_ in protos]}
        return setup

    def p_assign_proto(it, c, o):
        check_frame(it, [("c", c["o"])], "c", o, "node")
        it.check("post:returns-normally", o.kind == "return")
        own = {e[0]: e[1] for e in c["o"].fields["value"].entries}
        it.check("post:the-targeted-object-holds-the-new-member-itself", own.get("m") is c["v"])
        it.check("post:every-prototype-is-unchanged", all([list(e) for e in p_.fields["value"].entries] == b for p_, b in zip(c["protos"], c["before"])))
    for depth in (1, 2, 3):
        U.append(Unit("nodes.py::NodeDerefAssign.evaluate", s_assign_proto(depth), p_assign_proto,
                      name=f"nodes.py::NodeDerefAssign.evaluate[member inherited through {depth} prototype(s)]", prepare=c13.install_streams,
                      bounded="prototype chains of depth <= 3", replay=replay_string_assign))

    # ------------------------------------------------------------------ reads and literals share references
    def s_ident(it):
        v = V.list_sym(it, "l")
        env = real_env(w, it, {"x": v})
        node = Obj(nodes["NodeIdentifier"], {"value": "x", "pos": V.pos(it)})
        return [node, env], {}, {"v": v}
    U.append(Unit("nodes.py::NodeIdentifier.evaluate", s_ident,
                  lambda it, c, o: (it.check("post:returns-the-stored-object-itself", o.kind == "return" and o.value is c["v"]),
                                    it.check("frame:no-writes", len(it.writes) == 0)), allowed=()))

    def s_literal(it):
        v = V.list_sym(it, "l")
        node = Obj(nodes["NodeLiteral"], {"value": v, "pos": V.pos(it)})
        return [node, real_env(w, it, {})], {}, {"v": v}
    U.append(Unit("nodes.py::NodeLiteral.evaluate", s_literal,
                  lambda it, c, o: it.check("post:returns-the-same-object", o.kind == "return" and o.value is c["v"]), allowed=()))

    def s_listlit(it):
        a, b = V.list_sym(it, "a"), V.set_sym(it, "b")
        node = Obj(nodes["NodeList"], {"items": PList([S.node("i0", a), S.node("i1", b)]), "pos": V.pos(it)})
        return [node, real_env(w, it, {})], {}, {"a": a, "b": b}

    def p_listlit(it, c, o):
        items = o.value.fields["value"].items if o.kind == "return" else []
        it.check("post:literal-holds-the-element-objects-themselves", len(items) == 2 and items[0] is c["a"] and items[1] is c["b"])
        it.check("frame:no-writes-to-elements", len(it.writes) == 0)
    U.append(Unit("nodes.py::NodeList.evaluate", s_listlit, p_listlit, allowed=()))

    def s_put(it):
        v = V.list_sym(it, "l")
        env = real_env(w, it, {})
        return [env, "x", v], {}, {"v": v, "env": env}

    def p_put(it, c, o):
        ent = [e for e in c["env"].fields["map"].entries if e[0] == "x"]
        it.check("post:binding-holds-the-object-itself(no copy)", len(ent) == 1 and ent[0][1] is c["v"])
    U.append(Unit("functions.py::Environment.put", s_put, p_put, allowed=()))

    def install_order(world):
        from .c07 import install_elem_order
        install_elem_order(world)

    # destructuring (for-loop rows, def, assignment) reads the row: shorter rows are padded in a copy, never in place
    def s_destr(kind, nid):
        def setup(it):
            row = V.list_sym(it, "row") if kind == "list" else V.set_of(it, [SElem(z3.Int(f"m{i}")) for i in range(2)], "row")
            node = Obj(nodes["NodeFor"], {"identifiers": PList([f"v{i}" for i in range(nid)]), "expression": None, "block": None, "what": None, "pos": V.pos(it)})
            node.fresh = False
            return [node, row], {}, {"row": row, "old": row.fields["value"].sym if kind == "list" else None}
        return setup

    def p_destr(it, c, o):
        it.check("frame:the-row-is-not-written (padding happens in a copy)", len(it.writes) == 0, detail=str([(type(x[0]).__name__, x[1]) for x in it.writes][:3]))
        if c["old"] is not None:
            it.check("frame:the-row's-spine-is-unchanged", c["row"].fields["value"].sym is c["old"])
        if o.kind == "return":
            it.check("post:at-least-as-many-values-as-loop-variables", True)
    for kind in ("list", "set"):
        for nid in (1, 2, 3):
            U.append(Unit("nodes.py::NodeFor.destructure", s_destr(kind, nid), p_destr, name=f"nodes.py::NodeFor.destructure[frame, {kind} row, {nid} variables]",
                          allowed=("CklRuntimeError",), prepare=install_order))

    def s_destr_stmt(which):
        def setup(it):
            row = V.list_sym(it, "row")
            fields = {"identifiers": PList(["a", "b", "c"]), "expression": S.node("e", row), "pos": V.pos(it)}
            if which == "NodeDefDestructuring":
                fields["info"] = ""
            env = real_env(w, it, {"a": V.NULL, "b": V.NULL, "c": V.NULL})
            return [Obj(nodes[which], fields), env], {}, {"row": row, "old": row.fields["value"].sym, "env": env}
        return setup

    def p_destr_stmt(it, c, o):
        bad = [(type(x[0]).__name__, x[1]) for x in it.writes if (x[0] is c["row"] or x[0] is c["row"].fields["value"]) and x[1] != "info"]
        it.check("frame:the-destructured-value-is-not-written", not bad and c["row"].fields["value"].sym is c["old"], detail=str(bad[:3]))
    for which in ("NodeDefDestructuring", "NodeAssignDestructuring"):
        U.append(Unit(f"nodes.py::{which}.evaluate", s_destr_stmt(which), p_destr_stmt, name=f"nodes.py::{which}.evaluate[frame]", allowed=("CklRuntimeError",)))

    # def binds the value itself and leaves it as it is: a function that already has a name keeps it (library functions written
    # in the language store their parameters in local variables with def)
    def s_def(kind):
        def setup(it):
            if kind == "named function":
                v = F.func("first_name", ["x"], lambda it_, vs: vs[0])
                lam = w.import_module("ckl.functions").ns.get("FuncLambda")
                if lam is not None:
                    v = Obj(lam, {"name": "first_name", "argNames": PList(["x"]), "defValues": PList([None]), "body": S.node("b", V.NULL),
                                  "lexicalEnv": real_env(w, it, {}), "info": "", "secure": True, "serial": 7})
                    v.fresh = False
            elif kind == "anonymous function":
                lam = w.import_module("ckl.functions").ns["FuncLambda"]
                v = Obj(lam, {"name": "lambda", "argNames": PList(["x"]), "defValues": PList([None]), "body": S.node("b", V.NULL),
                              "lexicalEnv": real_env(w, it, {}), "info": "", "secure": True, "serial": 7})
                v.fresh = False
            else:
                v = c13.make_value(V, F, it, kind, "v")
            node = Obj(nodes["NodeDef"], {"identifier": "second_name", "expression": S.node("e", v), "info": "", "pos": V.pos(it)})
            env = real_env(w, it, {})
            return [node, env], {}, {"v": v, "env": env, "name0": v.fields.get("name") if isinstance(v, Obj) else None}
        return setup

    def p_def(kind):
        def post(it, c, o):
            it.check("post:returns-the-value-itself", o.kind == "return" and o.value is c["v"])
            ent = [e for e in c["env"].fields["map"].entries if e[0] == "second_name"]
            it.check("post:binding-holds-the-value-itself(no copy)", len(ent) == 1 and ent[0][1] is c["v"])
            bad = [(type(x[0]).__name__, x[1]) for x in it.writes if x[1] not in ("info",) and x[0] is not c["env"] and x[0] is not c["env"].fields.get("map")
                   and not (kind == "anonymous function" and x[0] is c["v"] and x[1] == "name")]
            it.check("frame:def-writes-only-the-binding(and the documentation text; an anonymous function gets its first name)", not bad, detail=str(bad[:3]))
            if kind == "named function":
                it.check("post:a-function-that-has-a-name-keeps-it", c["v"].fields.get("name") == c["name0"])
        return post
    for kind in ("named function", "anonymous function", "list1", "map1", "object1", "string", "int"):
        U.append(Unit("nodes.py::NodeDef.evaluate", s_def(kind), p_def(kind), name=f"nodes.py::NodeDef.evaluate[frame, {kind}]", allowed=()))

    # a function definition evaluates nothing: its default expressions are kept as they are and evaluated at each call, so that two
    # calls never share a container made by a default (values produced by separate evaluations are independent)
    def s_lambda(it):
        dflt, body = S.node("default", V.list_of(it, [], "made_by_default")), S.node("body", V.NULL)
        node = Obj(nodes["NodeLambda"], {"args": PList(["x", "acc"]), "defs": PList([None, dflt]), "body": body, "pos": V.pos(it)})
        node.fresh = False
        return [node, real_env(w, it, {})], {}, {"dflt": dflt, "body": body}

    def p_lambda(it, c, o):
        it.check("post:returns-a-function-value", o.kind == "return" and cls_name(o.value) == "FuncLambda")
        it.check("post:no-default-expression-and-no-body-is-evaluated-at-definition-time", not [e for e in it.trace if e[0] == "eval"], detail=str(it.trace[:3]))
        if o.kind == "return" and cls_name(o.value) == "FuncLambda":
            dv = o.value.fields.get("defValues")
            it.check("post:the-function-holds-the-default-expressions-themselves(evaluated at each call)",
                     isinstance(dv, PList) and dv.items is not None and len(dv.items) == 2 and dv.items[0] is None and dv.items[1] is c["dflt"])
            it.check("post:and-the-body-itself", o.value.fields.get("body") is c["body"])
    U.append(Unit("nodes.py::NodeLambda.evaluate", s_lambda, p_lambda, name="nodes.py::NodeLambda.evaluate[defaults are not evaluated at definition time]", allowed=()))

    # library functions written in Checkerlang (on their real AST, contracts/cklsym.py): the argument list is left as it is and the
    # result is a container of its own (lists of 2 symbolic ints)
    import sys as _sys
    from . import cklsym

    def s_libfresh(text):
        def setup(it):
            I_ = cklsym.native_session(("List", "Set", "String"))
            R = cklsym.Reflector(w)
            R.seed_singletons(_sys.modules["ckl.values"])
            env = R.reflect(I_.environment)
            call = R.reflect(_sys.modules["ckl.parser"].parse_script(text, "unit"))
            xs = [V.int(it, f"x{i}") for i in range(2)]
            a = V.list_of(it, xs, "a")
            it.ghost["a"], it.ghost["xs"] = a, xs
            it.ghost["res"] = it.call(w.func(f"nodes.py::{cls_name(call)}.evaluate"), [call, real_env(w, it, {"a": a}, parent=env)])
            return [], {}, {}
        return setup

    def p_libfresh(it, c, o):
        a, xs, r = it.ghost["a"], it.ghost["xs"], it.ghost["res"]
        items = a.fields["value"].items
        it.check("frame:the-argument-list-holds-the-same-elements-as-before", items is not None and len(items) == 2 and all(x is y for x, y in zip(items, xs)))
        acc = []
        containers_of(r, acc)
        it.check("post:no-container-of-the-result-is-the-argument's(at any depth: a later mutation of the result cannot reach the argument)",
                 r is not a and not any(x is a.fields["value"] for x in acc))
    for text in ("List->reverse(a)", "List->unique(a)", "List->filter(a, fn(v) v > 0)", "List->map_list(a, fn(v) v)", "List->flatten([a])", "List->rest(a)",
                 "List->first_n(a, 2)", "List->last_n(a, 2)", "Set->union(a, a)", "Set->diff(a, [])", "pairs(a)", "enumerate(a)", "zip(a, a)", "chunks(a, 5)"):
        U.append(Unit("nodes.py::invoke", s_libfresh(text), p_libfresh, body=lambda it, c: Outcome("return", None),
                      name=f"library::{text}[real module source: argument unchanged, result not an alias]", bounded="lists of 2 symbolic ints",
                      replay=replay_frame("FuncAppend")))

    # ValueList.addItems rebinds instead of extending (a later mutation of the result must not reach the source list)
    def s_additems(it):
        dst = V.list_of(it, [], "dst")
        dst.fresh = True
        dst.fields["value"].fresh = True
        src = PList(sym=z3.Const("src", z3.SeqSort(z3.IntSort())))
        src.fresh = False
        return [dst, src], {}, {"dst": dst, "src": src, "old": src.sym}

    def p_additems(it, c, o):
        it.check("post:result-does-not-alias-the-source-list", c["dst"].fields["value"] is not c["src"])
        it.check("frame:source-list-not-written", c["src"].sym is c["old"] and not any(x[0] is c["src"] for x in it.writes))
    U.append(Unit("values.py::ValueList.addItems", s_additems, p_additems, allowed=()))
    return U


# ----------------------------------------------------------------------------- replay / bounded

def replay_frame(cname):
    def replay(fail):
        import re
        from . import poolenum
        nm = re.sub(r"(?<!^)(?=[A-Z])", "_", cname[4:]).lower()
        I = poolenum._interp()
        errs = __import__("sys").modules["ckl.errors"]
        prefix = "; ".join(f"require {m} unqualified" for m in poolenum.MODULES)
        I.interpret(prefix, "-")
        pool = ["[3, 1, 2]", "[[1, 2], [3, 4]]", "<<2, 1>>", "<<<'a' => 1>>>", "<*a=1*>", "'abc'", "1", "fn(x) x"]
        import itertools
        for ar in (1, 2, 3):
            for t in itertools.product(pool, repeat=ar):
                r = poolenum.run_case(I, errs, nm + "(" + ", ".join("{%d}" % i for i in range(ar)) + ")", t, cname in MUTATORS)
                if r is not None and r[0] == "C16":
                    return {"reproduced": True, "input": f"{nm}({', '.join(t)})", "observed": r[1], "expected": "arguments unchanged"}
        return {"reproduced": False}
    return replay


def replay_string_assign(fail):
    from . import poolenum
    I = poolenum._interp()
    src = "def f() 'abc'; def s = f(); s[0] = 'x'; f()"
    obs = str(I.interpret(src, "-"))
    if obs != "'abc'":
        return {"reproduced": True, "input": src, "observed": obs, "expected": "'abc'"}
    return {"reproduced": False}


def bounded(tier, seed):
    from . import poolenum
    total, fails, nj, wall = poolenum.enumerate_pool(tier, seed)
    out = []
    for f in fails:
        if f[0] != "C16":
            continue
        out.append({"id": f"bounded:snapshot[{f[1]}]", "input": f[2].format(*f[3]), "observed": f[4], "expected": "every argument renders the same before and after the call"})
    # alias graphs: mutation through one alias is visible through all, results of non-mutating operations are independent
    I = poolenum._interp()
    I.interpret("; ".join(f"require {m} unqualified" for m in poolenum.MODULES), "-")
    cases = [
        ("def a = [1, 2]; def b = a; append(b, 3); a", "[1, 2, 3]"),
        ("def a = [1, 2]; def m = <<<'k' => a>>>; append(m['k'], 3); a", "[1, 2, 3]"),
        ("def a = [1, 2]; def f(x) append(x, 9); f(a); a", "[1, 2, 9]"),
        ("def a = [1, 2]; def g = fn() a; append(g(), 7); a", "[1, 2, 7]"),
        ("def a = [1, 2]; def b = a + [3]; append(b, 4); a", "[1, 2]"),
        ("def a = [3, 1, 2]; def b = sorted(a); append(b, 0); a", "[3, 1, 2]"),
        ("def a = [1, 2, 3]; def b = sublist(a, 0); append(b, 4); a", "[1, 2, 3]"),
        ("def a = [1, 2, 3]; def b = a[0 to *]; append(b, 4); a", "[1, 2, 3]"),
        ("def a = <<1, 2>>; def b = a + <<3>>; append(b, 4); a", "<<1, 2>>"),
        ("def a = <<1, 2>>; def b = a - <<3>>; append(b, 4); a", "<<1, 2>>"),
        ("def a = [1, 2]; def b = a * 1; append(b, 4); a", "[1, 2]"),
        ("def a = [1, 2]; def b = zip(a, a); append(b[0], 4); a", "[1, 2]"),
        ("def a = [1, 2]; def b = set(a); append(b, 4); a", "[1, 2]"),
        ("def a = <<<1 => 2>>>; def b = a; put(b, 3, 4); a", "<<<1 => 2, 3 => 4>>>"),
        ("def o = <*x=1*>; def p = o; p->x = 2; o->x", "2"),
        ("def a = [1, 2, 3]; def b = a; b[0] = 9; a", "[9, 2, 3]"),
        ("def l = [1, 2, 3, 4]; permutations(l); l", "[1, 2, 3, 4]"),
        ("def a = [1, 2]; def b = [5]; append_all(b, a); append(b, 0); a", "[1, 2]"),
        ("def a = [[1], [2]]; def b = flatten(a); append(b, 3); a", "[[1], [2]]"),
        ("def a = [1, 1, 2]; def b = unique(a); append(b, 3); a", "[1, 1, 2]"),
        # containers made by default expressions, literals in function bodies and comprehensions are made anew by every evaluation
        ("def collect(x, acc = []) do append(acc, x); acc end; [collect(1), collect(2)]", "[[1], [2]]"),
        ("def reg(k, m = <<<>>>) do put(m, k, 1); m end; [reg('a'), reg('b')]", "[<<<'a' => 1>>>, <<<'b' => 1>>>]"),
        ("def tag(x, s = <<>>) do append(s, x); s end; [tag(1), tag(2)]", "[<<1>>, <<2>>]"),
        ("def mk(o = <*n = 0*>) do o->n = o->n + 1; o end; [mk()->n, mk()->n]", "[1, 1]"),
        ("def f = fn(x, acc = [[]]) do append(acc[0], x); acc end; [f(1), f(2)]", "[[[1]], [[2]]]"),
        ("def fresh() []; def a = fresh(); append(a, 1); fresh()", "[]"),
        ("def fresh() do def l = [0]; l end; def a = fresh(); append(a, 1); fresh()", "[0]"),
        ("def rows = [[] for i in range(2)]; append(rows[0], 1); rows", "[[1], []]"),
        ("def a = [1]; def f(x = a) do append(x, 2); x end; f(); a", "[1, 2]"),
        # a mutation is visible through every holder and every way of looking at the value - also after the value has been looked at
        # before (rendered, spread, converted, iterated): nothing remembered from an earlier look may survive a mutation
        ("def m = <<<'a' => 1>>>; def al = m; string(m); [k for k in keys m]; m['b'] = 2; [string(al) == string(<<<'a' => 1, 'b' => 2>>>), [k for k in keys al], string([al])]",
         "[TRUE, ['a', 'b'], '[<<<\\'a\\' => 1, \\'b\\' => 2>>>]']"),
        ("def m = <<<'a' => 1>>>; string(m); m->c = 3; [string(object(m)), string(m)]", "['<*a=1, c=3*>', '<<<\\'a\\' => 1, \\'c\\' => 3>>>']"),
        ("def f(x...) x; def m = <<<'a' => 1>>>; string(m); def g(mm) do mm['b'] = 2 end; g(m); [string(m), length(m), 'b' in m]", "['<<<\\'a\\' => 1, \\'b\\' => 2>>>', 2, TRUE]"),
        ("def m = <<<'a' => 1>>>; string(m); put(m, 'b', 2); remove(m, 'a'); string(m)", "'<<<\\'b\\' => 2>>>'"),
        ("def s = <<3, 1>>; def al = s; string(s); [x for x in s]; append(s, 2); [string(al), [x for x in al]]", "['<<1, 2, 3>>', [1, 2, 3]]"),
        ("def s = <<3, 1>>; string(s); remove(s, 3); string(s)", "'<<1>>'"),
        ("def l = [1]; def m = <<<'k' => l>>>; string(m); append(l, 2); [string(m), string(<<l>>)]", "['<<<\\'k\\' => [1, 2]>>>', '<<[1, 2]>>']"),
        ("def o = <*a = 1*>; def al = o; string(o); o->b = 2; [string(al), [k for k in keys al]]", "['<*a=1, b=2*>', ['a', 'b']]"),
        ("def l = [2, 1]; string(l); sorted(l); l[0] = 9; insert_at(l, 0, 7); delete_at(l, 2); string(l)", "'[7, 9]'"),
        # containers inside results of non-mutating library functions are not the argument itself
        ("def a = [1, 2]; def c = chunks(a, 5); append(c[0], 9); a", "[1, 2]"), ("def a = [1, 2]; def c = chunks(a, 2); append(c[0], 9); a", "[1, 2]"),
        ("def a = [1, 2, 3]; def c = chunks(a, 2); append(c[1], 9); a", "[1, 2, 3]"), ("def a = [1, 2]; def c = first_n(a, 5); append(c, 9); a", "[1, 2]"),
        ("def a = [1, 2]; def c = last_n(a, 5); append(c, 9); a", "[1, 2]"), ("def a = [1, 2]; def c = rest([0] + a); append(c, 9); a", "[1, 2]"),
    ]
    ev = 0
    for src, exp in cases:
        ev += 1
        try:
            obs = str(I.interpret(src, "-"))
        except Exception as e:
            obs = repr(e)
        if obs != exp:
            out.append({"id": "bounded:alias-graph", "input": src, "observed": obs, "expected": exp})
    return [BoundedResult("argument snapshots over the pool + alias-graph programs (real interpreter)",
                          f"{nj} call shapes x pool tuples (see C13) with before/after renderings; {len(cases)} alias programs",
                          total + ev, total + ev, out, [{"program": cases[4][0]}],
                          "runtime contract: non-mutators leave every argument rendering unchanged", wall)]
