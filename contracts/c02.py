"""C02 - Operators evaluate per the language definition; integer arithmetic is exact.

Part 1 (this file): arithmetic natives add/sub/mul/div/mod for every operand kind pair, boolean nodes and/or/not.
Part 2 (contracts/c02_parser.py, imported below): precedence chain, comparison chains, `is [not]` predicate forms.
"""
import z3

from pyvc.verify import Unit, Outcome
from pyvc.interp import Loop
from pyvc.values import SInt, SStr, SElem, SBool, SFloat, Obj, PList, zi, zr, zs, zb, mk_bool, mk_int
from pyvc.runner import BoundedResult
from .common import Vals, Stubs, real_env, runtime_error, events, z_tdiv, I, cls_name, date_abstractions

MANIFEST_ENTRY = {
    'category': 'proof',
    'text': 'add/sub/mul/div/mod are executed symbolically for every ordered pair of operand kinds: NULL gives NULL, int op int is a ValueInt holding exactly the mathematical result (div truncating toward zero, mod with |r|<|b| and b | a-r) for all integers, mixed numerics give a decimal, zero divisors give the language error, nothing but CklRuntimeError escapes; and/or/not are proved to short-circuit left to right and to accept only booleans (event-trace postconditions with abstract children); the precedence chain, comparison chains and all `is [not]` predicate forms of the parser are proved on an abstract token stream; parser part: every level of the precedence chain (or < and < not < comparison < additive < multiplicative < unary) is verified on an abstract token stream with a ghost call log - operands come only from the next tighter level, the level stops exactly at the first token that is not its operator, one iteration folds left-associatively into the built-in the operator denotes, a comparison chain appends op(lhs, rhs) and continues from rhs; `x is not P` = not(`x is P`) by a relational unit that runs the real parse_pred_expr on a token stream and on the same stream without the `not` and compares the trees field by field',
    'note': 'decimal results: kind and zero/NULL behaviour only (IEEE values not specified); parser sub-expressions are abstract callees (deterministic in the relational unit: same sub-parser on the same tokens gives the same node - an assumption about sub-parsers looking only forward, which their C01 cursor contracts support); composition to whole expression trees is structural induction on paper',
    'technique': 'deductive verification: pyvc VCs from the real AST + z3 (kind case split, exact integer specs, event traces)',
}
PROPERTY = "C02"
LEVEL = "proof"
TRUSTED = ["CPython int arithmetic is exact (// floors, % takes the sign of the divisor)"]
ASSUMPTIONS = ["decimal arithmetic values are whatever IEEE-754 gives; only the kind of the result is specified",
               "DIV_0_VALUE: when defined and truthy it is the documented result of a division by zero"]
EXPLANATION = "arithmetic natives against exact integer specs for every kind pair; boolean nodes by event traces; parser precedence by loop-step obligations"

KINDS = Vals.KINDS0   # collections with an empty spine: content-dependent behaviour belongs to C15/C16/C19
OPS = {"add": "FuncAdd", "sub": "FuncSub", "mul": "FuncMul", "div": "FuncDiv", "mod": "FuncMod"}


def units(w):
    V = Vals(w)
    S = Stubs(w)
    U = []
    funcs = w.import_module("ckl.functions").ns
    nodes = w.import_module("ckl.nodes").ns

    DATE_ABS = date_abstractions(w)

    # ------------------------------------------------------------------ arithmetic natives, every kind pair
    def arith_unit(op, k1, k2, div0=None):
        clsname = OPS[op]

        def setup(it):
            x, y = V.of_kind(it, k1, "a"), V.of_kind(it, k2, "b")
            f = Obj(funcs[clsname], {"name": op, "secure": True})
            binds = {}
            if div0 == "defined":
                binds["DIV_0_VALUE"] = V.int(it, "div0")
                it.assume(zi(binds["DIV_0_VALUE"].fields["value"]) != 0)
            env = real_env(w, it, binds)
            return [f, V.args(it, {"a": x, "b": y}), env, V.pos(it, "cpos")], {}, {"a": x, "b": y, "env": env, "div0": binds.get("DIV_0_VALUE")}

        def post(it, c, o):
            a, b = c["a"], c["b"]
            num = ("int", "decimal")
            if k1 in ("true", "false", "null") and k2 in ("true", "false", "null") and (k1 == "null" or k2 == "null") \
                    or (k1 == "null" and k2 in num) or (k2 == "null" and k1 in num):
                if "null" in (k1, k2):
                    it.check("post:NULL-operand-gives-NULL", o.kind == "return" and o.value is V.NULL) \
                        if (k1 in num + ("null",) and k2 in num + ("null",)) else None
            if k1 == "int" and k2 == "int":
                x, y = zi(a.fields["value"]), zi(b.fields["value"])
                if op in ("div", "mod"):
                    if o.kind == "raise":
                        it.check("raises:only-on-zero-divisor", y == 0)
                        it.check("raises:only-when-no-DIV_0_VALUE", c["div0"] is None or op == "mod")
                        return
                    if c["div0"] is not None and op == "div" and o.value is c["div0"]:
                        it.check("post:DIV_0_VALUE-only-on-zero-divisor", y == 0)
                        return
                    it.check("post:divisor-nonzero", y != 0)
                it.check("post:returns", o.kind == "return")
                it.check("post:int-op-int-is-ValueInt", cls_name(o.value) == "ValueInt")
                pv = o.value.fields["value"]
                it.check("post:payload-is-python-int", isinstance(pv, (int, SInt)) and not isinstance(pv, bool))
                if not isinstance(pv, (int, SInt)):
                    return
                r = zi(pv)
                if op == "add":
                    it.check("post:exact-sum", r == x + y)
                elif op == "sub":
                    it.check("post:exact-difference", r == x - y)
                elif op == "mul":
                    it.check("post:exact-product", r == x * y)
                elif op == "div":
                    it.check("post:exact-quotient-truncating-toward-zero", r == z_tdiv(x, y))
                else:
                    absr = z3.If(r >= 0, r, -r)
                    absy = z3.If(y >= 0, y, -y)
                    k = z3.Int("kq")
                    it.check("post:|a%b|<|b|", absr < absy)
                    it.check("post:b-divides-a-minus-(a%b)", z3.Exists([k], x - r == y * k))
                return
            if k1 in num and k2 in num:
                if o.kind == "raise":
                    big = z3.BoolVal(False)
                    for kk, vv in ((k1, a), (k2, b)):
                        if kk == "int":
                            iv = zi(vv.fields["value"])
                            big = z3.Or(big, iv >= 2 ** 1024, iv <= -(2 ** 1024))
                    it.check("raises:only-div/mod-by-zero-or-int-beyond-double-range",
                             z3.Or(z3.And(op in ("div", "mod"), zr(b.fields["value"]) == 0), big))
                    return
                if c["div0"] is not None and op == "div" and o.value is c["div0"]:
                    it.check("post:DIV_0_VALUE-only-on-zero-divisor", zr(b.fields["value"]) == 0)
                    return
                it.check("post:mixed-numerics-give-ValueDecimal", cls_name(o.value) == "ValueDecimal")
                it.check("post:payload-is-a-float", isinstance(o.value.fields["value"], (float, SFloat)))
                return
            # any other kind pair: a value or a language error (host exceptions are caught by `allowed`)
            it.check("post:value-or-language-error", o.kind in ("return", "raise"))
        name = f"functions.py::{clsname}.execute[{k1},{k2}]" + (f"[DIV_0_VALUE {div0}]" if div0 else "")
        loops = None
        return Unit(f"functions.py::{clsname}.execute", setup, post, name=name, loops=loops, replay=replay_arith(op),
                    abstractions=DATE_ABS)
    for op in OPS:
        for k1 in KINDS:
            for k2 in KINDS:
                U.append(arith_unit(op, k1, k2))
    for k1, k2 in (("int", "int"), ("int", "decimal"), ("decimal", "decimal")):
        U.append(arith_unit("div", k1, k2, div0="defined"))

    # ------------------------------------------------------------------ boolean nodes (event traces, abstract children)
    OUT = ["true", "false", "other", "error"]

    def bool_unit(nodecls, outcomes):
        n = len(outcomes)

        def setup(it):
            kids = []
            errs = []
            for i, oc in enumerate(outcomes):
                if oc == "true":
                    kids.append(S.node(f"c{i}", V.TRUE))
                elif oc == "false":
                    kids.append(S.node(f"c{i}", V.FALSE))
                elif oc == "other":
                    kids.append(S.node(f"c{i}", V.opaque(it, f"v{i}", excluding=("ValueBoolean",))))
                else:
                    e = runtime_error(w, it, V.opaque(it, f"ev{i}"), f"err{i}")
                    errs.append(e)
                    kids.append(S.node(f"c{i}", ("raise", e)))
            if nodecls == "NodeNot":
                node = Obj(nodes[nodecls], {"expression": kids[0], "pos": V.pos(it)})
            else:
                node = Obj(nodes[nodecls], {"expressions": PList(kids), "pos": V.pos(it)})
            node.fresh = False
            return [node, V.env(it)], {}, {"outcomes": outcomes, "errs": errs}

        def post(it, c, o):
            ev = events(it)
            stop_on = {"NodeAnd": "false", "NodeOr": "true"}.get(nodecls)
            # expected trace: children left to right until the first decisive / non-boolean / failing child
            exp, result = [], None
            for i, oc in enumerate(outcomes):
                exp.append(f"c{i}")
                if oc == "error":
                    result = ("raise-child", i)
                    break
                if oc == "other":
                    result = ("raise-type", i)
                    break
                if nodecls == "NodeNot":
                    result = ("value", V.FALSE if oc == "true" else V.TRUE)
                    break
                if oc == stop_on:
                    result = ("value", V.FALSE if nodecls == "NodeAnd" else V.TRUE)
                    break
            if result is None:
                result = ("value", V.TRUE if nodecls == "NodeAnd" else V.FALSE)
            it.check("post:children-evaluated-left-to-right-until-decided(short-circuit)", ev == exp)
            if result[0] == "value":
                it.check("post:result", o.kind == "return" and o.value is result[1])
            elif result[0] == "raise-type":
                it.check("post:non-boolean-operand-is-a-language-error", o.kind == "raise" and o.exc_class == "CklRuntimeError"
                         and o.exc not in c["errs"])
            else:
                it.check("post:child-error-propagates-unchanged", o.kind == "raise" and o.exc in c["errs"])
        return Unit(f"nodes.py::{nodecls}.evaluate", setup, post,
                    name=f"nodes.py::{nodecls}.evaluate[{','.join(outcomes)}]", replay=replay_bool,
                    bounded=None if nodecls == "NodeNot" else "operand lists of length <= 3, every combination of child outcomes (children abstract)")
    import itertools
    for nodecls in ("NodeAnd", "NodeOr"):
        for n in (0, 1, 2, 3):
            for outcomes in itertools.product(OUT, repeat=n):
                U.append(bool_unit(nodecls, outcomes))
    for oc in OUT:
        U.append(bool_unit("NodeNot", (oc,)))

    # the and/or loops for an arbitrary number of operands: loop-step contract over the ghost trace
    try:
        from .c02_parser import parser_units
        U.extend(parser_units(w))
    except ImportError:
        pass
    return U


# ----------------------------------------------------------------------------- replay / bounded

def _interp():
    import importlib
    import sys
    import os
    root = os.path.join(os.environ.get("VERIF_REPO", "/repo"), "src")
    if root not in sys.path:
        sys.path.insert(0, root)
    for m in [k for k in sys.modules if k == "ckl" or k.startswith("ckl.")]:
        del sys.modules[m]
    return importlib.import_module("ckl.interpreter").Interpreter(True, False)


BIG = [0, 1, -1, 2, -2, 3, 7, -7, 2 ** 53 + 1, -(2 ** 53) - 1, 2 ** 63 - 1, -(2 ** 63), 2 ** 64 + 3, 10 ** 30 + 7, -(10 ** 30) - 7]


def py_tdiv(a, b):
    q = abs(a) // abs(b)
    return q if (a < 0) == (b < 0) else -q


def arith_cases(op):
    sym = {"add": "+", "sub": "-", "mul": "*", "div": "/", "mod": "%"}[op]
    for a in BIG:
        for b in BIG:
            if op in ("div", "mod") and b == 0:
                yield f"({a}) {sym} ({b})", "ERR"
                continue
            if op == "add":
                e = a + b
            elif op == "sub":
                e = a - b
            elif op == "mul":
                e = a * b
            elif op == "div":
                e = py_tdiv(a, b)
            else:
                r = None
                yield f"def r = ({a}) {sym} ({b}); [type(r), abs(r) < abs({b}), (({a}) - r) / ({b}) * ({b}) == ({a}) - r]", "['int', TRUE, TRUE]"
                continue
            yield f"def r = ({a}) {sym} ({b}); [r, type(r)]", f"[{e}, 'int']"
    for src, exp in [(f"NULL {sym} 1", "NULL"), (f"1 {sym} NULL", "NULL"), (f"NULL {sym} NULL", "NULL"), (f"type(3 {sym} 2.0)", "'decimal'"),
                     (f"type(3.0 {sym} 2)", "'decimal'")]:
        yield src, exp


def replay_arith(op):
    def replay(fail):
        it = _interp()
        errs = __import__("ckl.errors").errors
        for src, exp in arith_cases(op):
            try:
                obs = str(it.interpret(src, "-"))
            except errs.CklRuntimeError:
                obs = "ERR"
            except Exception as e:
                obs = "HOST:" + repr(e)
            if obs != exp:
                return {"reproduced": True, "input": src, "observed": obs, "expected": exp}
        return {"reproduced": False}
    return replay


BOOL_CASES = [("def n = 0; def f() do n += 1; FALSE; end; [FALSE and f(), n]", "[FALSE, 0]"),
              ("def n = 0; def f() do n += 1; TRUE; end; [TRUE or f(), n]", "[TRUE, 0]"),
              ("def n = 0; def f() do n += 1; TRUE; end; [TRUE and f() and f(), n]", "[TRUE, 2]"),
              ("1 and TRUE", "ERR"), ("TRUE and 1", "ERR"), ("FALSE or 'x'", "ERR"), ("not 1", "ERR"), ("not TRUE", "FALSE"),
              ("FALSE and 1", "FALSE"), ("TRUE or 1", "TRUE")]


def replay_bool(fail):
    it = _interp()
    errs = __import__("ckl.errors").errors
    for src, exp in BOOL_CASES:
        try:
            obs = str(it.interpret(src, "-"))
        except errs.CklRuntimeError:
            obs = "ERR"
        except Exception as e:
            obs = "HOST:" + repr(e)
        if obs != exp:
            return {"reproduced": True, "input": src, "observed": obs, "expected": exp}
    return {"reproduced": False}


def predicate_forms():
    """the predicate words of parse_pred_expr, read from the tree's own source (first argument of lexer.matchIf)"""
    import ast
    import os
    src = open(os.path.join(os.environ.get("VERIF_REPO", "/repo"), "src", "ckl", "parser.py")).read()
    fn = [n for n in ast.parse(src).body if isinstance(n, ast.FunctionDef) and n.name == "parse_pred_expr"][0]
    out = []
    for n in ast.walk(fn):
        if isinstance(n, ast.Call) and isinstance(n.func, ast.Attribute) and n.func.attr == "matchIf" and n.args:
            a = n.args[0]
            words = [a.value] if isinstance(a, ast.Constant) else [e.value for e in a.elts] if isinstance(a, ast.List) else []
            w = " ".join(words)
            if w and w not in ("is", "not", "is not", "matches", "matches not", "in", "None") and w not in out \
                    and not any(x in w.split() for x in ("not", "starts", "ends", "contains")):
                out.append(w)
    return out


PRED_VALUES = ["NULL", "TRUE", "FALSE", "0", "-1", "5", "0.0", "-2.5", "''", "'a'", "'-1'", "'12'", "'ab12'", "'20200101'", "'2020010112'", "'1230'", "'x y'",
               "[]", "[1]", "<<>>", "<<1>>", "<<<>>>", "<<<1 => 2>>>", "<*a=1*>", "//a//", "date('20200101')", "fn(x) x", "length"]


def isnot_cases():
    def pair(pos, neg):
        return (f"def a = do {pos}; catch all 'ERR'; end; def b = do {neg}; catch all 'ERR'; end; "
                f"if a == 'ERR' or b == 'ERR' then a == b else b == (not a)", "TRUE")
    for p in predicate_forms():
        for v in PRED_VALUES:
            yield pair(f"({v}) is {p}", f"({v}) is not {p}")
    for v in ("'abc'", "''", "'a'", "'xabc'", "'abcx'"):
        for u in ("'a'", "'abc'", "''", "'c'", "'bc'"):
            yield pair(f"({v}) starts with {u}", f"({v}) starts not with {u}")
            yield pair(f"({v}) ends with {u}", f"({v}) ends not with {u}")
            yield pair(f"({v}) contains {u}", f"({v}) contains not {u}")
    for v in PRED_VALUES:
        for u in ("[1, 'a', NULL]", "<<1, 'a'>>", "'a1'", "<<<'a' => 1>>>"):
            yield pair(f"({v}) is in {u}", f"({v}) is not in {u}")
            yield pair(f"({v}) in {u}", f"({v}) not in {u}")
        for u in PRED_VALUES[:12]:
            yield pair(f"({v}) is {u}", f"({v}) is not {u}")


def precedence_cases(seed, n):
    """random expressions over small ints with + - * unary-, comparison chains, not/and/or: the language's precedence is
    CPython's for these operators, so CPython's own evaluation of the same text is the reference"""
    import random
    rnd = random.Random(seed)

    def arith(d):
        if d == 0 or rnd.random() < 0.3:
            return str(rnd.randint(0, 4))
        r = rnd.random()
        if r < 0.15:
            return "-" + arith(0)
        if r < 0.25:
            return "(" + arith(d - 1) + ")"
        return arith(d - 1) + " " + rnd.choice(["+", "-", "*"]) + " " + arith(d - 1)

    def cmp_(d):
        k = rnd.choice([1, 1, 2, 3])
        s = arith(d)
        for _ in range(k):
            s += " " + rnd.choice(["<", "<=", ">", ">=", "==", "!="]) + " " + arith(d)
        return s

    def boolean(d):
        if d == 0:
            return cmp_(1)
        r = rnd.random()
        if r < 0.2:
            return "not " + boolean(d - 1) if rnd.random() < 0.5 else "not " + cmp_(1)
        if r < 0.3:
            return "(" + boolean(d - 1) + ")"
        return boolean(d - 1) + " " + rnd.choice(["and", "or"]) + " " + boolean(d - 1)
    for _ in range(n):
        e = boolean(rnd.randint(1, 3)) if rnd.random() < 0.6 else arith(rnd.randint(1, 4))
        if "not not" in e:
            continue
        v = eval(e)
        yield e, ("TRUE" if v else "FALSE") if isinstance(v, bool) else str(v)


def _run_cases(it, errs, cases, ident):
    fails, ev = [], 0
    for src, exp in cases:
        ev += 1
        try:
            obs = str(it.interpret(src, "-"))
        except errs.CklRuntimeError as e:
            obs = "ERR"
        except Exception as e:
            obs = "HOST:" + repr(e)
        if obs != exp:
            fails.append({"id": ident, "input": src, "observed": obs, "expected": exp})
    return fails, ev


def replay_grammar(fail):
    it = _interp()
    errs = __import__("ckl.errors").errors
    for cases, ident in ((isnot_cases(), "bounded:is-not-is-negation"), (precedence_cases(0, 3000), "bounded:precedence")):
        f, _ = _run_cases(it, errs, cases, ident)
        if f:
            r = dict(f[0])
            r["reproduced"] = True
            return r
    return {"reproduced": False}


def bounded(tier, seed):
    import time
    t0 = time.time()
    it = _interp()
    errs = __import__("ckl.errors").errors
    fails, ev = [], 0
    for op in OPS:
        for src, exp in arith_cases(op):
            ev += 1
            try:
                obs = str(it.interpret(src, "-"))
            except errs.CklRuntimeError:
                obs = "ERR"
            except Exception as e:
                obs = "HOST:" + repr(e)
            if obs != exp:
                fails.append({"id": f"bounded:exact-int-arithmetic[{op}]", "input": src, "observed": obs, "expected": exp})
    for src, exp in BOOL_CASES:
        ev += 1
        try:
            obs = str(it.interpret(src, "-"))
        except errs.CklRuntimeError:
            obs = "ERR"
        except Exception as e:
            obs = "HOST:" + repr(e)
        if obs != exp:
            fails.append({"id": "bounded:boolean-operators", "input": src, "observed": obs, "expected": exp})
    t1 = time.time()
    f2, e2 = _run_cases(it, errs, isnot_cases(), "bounded:is-not-is-negation")
    f3, e3 = _run_cases(it, errs, precedence_cases(seed, 20000 if tier == "thorough" else 4000), "bounded:precedence")
    return [BoundedResult("exact integer arithmetic and boolean operators at language level (CPython cross-check)",
                          f"all ordered pairs of {len(BIG)} boundary integers (to 10^30) for + - * / %, NULL/decimal kinds, 10 short-circuit programs",
                          ev, ev, fails, ["(2**64+3) / (-7)"], "guards the engine's integer encoding and the spec functions against CPython",
                          t1 - t0),
            BoundedResult("predicate forms and precedence at language level",
                          f"every predicate word of parse_pred_expr (read from the source) x {len(PRED_VALUES)} values: `v is not P` == not `v is P`; "
                          f"`in`/`is` negations; random expressions (depth <= 4) over + - * unary -, comparison chains, not/and/or against CPython's evaluation of the same text",
                          e2 + e3, e2 + e3, (f2 + f3)[:10], ["def v = [1]; v is not list", "1 + 2 * 3 < 4 + 4 and not 2 < 1 <= 1"],
                          "cross-check and replay source for the parser contracts of part 2", time.time() - t1)]
