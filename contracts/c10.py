"""C10 - Interpreter sessions keep definitions and survive failed calls unchanged."""
import itertools
import z3

from pyvc.verify import Unit, Outcome
from pyvc.values import SInt, SStr, SElem, SBool, Obj, PList, PDict, zi, zs
from pyvc.runner import BoundedResult
from pyvc.world import BytesVal
from .common import Vals, cls_name
from .nodekit import NodeKit, trace, val_id, VAL, ERR, KIND
from .reqkit import Scenario, build, install, frame

MANIFEST_ENTRY = {
    'category': 'proof',
    'text': "require (the real NodeRequire.evaluate with an abstract file system, parser and module body) leaves the module load stack exactly as it found it on every exit - success, module not found, syntax error in the module, error while the module body runs, cycle - and adds a module to the cache only after its body ran to completion; a cycle is rejected before any other effect; Interpreter.interpret evaluates in the one persistent session environment (or in the caller's environment re-parented below it and restored on every exit) and parses before it evaluates, so a syntax error changes nothing; definitions are never undone (C03: put/set only add or overwrite); each interpreter allocates its own base frame, module table and load stack and no function under contract writes a class attribute or module global; sequences of session commands by bounded enumeration on real interpreters; get_base_environment returns a root frame allocated by the call with its own empty module table and load stack (a memoising decorator makes the result a shared object and fails this); the bounded histories are compared, call by call, with a reference session written from the property (names and values in scope, kind of outcome); a loop left by an error leaves the scope as it found it (units of the for node shared with C04)",
    'note': 'file system and pkgutil abstract (data, None or FileNotFoundError); module bodies abstract; the session-level statement is a lemma over these contracts plus C03, cross-checked by exhaustive command sequences up to length 4/5 (bounded)',
    'technique': 'deductive verification: pyvc VCs from the real AST over all exits (normal and exceptional) + z3; bounded command-sequence enumeration as cross-check',
}
PROPERTY = "C10"
LEVEL = "proof"
TRUSTED = ["CPython try/finally semantics as implemented by the engine"]
ASSUMPTIONS = ["file lookup abstract: some source text or none", "module bodies abstract"]
EXPLANATION = "exit-complete postconditions of require and interpret; instance separation by allocation freshness; bounded session sequences"


def units(w):
    V = Vals(w)
    K = NodeKit(w, V)
    U = []
    holder = {}
    funcs = w.import_module("ckl.functions").ns

    def req_unit(sc):
        def setup(it):
            K.axioms(it)
            node, importer, ctx = build(w, V, K, it, sc)
            holder["ctx"] = ctx
            ctx["stack0"] = list(ctx["base"].fields["modulestack"].items)
            ctx["modules0"] = [e[0] for e in ctx["base"].fields["modules"].entries]
            return [node, importer], {}, ctx

        def post(it, c, o):
            base = c["base"]
            it.check("post:module-load-stack-is-balanced-on-this-exit", list(base.fields["modulestack"].items) == c["stack0"],
                     detail=f"exit={o.kind}")
            mods = [e[0] for e in base.fields["modules"].entries]
            success = o.kind == "return"
            should_add = (not sc.cached) and success
            it.check("post:module-cached-iff-its-body-ran-to-completion",
                     mods == c["modules0"] + ([c["ident"]] if should_add else []))
            if sc.body != "ok" and not sc.cached and sc.source != "none":
                it.check("raises:failing-module-load-is-an-error", o.kind == "raise")
            if sc.source == "none" and not sc.cached:
                it.check("raises:missing-module-is-a-language-error", o.kind == "raise" and o.exc_class == "CklRuntimeError")
        u = Unit("nodes.py::NodeRequire.evaluate", setup, post, name=f"nodes.py::NodeRequire.evaluate[{sc}]",
                 allowed=("CklRuntimeError", "CklSyntaxError"), prepare=install(w, K, holder), replay=replay_sessions)
        u.abstractions = _Abs(holder)
        return u
    for cached in (False, True):
        for source in (("bundled", "userdir", "none", "bundled-missing-raises") if not cached else ("bundled",)):
            for body in (("ok", "raises", "syntax") if not cached and source not in ("none",) else ("ok",)):
                for form in ("plain", "unqualified"):
                    U.append(req_unit(Scenario(cached=cached, source=source, body=body, form=form)))

    # cycle: the identifier is already on the load stack
    def s_cycle(it):
        K.axioms(it)
        node, importer, ctx = build(w, V, K, it, Scenario(stack=("Outer", "Mod")))
        holder["ctx"] = ctx
        ctx["stack0"] = list(ctx["base"].fields["modulestack"].items)
        return [node, importer], {}, ctx

    def p_cycle(it, c, o):
        it.check("raises:cycle-is-a-language-error", o.kind == "raise" and o.exc_class == "CklRuntimeError")
        it.check("post:nothing-else-happened(no file access, no parse, stack and cache unchanged)",
                 list(c["base"].fields["modulestack"].items) == c["stack0"] and not c["parsed"] and not c["fs"]
                 and len(c["base"].fields["modules"].entries) == 0 and [e[0] for e in c["importer"].fields["map"].entries] == ["importervar"])
    u = Unit("nodes.py::NodeRequire.evaluate", s_cycle, p_cycle, name="nodes.py::NodeRequire.evaluate[cycle]", prepare=install(w, K, holder),
             replay=replay_sessions)
    u.abstractions = _Abs(holder)
    U.append(u)

    # push / pop
    def s_push(it):
        base = frame(w, "base", None, {}, base=True)
        base.fields["modulestack"].items.extend(["A", "B"])
        child = frame(w, "child", frame(w, "mid", base))
        ident = SStr(z3.String("ident"))
        return [child, ident, V.pos(it)], {}, {"base": base, "ident": ident.z}

    def p_push(it, c, o):
        st = c["base"].fields["modulestack"].items
        on = z3.Or(c["ident"] == z3.StringVal("A"), c["ident"] == z3.StringVal("B"))
        if o.kind == "raise":
            it.check("raises:iff-already-on-the-stack-and-stack-unchanged", z3.And(on, len(st) == 2))
        else:
            it.check("post:pushed-on-the-base-frame's-stack", z3.And(z3.Not(on), len(st) == 3))
    U.append(Unit("functions.py::Environment.pushModuleStack", s_push, p_push))

    # Interpreter.__init__: fresh per-instance state
    def s_interp(it):
        o = Obj(w.import_module("ckl.interpreter").ns["Interpreter"], {})
        return [o], {"secure": True, "legacy": False}, {"o": o}

    def abs_base(it, a, k, n):
        return frame(w, "freshbase", None, {"checkerlang_secure_mode": V.TRUE}, base=True)

    def p_interp(it, c, o):
        i = c["o"]
        b, e = i.fields.get("base_environment"), i.fields.get("environment")
        it.check("post:session-environment-is-a-fresh-child-of-a-per-instance-base-frame", isinstance(e, Obj) and e.fresh and e.fields.get("parent") is b)
        it.check("post:no-module-global-or-class-attribute-written", not [x for x in it.effects if x[0] == "global-write"])
    U.append(Unit("interpreter.py::Interpreter.__init__", s_interp, p_interp, abstractions={"get_base_environment": abs_base}, allowed=()))

    # get_base_environment: every call allocates its own root frame (so the abstraction used above is what the real function does)
    def s_base(it):
        K.axioms(it)
        return [it.fresh_bool("secure"), it.fresh_bool("legacy")], {}, {}

    def p_base(it, c, o):
        if o.kind == "raise":
            return
        r = o.value
        ok = isinstance(r, Obj) and r.cls is funcs["Environment"]
        it.check("post:returns-a-root-frame-allocated-by-this-call (not shared with any other caller)", ok and r.fresh and r.fields.get("parent") is None)
        if ok:
            m, st = r.fields.get("modules"), r.fields.get("modulestack")
            it.check("post:with-its-own-empty-module-table-and-load-stack", isinstance(m, PDict) and m.fresh and not m.entries
                     and isinstance(st, PList) and st.fresh and st.items == [])
    U.append(Unit("functions.py::get_base_environment", s_base, p_base, allowed=("CklRuntimeError", "CklSyntaxError"),   # (of the abstract base script)
                  abstractions={"bind_native": lambda it, a, k, n: None, "parse_script": lambda it, a, k, n: K.node("basescript")},
                  prepare=lambda world: (K.install(world), world.hooks.__setitem__("external_call", lambda it, name, a, k, n: BytesVal(SStr(z3.String("modsrc"))) if "get_data" in name else None))))

    # Environment.__init__: a root frame gets its own module table and load stack
    def s_envinit(it):
        o = Obj(funcs["Environment"], {})
        return [o], {}, {"o": o}
    U.append(Unit("functions.py::Environment.__init__", s_envinit,
                  lambda it, c, o: it.check("post:root-frame-allocates-its-own-module-table-and-load-stack",
                                            isinstance(c["o"].fields.get("modules"), PDict) and c["o"].fields["modules"].fresh
                                            and isinstance(c["o"].fields.get("modulestack"), PList) and c["o"].fields["modulestack"].fresh
                                            and c["o"].fields["map"].fresh), allowed=()))

    # Interpreter.interpret: persistent environment, parse before evaluate, parent restored on every exit
    def interp_unit(with_env, outcome):
        def setup(it):
            K.axioms(it)
            base = frame(w, "base", None, {}, base=True)
            sess = frame(w, "session", base, {"kept": V.TRUE})
            i = Obj(w.import_module("ckl.interpreter").ns["Interpreter"], {"base_environment": base, "environment": sess})
            i.fresh = False
            seen = {}

            def on_eval(it_, node, env, p):
                seen["env"] = env
                seen["parent_during"] = env.fields.get("parent")
            prog = K.node("program", on_eval=on_eval)
            userroot = frame(w, "userroot", None, {"u": V.FALSE})
            userenv = frame(w, "userenv", userroot, {})

            def parse_abs(it_, a, k, n):
                seen["parsed"] = True
                if outcome == "syntax":
                    from pyvc.interp import PyRaise
                    raise PyRaise(Obj(w.import_module("ckl.errors").ns["CklSyntaxError"], {"msg": "m", "pos": None, "args": ()}))
                return prog
            holder["parse"] = parse_abs
            args = [i, SStr(z3.String("script")), "file"] + ([userenv] if with_env else [])
            return args, {}, {"sess": sess, "seen": seen, "userroot": userroot, "userenv": userenv}

        def post(it, c, o):
            seen = c["seen"]
            if outcome == "syntax":
                it.check("raises:syntax-error-before-any-evaluation", o.kind == "raise" and o.exc_class == "CklSyntaxError" and "env" not in seen)
            else:
                it.check("post:evaluated-in-the-persistent-session-environment(or-the-caller's-below-it)",
                         seen.get("env") is (c["userenv"] if with_env else c["sess"]))
                if with_env:
                    it.check("post:caller-environment-was-re-parented-below-the-session-during-evaluation", False if "env" not in seen else True)
            if with_env:
                it.check("post:caller-environment's-root-parent-restored-on-this-exit", c["userroot"].fields.get("parent") is None, detail=o.kind)
            it.check("post:session-bindings-still-there", [e[0] for e in c["sess"].fields["map"].entries][:1] == ["kept"])
        u = Unit("interpreter.py::Interpreter.interpret", setup, post, name=f"interpreter.py::Interpreter.interpret[{'caller env' if with_env else 'session env'},{outcome}]",
                 allowed=("CklRuntimeError", "CklSyntaxError"), prepare=K.install, replay=replay_sessions)
        u.abstractions = {"parse_script": lambda it, a, k, n: holder["parse"](it, a, k, n)}
        return u
    for with_env in (False, True):
        for outcome in ("any", "syntax"):
            U.append(interp_unit(with_env, outcome))
    # a loop aborted by an error leaves the scope as it found it (the loop variable gone, a definition it hid back): the scope
    # frame obligation of the `for` units of C04, which covers every way of leaving the loop
    from . import c04
    U.extend(u for u in c04.units(w) if u.name in ("nodes.py::NodeFor.evaluate[list]", "nodes.py::NodeFor.evaluate[set]"))
    return U


class _Abs(dict):
    """abstractions resolved through the per-path context"""

    def __init__(self, holder):
        dict.__init__(self)
        self.holder = holder

    def get(self, key, default=None):
        c = self.holder.get("ctx")
        if c is not None and key in c.get("abstractions", {}):
            return c["abstractions"][key]
        return default


# ----------------------------------------------------------------------------- bounded: session command sequences

def _mods():
    import importlib
    import sys
    import os
    root = os.path.join(os.environ.get("VERIF_REPO", "/repo"), "src")
    if root not in sys.path:
        sys.path.insert(0, root)
    for m in [k for k in sys.modules if k == "ckl" or k.startswith("ckl.")]:
        del sys.modules[m]
    return importlib.import_module("ckl.interpreter"), importlib.import_module("ckl.errors"), importlib.import_module("ckl.values")


def bounded(tier, seed):
    import random
    import shutil
    import tempfile
    import time
    import os
    t0 = time.time()
    interp, errors, values = _mods()
    d = tempfile.mkdtemp(prefix="c10mods", dir=os.environ.get("VERIF_SCRATCH", "/var/tmp"))
    try:
        files = {"good.ckl": "def gv = 41; def inc(x) x + 1;", "broken.ckl": "def a = 1; def b = (", "raising.ckl": "def before = 1; error 'boom'; def after = 2;",
                 "cyca.ckl": "require cycb; def ca = 1;", "cycb.ckl": "require cyca; def cb = 1;"}
        for fn, txt in files.items():
            with open(os.path.join(d, fn), "w") as f:
                f.write(txt)
        CMDS = {"define": "def v = 1", "define2": "def w = v + 1", "assign": "v = v + 10", "read": "v", "call": "inc2(1)", "deffn": "def inc2(x) x + 2",
                "fail": "def early = 5; undefined_name; def late = 6", "syntax": "def s = (", "good": "require good; good->gv", "missing": "require nosuchmodule",
                "broken": "require broken", "raising": "require raising", "cycle": "require cyca", "loopabort": "for i in [1, 2] do def li = i; error 'x' end",
                # a definition named like the loop variable of the aborted loop, and reading it
                "defi": "def i = 77", "readi": "i", "loopdone": "for i in [5, 6] do 0 end"}

        def new():
            I = interp.Interpreter(True, False)
            mp = values.ValueList()
            mp.addItem(values.ValueString(d))
            I.base_environment.put("checkerlang_module_path", mp)      # where run.py / repl.py put the -m path
            return I

        def run(I, cmd):
            try:
                return ("ok", str(I.interpret(CMDS[cmd], "-")))
            except errors.CklRuntimeError as e:
                return ("rt", str(e.value) + "|" + str(e.msg))
            except errors.CklSyntaxError as e:
                return ("syn", e.msg)
            except Exception as e:
                return ("host", repr(e))

        def snapshot(I):
            return sorted((k, str(v)) for k, v in I.environment.map.items() if k != "checkerlang_module_path")
        fails, ev = [], 0
        other = new()      # a second, idle instance: must never see anything
        names = list(CMDS)
        rnd = random.Random(seed)
        L = 4 if tier == "thorough" else 3
        seqs = [list(t) for n in range(1, L + 1) for t in itertools.product(names, repeat=n)]
        cap = 20000 if tier == "thorough" else 700
        if len(seqs) > cap:
            short = [q for q in seqs if len(q) <= 2]
            seqs = short + rnd.sample([q for q in seqs if len(q) > 2], cap - len(short))
        seqs += [[rnd.choice(names) for _ in range(rnd.randint(5, 30))] for _ in range(200 if tier == "thorough" else 25)]
        FAILING = {"fail", "syntax", "missing", "broken", "raising", "cycle", "loopabort"}

        def model(st, cmd):
            """reference session: names -> values; what each command leaves behind and whether it succeeds (the failed
            remainder of a call leaves nothing: no loop variable, no half-loaded module, no later definition)"""
            st = dict(st)
            if cmd == "define":
                st["v"] = 1
                return st, "ok"
            if cmd == "define2":
                if "v" not in st:
                    return st, "rt"
                st["w"] = st["v"] + 1
                return st, "ok"
            if cmd == "assign":
                if "v" not in st:
                    return st, "rt"
                st["v"] += 10
                return st, "ok"
            if cmd == "read":
                return st, "ok" if "v" in st else "rt"
            if cmd == "call":
                return st, "ok" if "inc2" in st else "rt"
            if cmd == "deffn":
                st["inc2"] = "fn"
                return st, "ok"
            if cmd == "fail":
                st["early"] = 5
                return st, "rt"
            if cmd == "syntax":
                return st, "syn"
            if cmd == "good":
                st["good"] = "module"
                return st, "ok"
            if cmd == "loopabort":
                st["li"] = 1          # (the loop variable i is gone / an earlier definition of i is back)
                return st, "rt"
            if cmd == "defi":
                st["i"] = 77
                return st, "ok"
            if cmd == "readi":
                return st, "ok" if "i" in st else "rt"
            if cmd == "loopdone":
                return st, "ok"
            if cmd == "broken":
                return st, "syn"
            return st, "rt"        # missing, raising, cycle: nothing stays
        for seq in seqs:
            ev += 1
            I = new()
            st = {}
            for i, cmd in enumerate(seq):
                before = snapshot(I)
                r1 = run(I, cmd)
                st, kind = model(st, cmd)
                got = {k: v for k, v in snapshot(I)}
                want = {k: (str(v) if isinstance(v, int) else None) for k, v in st.items()}
                if r1[0] != "host" and (r1[0] != kind or set(got) != set(want) or any(v is not None and got[k] != v for k, v in want.items())):
                    fails.append({"id": "bounded:session-state-equals-the-reference-session(no residue of a failed remainder)", "input": str(seq[:i + 1]),
                                  "observed": f"{r1[0]} {sorted(got.items())}", "expected": f"{kind} {sorted(want.items())}"})
                    break
                if r1[0] == "host":
                    fails.append({"id": "bounded:session-host-exception", "input": str(seq[:i + 1]), "observed": r1[1], "expected": "language error"})
                    break
                if cmd in FAILING or r1[0] != "ok":
                    mid = snapshot(I)
                    r2 = run(I, cmd)
                    if r2 != r1:
                        fails.append({"id": "bounded:repeating-a-failed-call-gives-the-same-error", "input": str(seq[:i + 1]) + " then again",
                                      "observed": f"{r1} then {r2}", "expected": "same outcome"})
                        break
                    # definitions made before the failure stay; nothing is lost
                    if not all(k in dict(mid) for k, _ in before):
                        fails.append({"id": "bounded:definitions-survive-a-failed-call", "input": str(seq[:i + 1]), "observed": str(mid), "expected": str(before)})
                        break
                if snapshot(other):
                    fails.append({"id": "bounded:instances-are-separate", "input": str(seq[:i + 1]), "observed": str(snapshot(other)), "expected": "[]"})
                    break
            # a good module still loads after any history of failures
            r = run(I, "good")
            if r != ("ok", "41"):
                fails.append({"id": "bounded:good-module-loads-after-failures", "input": str(seq), "observed": str(r), "expected": "('ok', '41')"})
        # two instances with the same flags and their own module directories never see each other's modules
        d2 = os.path.join(d, "second")
        os.makedirs(d2)
        with open(os.path.join(d2, "good.ckl"), "w") as f:
            f.write("def gv = 99;")
        with open(os.path.join(d2, "only2.ckl"), "w") as f:
            f.write("def o = 2;")
        for flags in ((True, False), (True, True), (False, False)):
            ev += 1
            I1 = interp.Interpreter(*flags)
            I2 = interp.Interpreter(*flags)
            for I, dd in ((I1, d), (I2, d2)):
                mp = values.ValueList()
                mp.addItem(values.ValueString(dd))
                I.base_environment.put("checkerlang_module_path", mp)
            obs = (run(I1, "good"), )
            try:
                obs += (("ok", str(I2.interpret("require good; good->gv", "-"))),)
            except Exception as e:
                obs += (("err", repr(e)),)
            try:
                obs += (("ok", str(I1.interpret("require only2; only2->o", "-"))),)
            except errors.CklRuntimeError as e:
                obs += (("rt", "not found"),)
            exp = (("ok", "41"), ("ok", "99"), ("rt", "not found"))
            if obs != exp:
                fails.append({"id": "bounded:instances-have-separate-module-tables", "input": f"two Interpreter{flags} instances with module directories holding different good.ckl",
                              "observed": str(obs), "expected": str(exp)})
        seen, uniq = set(), []
        for f in fails:
            if f["id"] not in seen:
                seen.add(f["id"])
                uniq.append(f)
        return [BoundedResult("session command sequences on real interpreter instances (user modules in a scratch directory outside /repo and /verif)",
                              f"all sequences up to length {L} over {len(CMDS)} commands (sampled above the cap) + random sequences up to length 30, a second idle instance",
                              ev, ev, uniq, [{"seq": ["missing", "missing", "good"]}], "cross-check of the proof part", time.time() - t0)]
    finally:
        shutil.rmtree(d, ignore_errors=True)


def replay_sessions(fail):
    for b in bounded("quick", 0):
        if b.failures:
            f = dict(b.failures[0])
            f["reproduced"] = True
            return f
    return {"reproduced": False}
