"""C19 - Collection and numeric library functions satisfy their defining laws (Python natives; the library
functions written in Checkerlang are covered by bounded runtime contracts, see contracts/cklib.py)."""
import itertools
import z3

from pyvc.verify import Unit, Outcome
from pyvc.interp import Loop, PyRaise
from pyvc.values import SInt, SStr, SElem, SBool, SFloat, Obj, PList, zi, zr, zs, zb, mk_bool, mk_int
from pyvc.runner import BoundedResult
from .common import Vals, Stubs, real_env, I, cls_name

MANIFEST_ENTRY = {
    'category': 'proof',
    'text': 'pow on ints, sum over int lists, range, the 32-bit bitwise natives (shift counts 0..63 enumerated, word symbolic) are proved equal to their mathematical definitions for all integers with loop invariants; zip/zip_map symbolic-bounded; the library functions written in Checkerlang (set algebra, unique, reverse, flatten, grouped, filter, map_list, reduce, prod, enumerate, chunks, pairs, interval, min/max, mean/median*, gcd/lcm/abs/sign) are checked by bounded runtime contracts against host-language oracles over all permutations of small inputs; grouped with NULL elements and NULL keys in the stand-in; mean gives the identical float for every arrangement; gcd/lcm on the whole signed domain including zero; empty sum and product (bounded); abs, sign, gcd and lcm of math.ckl are proved for all ints on the module\'s real AST (the real interpreter code executed symbolically over the nodes the real parser built; gcd by induction on |b| against the defining equations of Euclid\'s function); reverse, unique, prod, reduce, flatten, filter, map_list, append_all, pairs, enumerate, zip and the four set operations are decided on the modules\' real AST for lists / sets of <= 3 symbolic ints (every choice of values, equal or not; symbolic-bounded in the length)',
    'note': 'x ** y and & | ^ of CPython trusted (uninterpreted, named in the spec); Checkerlang library code is outside the VC generator (bounded only)',
    'technique': 'deductive verification: pyvc VCs from the real AST + z3/cvc5 (loop invariants); bounded runtime contracts for CKL library code',
}
PROPERTY = "C19"
LEVEL = "proof"
TRUSTED = ["CPython integer power x ** y (exponents >= 9 are an uninterpreted function shared by spec and code; 0..8 expanded)",
           "CPython & | ^ on ints (uninterpreted, shared by spec and code); x & (2^m-1) == x mod 2^m; disjoint-bit | is +",
           "contracts/cklsym.py: the heap the real interpreter builds natively when it loads a module (CPython executing the real lexer, parser and "
           "NodeRequire) is copied object by object into the engine's heap (same classes, same attributes, sharing preserved)"]
ASSUMPTIONS = ["bit functions: arguments are 32-bit words 0 <= a < 2^32 as their documentation says; shift counts 0..63 enumerated",
               "sum with an ignore list / decimals, zip, zip_map: symbolic-bounded (stated per unit)",
               "library functions written in Checkerlang with loops: bounded runtime contracts only; abs/sign/gcd/lcm: proved on the module's real AST "
               "(the heap built natively by the real interpreter is reflected into the engine - contracts/cklsym.py)",
               "gcd: the defining equations of Euclid's function are proved; that they characterise the greatest common divisor is the textbook theorem (not re-proved)"]
EXPLANATION = "exact-integer postconditions with loop invariants for the Python natives; bounded runtime contracts for CKL library code"

W32 = 2 ** 32
SUMF = z3.Function("spec_sum", z3.SeqSort(z3.IntSort()), z3.IntSort())
# ARITH(start, step, n) = [start, start+step, ..., start+(n-1)*step]; defined by ARITH(..,0) = [] and
# ARITH(..,n+1) = ARITH(..,n) ++ [start + n*step]
ARITH = z3.Function("spec_arith_seq", z3.IntSort(), z3.IntSort(), z3.IntSort(), z3.SeqSort(z3.IntSort()))


def units(w):
    V = Vals(w)
    U = []
    funcs = w.import_module("ckl.functions").ns
    vals = w.import_module("ckl.values").ns

    def fn_obj(name):
        return Obj(funcs[name], {"name": name, "secure": True})

    def call(name, it, mapping, names=None, env=None):
        return [fn_obj(name), V.args(it, mapping, names), env if env is not None else V.env(it), V.pos(it, "cpos")]

    # ------------------------------------------------------------------ pow on ints
    def pow_unit(yc):
        def setup(it):
            x = V.int(it, "x")
            if yc is None:
                y = V.int(it, "y")
                it.assume(zi(y.fields["value"]) >= 0)
            else:
                y = V._mk("ValueInt", {"value": yc}, "y")
            return call("FuncPow", it, {"x": x, "y": y}), {}, {"x": zi(x.fields["value"]), "y": y}

        def post(it, c, o):
            it.check("post:returns-ValueInt", o.kind == "return" and cls_name(o.value) == "ValueInt")
            pv = o.value.fields["value"]
            it.check("post:payload-is-python-int(not-a-float)", isinstance(pv, (int, SInt)) and not isinstance(pv, bool))
            if not isinstance(pv, (int, SInt)):
                return
            if yc is None:
                it.check("post:x^y(integer power)", zi(pv) == w.PYPOW(c["x"], zi(c["y"].fields["value"])))
            else:
                e = I(1)
                for _ in range(yc):
                    e = e * c["x"]
                it.check(f"post:x^{yc}-exact", zi(pv) == e)
        return Unit("functions.py::FuncPow.execute", setup, post, name=f"functions.py::FuncPow.execute[int,y={'any>=0' if yc is None else yc}]",
                    replay=replay_lang([("pow(3, 40)", "12157665459056928801"), ("pow(7, 30)", str(7 ** 30)), ("pow(-2, 63)", str((-2) ** 63)),
                                        ("pow(10, 0)", "1"), ("type(pow(2, 3))", "'int'")]))
    for yc in (None, 0, 1, 2, 3, 5):
        U.append(pow_unit(yc))

    # ------------------------------------------------------------------ sum over a list of ints (any length)
    def s_sum(it):
        lst = V.list_of_ints(it, "l")
        it.assume(SUMF(z3.Empty(z3.SeqSort(z3.IntSort()))) == 0)      # definition of the spec sum (base case)
        return call("FuncSum", it, {"list": lst}, ["list", "ignore"]), {}, {"L": lst.fields["value"].sym}

    def sum_inv(st):
        L = st["lst"].sym
        return [zi(st["result"]) == SUMF(z3.SubSeq(L, 0, zi(st.k))), zi(st.k) >= 0, st["decimalrequired"] is False
                if isinstance(st["decimalrequired"], bool) else z3.Not(zb(st["decimalrequired"]))]

    def sum_lemmas(st):
        L = st["lst"].sym
        k1 = zi(st.k)
        # definition of spec_sum unfolded once (spec_sum(s ++ [x]) = spec_sum(s) + x) + the proved extension lemma
        pre = z3.SubSeq(L, 0, k1 - 1)
        return [SUMF(z3.Concat(pre, z3.Unit(L[k1 - 1]))) == SUMF(pre) + L[k1 - 1],
                z3.Implies(z3.And(k1 - 1 >= 0, k1 - 1 < z3.Length(L)), z3.Concat(pre, z3.Unit(L[k1 - 1])) == z3.SubSeq(L, 0, k1))]

    def p_sum(it, c, o):
        it.check("post:returns-ValueInt", o.kind == "return" and cls_name(o.value) == "ValueInt")
        it.assume(SUMF(z3.Empty(z3.SeqSort(z3.IntSort()))) == 0)
        it.check("post:sum-equals-textbook-sum", zi(o.value.fields["value"]) == SUMF(c["L"]))
    U.append(Unit("functions.py::FuncSum.execute", s_sum, p_sum, name="functions.py::FuncSum.execute[list of ints]",
                  loops={0: Loop(sum_inv, lemmas=sum_lemmas)}, config={"prefer": "z3"},
                  prepare=lambda world: None,
                  replay=replay_lang([("sum([1, 2, 3])", "6"), ("sum([])", "0"), (f"sum([{2**70}, 1, -{2**70}])", "1"), ("type(sum([1, 2]))", "'int'")])))

    def sum_small(spec):
        """sum with decimals / ignore list on concrete spines (symbolic-bounded)"""
        kinds, ign = spec

        def setup(it):
            items = [V.int(it, f"v{i}") if k == "i" else V.dec(it, f"v{i}") for i, k in enumerate(kinds)]
            m = {"list": V.list_of(it, items, "l")}
            ig = None
            if ign:
                ig = V.int(it, "g")
                m["ignore"] = V.list_of(it, [ig], "ig")
            return call("FuncSum", it, m, ["list", "ignore"]), {}, {"items": items, "ig": ig}

        def post(it, c, o):
            if o.kind == "raise":
                # only an int beyond the double range meeting a decimal may fail (language error)
                big = z3.BoolVal(False)
                for k, v in zip(kinds, c["items"]):
                    if k == "i":
                        big = z3.Or(big, zi(v.fields["value"]) >= 2 ** 1023, zi(v.fields["value"]) <= -(2 ** 1023))
                it.check("raises:only-int-beyond-double-range-with-decimals", z3.And("d" in kinds, big))
                return
            anydec = "d" in kinds
            total = z3.RealVal(0)
            has_dec = z3.BoolVal(False)
            for k, v in zip(kinds, c["items"]):
                skip = z3.BoolVal(False)
                if c["ig"] is not None:
                    skip = zr(v.fields["value"]) == zr(c["ig"].fields["value"])
                total = total + z3.If(skip, z3.RealVal(0), zr(v.fields["value"]))
                if k == "d":
                    has_dec = z3.Or(has_dec, z3.Not(skip))
            isdec = cls_name(o.value) == "ValueDecimal"
            it.check("post:kind-is-decimal-iff-a-decimal-was-added", z3.BoolVal(isdec) == has_dec)
            if not anydec:
                it.check("post:exact-sum-of-non-ignored", zr(o.value.fields["value"]) == total)
        return Unit("functions.py::FuncSum.execute", setup, post, name=f"functions.py::FuncSum.execute[{''.join(kinds) or 'empty'}{',ignore' if ign else ''}]",
                    bounded="list spine of length <= 3, one-element ignore list")
    for n in range(0, 4):
        for kinds in itertools.product("id", repeat=n):
            for ign in (False, True):
                if n == 3 and ign and "d" in kinds:
                    continue
                U.append(sum_small((kinds, ign)))

    # ------------------------------------------------------------------ range
    def range_unit(form, step):
        def setup(it):
            a, b = V.int(it, "a"), V.int(it, "b")
            m = {"a": a} if form == "a" else {"a": a, "b": b}
            sv = None
            if step is not None:
                sv = V.int(it, "step") if step == "sym" else V._mk("ValueInt", {"value": step}, "step")
                m["step"] = sv
            start = I(0) if form == "a" else zi(a.fields["value"])
            end = zi(a.fields["value"]) if form == "a" else zi(b.fields["value"])
            it.assume(ARITH(start, I(1 if step in (None, "sym") else step), I(0)) == z3.Empty(z3.SeqSort(z3.IntSort())))
            return call("FuncRange", it, m, ["a", "b", "step"]), {}, {"start": start, "end": end}

        s = 1 if step is None else step

        def seqr(st):
            pl = st["result"].fields["value"]
            return pl.sym if pl.is_sym() else st.interp.list_seq(pl, "vint")

        def inv_pos(st):
            R = seqr(st)
            n = z3.Length(R)
            st0 = zi(st["start"])
            return [zi(st["i"]) == st0 + s * n, R == ARITH(st0, I(s), n),
                    z3.Implies(n > 0, st0 + s * (n - 1) < zi(st["end"])) if s > 0 else
                    z3.Implies(n > 0, st0 + s * (n - 1) > zi(st["end"]))]

        def arith_def(st):
            # definition of the spec sequence ARITH(start, step, n) unfolded at n = |R| - 1 (recursive spec function)
            R = seqr(st)
            n1 = z3.Length(R)
            st0 = zi(st["start"])
            return [z3.Implies(n1 >= 1, ARITH(st0, I(s), n1) == z3.Concat(ARITH(st0, I(s), n1 - 1), z3.Unit(st0 + s * (n1 - 1)))),
                    ARITH(st0, I(s), I(0)) == z3.Empty(z3.SeqSort(z3.IntSort()))]
        if step == "sym":
            loops = {0: Loop(lambda st: [zi(st["step"]) > 0], modifies=["result.value:vint"], decreases=lambda st: mk_int(zi(st["end"]) - zi(st["i"]))),
                     1: Loop(lambda st: [zi(st["step"]) < 0], modifies=["result.value:vint"], decreases=lambda st: mk_int(zi(st["i"]) - zi(st["end"])))}
        else:
            loops = {0: Loop(inv_pos, modifies=["result.value:vint"], decreases=lambda st: mk_int(zi(st["end"]) - zi(st["i"])), lemmas=arith_def),
                     1: Loop(inv_pos, modifies=["result.value:vint"], decreases=lambda st: mk_int(zi(st["i"]) - zi(st["end"])), lemmas=arith_def)}

        def post(it, c, o):
            it.check("post:returns-a-new-ValueList", o.kind == "return" and cls_name(o.value) == "ValueList")
            if step == "sym":
                return
            pl = o.value.fields["value"]
            R = pl.sym if pl.is_sym() else it.list_seq(pl, "vint")
            n = z3.Length(R)
            q = z3.Int("qp")
            st_, en = c["start"], c["end"]
            if s == 0:
                it.check("post:step-0-gives-the-empty-list", n == 0)
                return
            it.check("post:elements-are-start+j*step", R == ARITH(st_, I(s), n))
            if s > 0:
                it.check("post:all-before-end", z3.Implies(n > 0, st_ + s * (n - 1) < en))
                it.check("post:complete", st_ + s * n >= en)
            else:
                it.check("post:all-before-end", z3.Implies(n > 0, st_ + s * (n - 1) > en))
                it.check("post:complete", st_ + s * n <= en)
        return Unit("functions.py::FuncRange.execute", setup, post,
                    name=f"functions.py::FuncRange.execute[range({form}){'' if step is None else ',step=' + str(step)}]",
                    loops=loops, allowed=(), config={"prefer": "z3"},
                    replay=replay_lang([("range(3)", "[0, 1, 2]"), ("range(2, 5)", "[2, 3, 4]"), ("range(5, 2, -1)", "[5, 4, 3]"),
                                        ("range(0, 7, 3)", "[0, 3, 6]"), ("range(3, 3)", "[]"), ("range(1, 10, 0)", "[]"), ("range(-2)", "[]")]))
    for form in ("a", "a,b"):
        U.append(range_unit(form, None))
    for step in (1, 2, 3, -1, -2, 0, "sym"):
        U.append(range_unit("a,b", step))

    # ------------------------------------------------------------------ zip / zip_map (symbolic-bounded spines)
    def zip_unit(name, n1, n2):
        def setup(it):
            a = V.list_of(it, [SElem(z3.Int(f"a{i}")) for i in range(n1)], "a")
            b = V.list_of(it, [SElem(z3.Int(f"b{i}"), "val") for i in range(n2)], "b")
            if name == "FuncZipMap":
                for p, q in itertools.combinations(range(n1), 2):
                    it.assume(z3.Int(f"a{p}") != z3.Int(f"a{q}"))
            return call(name, it, {"a": a, "b": b}), {}, {"a": a, "b": b}

        def post(it, c, o):
            m = min(n1, n2)
            it.check("post:returns", o.kind == "return")
            if name == "FuncZip":
                items = o.value.fields["value"].items
                ok = len(items) == m and all(cls_name(p) == "ValueList" and len(p.fields["value"].items) == 2
                                             and p.fields["value"].items[0] is c["a"].fields["value"].items[i]
                                             and p.fields["value"].items[1] is c["b"].fields["value"].items[i]
                                             for i, p in enumerate(items))
                it.check("post:min(|a|,|b|)-pairs-in-order", ok)
            else:
                ents = o.value.fields["value"].entries
                ok = len(ents) == m and all(e[0] is c["a"].fields["value"].items[i] and e[1] is c["b"].fields["value"].items[i]
                                            for i, e in enumerate(ents))
                it.check("post:map-of-the-first-min(|a|,|b|)-pairs", ok)
            it.check("post:arguments-unchanged", len(c["a"].fields["value"].items) == n1 and len(c["b"].fields["value"].items) == n2)
        return Unit(f"functions.py::{name}.execute", setup, post, name=f"functions.py::{name}.execute[|a|={n1},|b|={n2}]",
                    bounded="list spines of length <= 3 (distinct keys for zip_map)")
    for name in ("FuncZip", "FuncZipMap"):
        for n1 in range(4):
            for n2 in range(4):
                U.append(zip_unit(name, n1, n2))

    # ------------------------------------------------------------------ 32-bit functions
    def word(it, name):
        v = V.int(it, name)
        it.assume(z3.And(zi(v.fields["value"]) >= 0, zi(v.fields["value"]) < W32))
        return v

    def bit2(name, kind):
        def setup(it):
            a, b = word(it, "a"), word(it, "b")
            return call(name, it, {"a": a, "b": b}), {}, {"a": zi(a.fields["value"]), "b": zi(b.fields["value"])}

        def post(it, c, o):
            it.check("post:returns-ValueInt", o.kind == "return" and cls_name(o.value) == "ValueInt")
            r = zi(o.value.fields["value"])
            it.check(f"post:bitwise-{kind}", r == w.BITFN[kind](c["a"], c["b"]))
            it.check("post:result-is-a-32-bit-word", z3.And(r >= 0, r < W32))
        return Unit(f"functions.py::{name}.execute", setup, post)
    U.append(bit2("FuncBitAnd", "and"))
    U.append(bit2("FuncBitOr", "or"))
    U.append(bit2("FuncBitXor", "xor"))

    def s_not(it):
        a = word(it, "a")
        return call("FuncBitNot", it, {"a": a}), {}, {"a": zi(a.fields["value"])}

    def p_not(it, c, o):
        it.check("post:returns-ValueInt", o.kind == "return" and cls_name(o.value) == "ValueInt")
        it.check("post:2^32-1-a", zi(o.value.fields["value"]) == W32 - 1 - c["a"])
    U.append(Unit("functions.py::FuncBitNot.execute", s_not, p_not))

    def shift_unit(name, n):
        def setup(it):
            a = word(it, "a")
            nv = V._mk("ValueInt", {"value": n}, "n")
            return call(name, it, {"a": a, "n": nv}), {}, {"a": zi(a.fields["value"])}

        def post(it, c, o):
            a = c["a"]
            if n < 0 and name in ("FuncBitShiftLeft", "FuncBitShiftRight"):
                it.check("post:negative-count-is-a-language-error", o.kind == "raise")
                return
            it.check("post:returns-ValueInt", o.kind == "return" and cls_name(o.value) == "ValueInt")
            if o.kind != "return":
                return
            r = zi(o.value.fields["value"])
            k = n % 32
            if name == "FuncBitShiftLeft":
                spec = (a * (2 ** n)) % W32
            elif name == "FuncBitShiftRight":
                spec = a / (2 ** n)
            elif name == "FuncBitRotateLeft":
                spec = (a * (2 ** k)) % W32 + a / (2 ** (32 - k))
            else:
                spec = a / (2 ** k) + (a * (2 ** (32 - k))) % W32
            it.check("post:equals-32-bit-spec", r == spec)
            it.check("post:result-is-a-32-bit-word", z3.And(r >= 0, r < W32))
        return Unit(f"functions.py::{name}.execute", setup, post, name=f"functions.py::{name}.execute[n={n}]",
                    replay=replay_lang([("bit_rotate_left(2147483648, 1)", "1"), ("bit_rotate_right(1, 1)", "2147483648"),
                                        ("bit_shift_left(4294967295, 4)", "4294967280"), ("bit_shift_right(4294967295, 31)", "1"),
                                        ("bit_rotate_left(1, 33)", "2"), ("bit_rotate_left(305419896, 8)", "878082066")]))
    for name in ("FuncBitShiftLeft", "FuncBitShiftRight", "FuncBitRotateLeft", "FuncBitRotateRight"):
        for n in list(range(0, 64)) + [-1]:
            U.append(shift_unit(name, n))
    # =========================================================== integer functions written in Checkerlang (math.ckl): abs, sign, gcd, lcm
    # The real interpreter loads the real module natively; its heap (environments, function values, node trees) is reflected
    # into the engine and the function is called with symbolic arguments: what is executed is nodes.py / functions.py /
    # values.py over the nodes the real parser built from math.ckl (contracts/cklsym.py).  gcd is recursive: inside its body the
    # name gcd is bound to the contract (induction hypothesis), with the measure |b| that must decrease.
    import sys as _sys
    from . import cklsym
    from .common import StubFuncs as _StubFuncs
    GCD = z3.Function("EUCLID", z3.IntSort(), z3.IntSort(), z3.IntSort())     # spec: E(a, 0) = |a|, E(a, b) = E(b, a mod b) (floor mod)
    zabs = lambda x: z3.If(x >= 0, x, -x)
    pymod = lambda x, y: x - y * z3.If(y > 0, x / y, (-x) / (-y))

    def ckl_call(it, text, bindings, patch=None):
        I = cklsym.native_session(("Math", "Stat"))
        R = cklsym.Reflector(w)
        R.seed_singletons(_sys.modules["ckl.values"])
        env = R.reflect(I.environment)
        if patch:
            patch(it, R, I)
        call = R.reflect(_sys.modules["ckl.parser"].parse_script(text, "unit"))
        return call, real_env(w, it, bindings, parent=env)

    def num_arg(it, kind, name):
        return {"int": V.int, "decimal": V.dec, "string": V.string}[kind](it, name) if kind != "null" else V.NULL

    def s_absign(fname):
        def setup(it):
            kind = ("int", "decimal", "null", "string")[it.path.choose(4)]
            n = num_arg(it, kind, "n")
            call, env = ckl_call(it, f"Math->{fname}(n)", {"n": n})
            return [call, env], {}, {"n": n, "kind": kind}
        return setup

    def p_absign(fname):
        def post(it, c, o):
            k, n = c["kind"], c["n"]
            if k == "string":
                it.check("raises:a-non-number-is-a-language-error", o.kind == "raise" and o.exc_class == "CklRuntimeError")
                return
            it.check("post:returns", o.kind == "return")
            if o.kind != "return":
                return
            if k == "null":
                it.check("post:NULL-for-NULL", o.value is V.NULL)
            elif k == "int":
                nz = zi(n.fields["value"])
                it.check("post:an-int", cls_name(o.value) == "ValueInt")
                if cls_name(o.value) == "ValueInt":
                    want = zabs(nz) if fname == "abs" else z3.If(nz > 0, 1, z3.If(nz < 0, -1, 0))
                    it.check(f"post:exactly-the-mathematical-{fname}-for-every-int", zi(o.value.fields["value"]) == want)
            else:
                x = n.fields["value"].z
                if fname == "abs":
                    # (0 - x for negative x: exact in IEEE arithmetic, a rounded difference in the engine's float model - the
                    #  magnitude of a negated decimal is not claimed here, the integer clause is the property's)
                    it.check("post:a-decimal;-a-non-negative-one-is-returned-as-it-is", cls_name(o.value) == "ValueDecimal")
                    if cls_name(o.value) == "ValueDecimal":
                        it.check("post:non-negative-decimal-unchanged", z3.Implies(x >= 0, o.value.fields["value"].z == x))
                else:
                    it.check("post:sign-of-a-decimal-is-an-int", cls_name(o.value) == "ValueInt")
                    if cls_name(o.value) == "ValueInt":
                        it.check("post:sign-of-a-decimal", zi(o.value.fields["value"]) == z3.If(x > 0, 1, z3.If(x < 0, -1, 0)))
        return post
    for fname in ("abs", "sign"):
        U.append(Unit("nodes.py::NodeDerefInvoke.evaluate", s_absign(fname), p_absign(fname), name=f"math.ckl::{fname}[real module source, every int / decimal / NULL / non-number]",
                      replay=replay_lang([("require Math; Math->abs(-3)", "3"), ("require Math; Math->abs(1180591620717411303424 * -1)", "1180591620717411303424"),
                                          ("require Math; Math->sign(-3)", "-1"), ("require Math; Math->sign(0)", "0")])))

    def s_gcd(it):
        a, b = V.int(it, "a"), V.int(it, "b")
        az, bz = zi(a.fields["value"]), zi(b.fields["value"])
        calls = []

        def patch(it_, R, I):
            real = R.reflect(I.environment.map["Math"].value["gcd"])
            F_ = _StubFuncs(w)

            def contract(it__, vals):
                # induction hypothesis: for arguments with a smaller measure the function returns E(a', b') >= 0, > 0 unless both are 0
                x, y = vals
                ok = cls_name(x) == "ValueInt" and cls_name(y) == "ValueInt"
                it__.check("rec:recursive-call-with-ints", ok)
                xz, yz = zi(x.fields["value"]), zi(y.fields["value"])
                it__.check("rec:measure-|b|-decreases", z3.And(zabs(yz) < zabs(bz)))
                calls.append((xz, yz))
                g = GCD(xz, yz)
                it__.path.assume(z3.And(g >= 0, z3.Implies(z3.Or(xz != 0, yz != 0), g > 0)), check=False)
                r = V._mk("ValueInt", {"value": SInt(g)})
                return r
            menv = real.fields["lexicalEnv"]
            for e in menv.fields["map"].entries:
                if e[0] == "gcd":
                    e[1] = F_.func("gcd", ["a", "b"], contract)
        call, env = ckl_call(it, "Math->gcd(a, b)", {"a": a, "b": b}, patch)
        return [call, env], {}, {"a": az, "b": bz, "calls": calls}

    def p_gcd(it, c, o):
        a, b = c["a"], c["b"]
        it.check("post:returns-an-int", o.kind == "return" and cls_name(o.value) == "ValueInt")
        if o.kind != "return" or cls_name(o.value) != "ValueInt":
            return
        r = zi(o.value.fields["value"])
        # the defining equations of Euclid's function, unfolded once at (a, b)
        it.check("post:gcd(a, 0) = |a| and gcd(a, b) = gcd(b, a mod b)", r == z3.If(b == 0, zabs(a), GCD(b, pymod(a, b))))
        it.check("post:never-negative-and-positive-unless-both-arguments-are-0", z3.And(r >= 0, z3.Implies(z3.Or(a != 0, b != 0), r > 0)))
    U.append(Unit("nodes.py::NodeDerefInvoke.evaluate", s_gcd, p_gcd, name="math.ckl::gcd[real module source, all ints, induction on |b|]",
                  config={"max_unroll": 6},      # (a loop of the interpreted function over symbolic values is outside this unit's reach: undecided at once)
                  replay=replay_lang([("require Math; Math->gcd(4, -6)", "2"), ("require Math; Math->gcd(-4, 6)", "2"), ("require Math; Math->gcd(0, -5)", "5"),
                                      ("require Math; Math->gcd(0, 0)", "0"), ("require Math; Math->gcd(12, 18)", "6")])))

    def s_lcm(it):
        a, b = V.int(it, "a"), V.int(it, "b")
        az, bz = zi(a.fields["value"]), zi(b.fields["value"])

        def patch(it_, R, I):
            real = R.reflect(I.environment.map["Math"].value["lcm"])
            F_ = _StubFuncs(w)

            def contract(it__, vals):      # callee contract of gcd (the unit above)
                x, y = vals
                xz, yz = zi(x.fields["value"]), zi(y.fields["value"])
                g = GCD(xz, yz)
                it__.path.assume(z3.And(g >= 0, z3.Implies(z3.Or(xz != 0, yz != 0), g > 0)), check=False)
                return V._mk("ValueInt", {"value": SInt(g)})
            for e in real.fields["lexicalEnv"].fields["map"].entries:
                if e[0] == "gcd":
                    e[1] = F_.func("gcd", ["a", "b"], contract)
        call, env = ckl_call(it, "Math->lcm(a, b)", {"a": a, "b": b}, patch)
        return [call, env], {}, {"a": az, "b": bz}

    def p_lcm(it, c, o):
        a, b = c["a"], c["b"]
        it.check("post:returns-an-int", o.kind == "return" and cls_name(o.value) == "ValueInt")
        if o.kind != "return" or cls_name(o.value) != "ValueInt":
            return
        r = zi(o.value.fields["value"])
        g = GCD(a, b)
        it.check("post:lcm = 0 if an argument is 0, else |a * b| div gcd(a, b); never negative",
                 z3.And(r == z3.If(z3.Or(a == 0, b == 0), 0, zabs(a * b) / g), r >= 0))
    U.append(Unit("nodes.py::NodeDerefInvoke.evaluate", s_lcm, p_lcm, name="math.ckl::lcm[real module source, all ints, gcd by its contract]",
                  config={"prefer": "z3"},
                  replay=replay_lang([("require Math; Math->lcm(0, 0)", "0"), ("require Math; Math->lcm(4, -6)", "12"), ("require Math; Math->lcm(21, 6)", "42")])))

    # ---- order statistics and mean of stat.ckl on the module's real AST: lists of n <= 3 symbolic numbers, every arrangement
    #      (symbolic-bounded in the length; the values are arbitrary ints or decimals)
    import itertools as _it

    def s_stat(fname, n, numkind):
        def setup(it):
            xs = [(V.int if numkind == "int" else V.dec)(it, f"x{i}") for i in range(n)]
            if numkind == "int" and fname in ("mean", "median"):
                # these two convert to decimals: ints within the exactly representable range (beyond it the conversion rounds or
                # overflows into a language error - the same for every arrangement, since the sum of ints is exact)
                for x in xs:
                    it.assume(z3.And(zi(x.fields["value"]) >= -2 ** 50, zi(x.fields["value"]) <= 2 ** 50))
            perms = list(_it.permutations(range(n)))
            pm = perms[it.path.choose(len(perms))]
            outs = []
            for order in (tuple(range(n)), pm):
                lst = V.list_of(it, [xs[i] for i in order], "l")
                call, env = ckl_call(it, f"Stat->{fname}(l)", {"l": lst})
                try:
                    outs.append(("return", it.call(w.func("nodes.py::NodeDerefInvoke.evaluate"), [call, env])))
                except PyRaise as e:
                    outs.append(("raise", e.exc))
            it.ghost["outs"] = outs
            it.ghost["xs"] = xs
            return [], {}, {"n": n}
        return setup

    def b_stat(it, c):
        return Outcome("return", None)

    def p_stat(fname, n, numkind):
        def post(it, c, o):
            (k0, r0), (k1, r1) = it.ghost["outs"]
            xs = it.ghost["xs"]
            it.check("post:returns-a-number-for-both-arrangements", k0 == "return" and k1 == "return" and cls_name(r0) in ("ValueInt", "ValueDecimal") and cls_name(r0) == cls_name(r1))
            if not (k0 == "return" and k1 == "return" and cls_name(r0) in ("ValueInt", "ValueDecimal") and cls_name(r0) == cls_name(r1)):
                return
            num = lambda v: (z3.ToReal(zi(v.fields["value"])) if cls_name(v) == "ValueInt" else v.fields["value"].z)
            it.check("post:the-same-result-for-every-arrangement-of-the-same-values", num(r0) == num(r1))
            if fname in ("median_low", "median_high"):
                r = num(r0)
                vals_ = [num(x) for x in xs]
                idx_ = (n - 1) // 2 if fname == "median_low" else n // 2
                le = z3.Sum([z3.If(v <= r, 1, 0) for v in vals_])
                ge = z3.Sum([z3.If(v >= r, 1, 0) for v in vals_])
                it.check("post:it-is-the-order-statistic-of-its-rank(an element with enough elements below and above)",
                         z3.And(z3.Or(*[r == v for v in vals_]), le >= idx_ + 1, ge >= n - idx_))
        return post
    for fname in ("median_low", "median_high", "median", "mean"):
        for n in (1, 2, 3):
            for numkind in ("int", "decimal"):
                U.append(Unit("nodes.py::NodeDerefInvoke.evaluate", s_stat(fname, n, numkind), p_stat(fname, n, numkind), body=b_stat,
                              name=f"stat.ckl::{fname}[real module source, {n} {numkind}s, every arrangement]",
                              bounded="lists of <= 3 elements (symbolic values; ints of mean/median within +-2^50)",
                              replay=replay_lang([("require Stat; Stat->mean([0.1, 0.2, 0.3]) == Stat->mean([0.3, 0.2, 0.1])", "TRUE"),
                                                  ("require Stat; Stat->median_low([3, 1, 2])", "2"), ("require Stat; Stat->median_high([4, 1, 3, 2])", "3")])))

    # ---- list and set functions written in Checkerlang (loops): on the module's real AST with lists / sets of n <= 3 *symbolic* ints
    #      (the loops of the interpreted program run over a spine of known length; the element values are arbitrary - this decides
    #      the textbook definition for every choice of values, equal or not, which the stand-ins only sample)
    def session_call(it, text, bindings):
        I = cklsym.native_session(("Math", "Stat", "List", "Set"))
        R = cklsym.Reflector(w)
        R.seed_singletons(_sys.modules["ckl.values"])
        env = R.reflect(I.environment)
        call = R.reflect(_sys.modules["ckl.parser"].parse_script(text, "unit"))
        return it.call(w.func("nodes.py::NodeBlock.evaluate") if cls_name(call) == "NodeBlock" else w.func(f"nodes.py::{cls_name(call)}.evaluate"),
                       [call, real_env(w, it, bindings, parent=env)])

    def ints(it, prefix, n):
        return [V.int(it, f"{prefix}{i}") for i in range(n)]

    def zv(v):
        return zi(v.fields["value"])

    def as_int_list(it, v):
        """z3 terms of a language list of ints (None if it is not one)"""
        if cls_name(v) != "ValueList" or v.fields["value"].items is None:
            return None
        out = []
        for e in v.fields["value"].items:
            if cls_name(e) != "ValueInt":
                return None
            out.append(zv(e))
        return out

    def seq_of(terms):
        r = z3.Empty(z3.SeqSort(z3.IntSort()))
        for t in terms:
            r = z3.Concat(r, z3.Unit(t)) if not isinstance(t, tuple) else z3.Concat(r, z3.If(t[0], z3.Unit(t[1]), z3.Empty(z3.SeqSort(z3.IntSort()))))
        return r

    def list_unit(fname, text, n, spec, arity=1):
        """spec(xs[, ys]) -> list of terms or (condition, term) pairs: the expected result as a sequence"""
        def setup(it):
            xs, ys = ints(it, "x", n), ints(it, "y", n if arity == 2 else 0)
            binds = {"a": V.list_of(it, xs, "a")}
            if arity == 2:
                binds["b"] = V.list_of(it, ys, "b")
            it.ghost["res"] = session_call(it, text, binds)
            it.ghost["xs"], it.ghost["ys"] = xs, ys
            return [], {}, {}

        def post(it, c, o):
            r = it.ghost["res"]
            got = as_int_list(it, r)
            it.check("post:returns-a-list-of-the-elements", got is not None)
            if got is not None:
                want = spec([zv(x) for x in it.ghost["xs"]], [zv(y) for y in it.ghost["ys"]])
                it.check("post:equals-the-textbook-definition-for-every-choice-of-element-values", seq_of(got) == seq_of(want))
        return Unit("nodes.py::invoke", setup, post, body=lambda it, c: Outcome("return", None), name=f"{fname}[real module source, {n} symbolic ints]",
                    bounded="lists of <= 3 elements (values symbolic)", replay=replay_lang([("require List; List->reverse([1, 2, 3])", "[3, 2, 1]")]))

    def set_unit(fname, text, n, member_spec):
        """member_spec(v, in_a, in_b) -> z3 Bool: v belongs to the result"""
        def setup(it):
            xs, ys = ints(it, "x", n), ints(it, "y", n)
            for grp in (xs, ys):      # a set holds no two equal elements (object invariant of the inputs); across the two sets anything goes
                if len(grp) > 1:
                    it.assume(z3.Distinct(*[zv(g) for g in grp]))
            it.ghost["res"] = session_call(it, text, {"a": V.set_of(it, xs, "a"), "b": V.set_of(it, ys, "b")})
            it.ghost["xs"], it.ghost["ys"] = xs, ys
            return [], {}, {}

        def post(it, c, o):
            r = it.ghost["res"]
            ok = cls_name(r) == "ValueSet" and all(cls_name(e) == "ValueInt" for e in r.fields["value"].items)
            it.check("post:returns-a-set-of-ints", ok)
            if not ok:
                return
            got = [zv(e) for e in r.fields["value"].items]
            xs, ys = [zv(x) for x in it.ghost["xs"]], [zv(y) for y in it.ghost["ys"]]
            mem = lambda v, lst: z3.Or(*[v == t for t in lst]) if lst else z3.BoolVal(False)
            conds = []
            for v in xs + ys:
                conds.append(mem(v, got) == member_spec(mem(v, xs), mem(v, ys)))
            for g in got:
                conds.append(z3.Or(mem(g, xs), mem(g, ys)))
            conds.append(z3.Distinct(*got) if len(got) > 1 else z3.BoolVal(True))
            it.check("post:exactly-the-set-theoretic-result(members, nothing else, no element twice)", z3.And(*conds))
        return Unit("nodes.py::invoke", setup, post, body=lambda it, c: Outcome("return", None), name=f"{fname}[real module source, sets built from {n}+{n} symbolic ints]",
                    bounded="sets built from <= 2 + 2 elements (values symbolic, equal or not)", replay=replay_lang([("require Set; Set->diff(<<1, 2>>, <<2>>)", "<<1>>")]))

    def spec_unique(xs, ys):
        out = []
        for i, x in enumerate(xs):
            out.append((z3.And(*[x != xs[j] for j in range(i)]) if i else z3.BoolVal(True), x))
        return out
    LISTFUNS = [("list.ckl::reverse", "List->reverse(a)", 1, lambda xs, ys: list(reversed(xs))),
                ("list.ckl::unique", "List->unique(a)", 1, spec_unique),
                ("list.ckl::prod", "[List->prod(a)]", 1, lambda xs, ys: [z3.Product(*xs) if len(xs) > 1 else (xs[0] if xs else z3.IntVal(1))]),
                ("list.ckl::reduce", "[List->reduce([0] + a, sub)]", 1, lambda xs, ys: [0 - z3.Sum(*xs) if len(xs) > 1 else (0 - xs[0] if xs else z3.IntVal(0))]),
                ("list.ckl::flatten", "List->flatten([a, 7, b, [8]])", 2, lambda xs, ys: xs + [z3.IntVal(7)] + ys + [z3.IntVal(8)]),
                ("list.ckl::filter", "List->filter(a, fn(v) v > 0)", 1, lambda xs, ys: [(x > 0, x) for x in xs]),
                ("list.ckl::map_list", "List->map_list(a, fn(v) v * 2 + 1)", 1, lambda xs, ys: [x * 2 + 1 for x in xs]),
                ("list.ckl::append_all", "do def t = [5]; List->append_all(t, a); t end", 1, lambda xs, ys: [z3.IntVal(5)] + xs),
                ("core.ckl::pairs", "List->flatten(pairs(a))", 1, lambda xs, ys: [t for i in range(len(xs) - 1) for t in (xs[i], xs[i + 1])]),
                ("core.ckl::enumerate", "List->flatten(enumerate(a))", 1, lambda xs, ys: [t for i, x in enumerate(xs) for t in (z3.IntVal(i), x)]),
                ("core.ckl::zip", "List->flatten(zip(a, b))", 2, lambda xs, ys: [t for x, y in zip(xs, ys) for t in (x, y)]),
                # chunks: the elements in order, then the chunk sizes (all of the stated size but possibly the last, none empty)
                ("core.ckl::chunks(2)", "List->flatten(chunks(a, 2)) + [length(c) for c in chunks(a, 2)]", 1,
                 lambda xs, ys: xs + [z3.IntVal(min(2, len(xs) - i)) for i in range(0, len(xs), 2)]),
                ("core.ckl::chunks(1)", "List->flatten(chunks(a, 1)) + [length(c) for c in chunks(a, 1)]", 1,
                 lambda xs, ys: xs + [z3.IntVal(1) for _ in xs])]
    for fname, text, ar, spec in LISTFUNS:
        for n in (0, 1, 2, 3):
            U.append(list_unit(fname, text, n, spec, ar))
    for fname, text, mspec in (("set.ckl::union", "Set->union(a, b)", lambda ina, inb: z3.Or(ina, inb)),
                               ("set.ckl::intersection", "Set->intersection(a, b)", lambda ina, inb: z3.And(ina, inb)),
                               ("set.ckl::diff", "Set->diff(a, b)", lambda ina, inb: z3.And(ina, z3.Not(inb))),
                               ("set.ckl::symmetric_diff", "Set->symmetric_diff(a, b)", lambda ina, inb: z3.Xor(ina, inb))):
        for n in (1, 2):
            U.append(set_unit(fname, text, n, mspec))

    return U


# ----------------------------------------------------------------------------- replay / bounded

def _interp(legacy=True):
    import importlib
    import sys
    import os
    root = os.path.join(os.environ.get("VERIF_REPO", "/repo"), "src")
    if root not in sys.path:
        sys.path.insert(0, root)
    for m in [k for k in sys.modules if k == "ckl" or k.startswith("ckl.")]:
        del sys.modules[m]
    return importlib.import_module("ckl.interpreter").Interpreter(True, legacy)


def replay_lang(cases):
    def replay(fail):
        it = _interp()
        errs = __import__("ckl.errors").errors
        for src, exp in cases:
            try:
                obs = str(it.interpret(src, "-"))
            except errs.CklRuntimeError:
                obs = "ERR"
            except Exception as e:
                obs = "HOST:" + repr(e)
            if obs != exp:
                return {"reproduced": True, "input": src, "observed": obs, "expected": exp}
        return {"reproduced": False}
    return replay


def bounded(tier, seed):
    from . import cklib
    return cklib.run("C19", tier, seed)
