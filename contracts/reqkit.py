"""Harness for NodeRequire.evaluate (shared by C10 and C11): real Environment frames, abstract file system and parser."""
import z3

from pyvc.values import Obj, PList, PDict, Builtin, SElem, SStr, zi
from pyvc.world import BytesVal, World
from .nodekit import NodeKit, VAL, ERR, trace, val_id

MISSING = World.MISSING


def frame(w, name, parent, bindings=None, base=False):
    E = w.import_module("ckl.functions").ns["Environment"]
    pd = PDict([[k, v] for k, v in (bindings or {}).items()])
    pd.fresh = False
    o = Obj(E, {"map": pd, "parent": parent}, label=name)
    if base:
        o.fields["modules"] = PDict([])
        o.fields["modulestack"] = PList([])
        o.fields["modules"].fresh = False
        o.fields["modulestack"].fresh = False
    o.fresh = False
    return o


class Scenario:
    def __init__(self, cached=False, source="bundled", body="ok", form="plain", alias=None, stack=("Outer",), spec="Mod", symbols=None):
        self.cached, self.source, self.body, self.form, self.alias, self.stack, self.spec = cached, source, body, form, alias, list(stack), spec
        self.symbols = symbols

    def __str__(self):
        return f"{self.spec},{'cached' if self.cached else self.source},body {self.body},{self.form}{' as ' + self.alias if self.alias else ''}"


def build(w, V, K, it, sc):
    """returns (node, importer_env, ctx)"""
    nodes = w.import_module("ckl.nodes").ns
    vals = w.import_module("ckl.values").ns
    base = frame(w, "base", None, {"checkerlang_secure_mode": V.TRUE}, base=True)
    for m in sc.stack:
        base.fields["modulestack"].items.append(m)
    importer = frame(w, "importer", frame(w, "session", base, {"sessionvar": V.TRUE}), {"importervar": V.FALSE})
    inner_mod = Obj(vals["ValueObject"], {"value": PDict([]), "isModule": True, "info": ""})
    inner_mod.fresh = False
    pub1, pub2, priv = SElem(z3.Int("pub1"), "value"), SElem(z3.Int("pub2"), "value"), SElem(z3.Int("priv"), "value")
    K.singleton_axiom(it, pub1.z)
    K.singleton_axiom(it, pub2.z)
    K.singleton_axiom(it, priv.z)
    from .nodekit import KIND, K_OBJECT
    for v in (pub1, pub2, priv):
        it.path.assume(KIND(v.z) != K_OBJECT, check=False)      # plain data values (the nested module object is `inner`)
    symbols = {"pub1": pub1, "_priv": priv, "inner": inner_mod, "pub2": pub2}
    ctx = {"base": base, "importer": importer, "symbols": symbols, "evaluated_in": [], "parsed": [], "fs": []}
    ident = sc.spec.split("/")[-1]
    if ident.endswith(".ckl"):
        ident = ident[:-4]
    ctx["ident"] = ident
    if sc.cached:
        menv = frame(w, "cachedmodule", base, dict(symbols))
        base.fields["modules"].entries.append([ident, menv])
        ctx["cached_env"] = menv

    def on_eval(it_, node, env, p):
        ctx["evaluated_in"].append(env)
        if sc.body == "ok":
            for k_, v_ in symbols.items():
                env.fields["map"].entries.append([k_, v_])
    modnode = K.node("modulebody", on_eval=on_eval)
    if sc.body == "ok":
        it.path.assume(z3.Not(ERR(z3.IntVal(0))), check=False)
    else:
        it.path.assume(ERR(z3.IntVal(0)), check=False)

    def parse_abs(it_, a, k, n):
        ctx["parsed"].append((a[0], a[1] if len(a) > 1 else None))
        if sc.body == "syntax":
            e = Obj(w.import_module("ckl.errors").ns["CklSyntaxError"], {"msg": "bad module", "pos": None, "args": ()})
            from pyvc.interp import PyRaise
            raise PyRaise(e)
        return modnode

    def external_call(it_, full, a, k, n):
        ctx["fs"].append(full)
        if full == "pkgutil.get_data":
            if sc.source == "bundled":
                return BytesVal(SStr(z3.String("bundledsrc")))
            if sc.source == "bundled-missing-raises":
                it_.throw("FileNotFoundError", "no such resource", n)
            return None
        if full == "os.path.basename":
            return a[0].split("/")[-1] if isinstance(a[0], str) else it_.fresh_str("basename")
        if full == "os.path.expanduser":
            return "/home/u/.ckl/modules"
        if full == "os.path.join":
            return "/".join(a) if all(isinstance(x, str) for x in a) else it_.fresh_str("path")
        if full == "os.path.exists":
            return sc.source == "userdir"
        return MISSING
    # the require node is what the real parser builds from the statement text (so the representation of the import list is the
    # parser's own, and the parser's handling of the list is part of what is verified)
    pairs = list(sc.symbols.items()) if isinstance(sc.symbols, dict) else list(sc.symbols or [])
    text = "require " + (sc.spec if "/" not in sc.spec else "'" + sc.spec + "'")
    if sc.form == "unqualified":
        text += " unqualified"
    elif sc.form == "import":
        text += " import [" + ", ".join(k_ if k_ == a_ else f"{k_} as {a_}" for k_, a_ in pairs) + "]"
    elif sc.alias:
        text += " as " + sc.alias
    saved = it.abstractions, it.max_unroll
    it.abstractions, it.max_unroll = {}, 10 * len(text) + 100      # the scanner runs over a concrete text: plain execution
    try:
        node = it.call(w.func("parser.py::parse_script"), [text, "importer.ckl"])
    finally:
        it.abstractions, it.max_unroll = saved
    if not (isinstance(node, Obj) and node.cls.name == "NodeRequire"):
        it.unsupported("the parser did not build a require node from " + text)
    node.fresh = False
    ctx["text"] = text
    ctx["abstractions"] = {"parse_script": parse_abs}
    ctx["external_call"] = external_call
    return node, importer, ctx


def install(w, K, ctxholder):
    def prep(world):
        K.install(world)
        world.hooks["external_call"] = lambda it, full, a, k, n: (ctxholder["ctx"]["external_call"](it, full, a, k, n)
                                                                  if ctxholder.get("ctx") else MISSING)

        def open_hook(it, a, k, n):
            ctxholder["ctx"]["fs"].append("open")
            return Obj(world.builtin_classes["file"], {"_content": SStr(z3.String("usersrc"))})
        world.hooks["open"] = open_hook
    return prep
