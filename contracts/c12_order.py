"""C12/C07: the value order used to enumerate sets and map keys is a strict total order on data values of *all* kinds.

sorted() canonicalises the host iteration order of a set only if the order it sorts by is asymmetric, transitive and total
on unequal values; C07 proves that per kind.  Across kinds the real `__lt__` methods mix three mechanisms (numeric
comparison inside the number/date family, native comparison inside strings, booleans, lists, comparison of the rendered
texts everywhere else), and mixing is where cycles come from (`date < 3 < 100000000 < date` on the pinned tree).

The argument has three layers, each decided by the solver:

  L1  *mode lemmas* (real code): for every ordered pair of kinds, `a.__lt__(b)` is executed symbolically and must equal
      the formula of the pair's mode -- TEXT: repr(a) <_text repr(b); NUM: value(a) < value(b); DATE<NUM: num(d) < n;
      NUM<DATE: n <= num(d)  (num(d) = yyyymmddHHMMSS as an integer).  Same-kind pairs are C07's units.
  L2  *shape lemmas* (real `__repr__`s): the first character class of the rendering of each kind, the sign link for
      numbers, the distinguishing prefixes of the kinds that start with '<'.
  L3  *order theorem* (no code, z3 over the two tables): for three arbitrary values of arbitrary kinds, with renderings
      abstracted to (first character, tail) where tails carry an uninterpreted strict total order -- lexicographic order of
      non-empty strings is exactly "first character, then tail" (lemma L3.0, proved on z3 strings) -- the relation defined by
      the mode table is irreflexive, asymmetric, transitive and total on values whose renderings or numbers differ.

Outside the theorem (stated in DESIGN.md): NaN, objects with a user-defined `_str_`, streams and nodes as set elements.
"""
import itertools
import z3

from pyvc.verify import Unit, Outcome
from pyvc.values import SInt, SStr, SBool, SFloat, SElem, Obj, PList, zi, zr, zs, zb, mk_bool
from pyvc.world import dt_key, dt_valid, new_datetime
from .common import Vals

DATA = ["null", "true", "false", "int", "decimal", "string", "date", "pattern", "list0", "set0", "map0", "object0", "func"]
NUMK = ("int", "decimal")


def mode(k1, k2):
    if k1 in NUMK and k2 in NUMK:
        return "NUM"
    if k1 == "date" and k2 == "date":
        return "DATE"
    if k1 == "date" and k2 in NUMK:
        return "DATE<NUM"
    if k1 in NUMK and k2 == "date":
        return "NUM<DATE"
    if k1 in ("true", "false") and k2 in ("true", "false"):
        return "BOOL"
    if k1 == k2 and k1 in ("string", "pattern"):
        return "PAYLOAD"
    if k1 == k2 == "list0":
        return "LIST"
    if k1 == k2 == "func":
        return "FUNC"
    return "TEXT"


# first-character classes of the renderings (code points); proved per kind by the L2 units
FC = {"null": [ord("N")], "true": [ord("T")], "false": [ord("F")], "int": [ord("-")] + list(range(48, 58)),
      "decimal": [ord("-")] + list(range(48, 58)) + [ord("i"), ord("n")], "string": [ord("'")], "date": list(range(48, 58)),
      "pattern": [ord("/")], "list0": [ord("[")], "set0": [ord("<")], "map0": [ord("<")], "object0": [ord("<")], "func": [ord("<")]}


def date_num(d):
    f = d.fields
    return (((((zi(f["year"]) * 100 + zi(f["month"])) * 100 + zi(f["day"])) * 100 + zi(f["hour"])) * 100 + zi(f["minute"])) * 100 + zi(f["second"]))


def units(w):
    import ast
    V = Vals(w)
    U = []
    vals = w.import_module("ckl.values").ns

    # ------------------------------------------------------------------ L1: mode lemmas on the real __lt__
    def l1_unit(k1, k2):
        m = mode(k1, k2)

        def setup(it):
            x, y = V.of_kind(it, k1, "x"), V.of_kind(it, k2, "y")
            return [], {}, {"x": x, "y": y}

        def body(it, c):
            return Outcome("return", it.compare(ast.Lt(), c["x"], c["y"], None))

        def post(it, c, o):
            x, y = c["x"], c["y"]
            r = o.value.z if isinstance(o.value, SBool) else z3.BoolVal(bool(o.value))
            if m == "TEXT":
                want = zs(it.py_str(x)) < zs(it.py_str(y))
            elif m == "DATE<NUM":
                want = z3.ToReal(date_num(x.fields["value"])) < zr(y.fields["value"])
            else:
                want = zr(x.fields["value"]) <= z3.ToReal(date_num(y.fields["value"]))
            it.check(f"post:compares-by-{m}", r == want)
        return Unit(f"values.py::{x_cls(k1)}.__lt__", setup, post, name=f"values.py::{x_cls(k1)}.__lt__[{k1} < {k2}: mode {m}]", body=body, allowed=(),
                    config={"repr_mode": "named"})

    def x_cls(k):
        return {"null": "ValueNull", "true": "ValueBoolean", "false": "ValueBoolean", "int": "ValueInt", "decimal": "ValueDecimal", "string": "ValueString",
                "date": "ValueDate", "pattern": "ValuePattern", "list0": "ValueList", "set0": "ValueSet", "map0": "ValueMap", "object0": "ValueObject",
                "func": "ValueFunc"}[k]
    for k1 in DATA:
        for k2 in DATA:
            if mode(k1, k2) in ("TEXT", "DATE<NUM", "NUM<DATE") and not (k1 == k2 and k1 in ("null", "true", "false")):
                U.append(l1_unit(k1, k2))

    # functions: by text, equal texts by creation order
    def s_func(it):
        f, g = V.func(it, "f"), V.func(it, "g")
        f.fields["name"], g.fields["name"] = SStr(z3.String("fname")), SStr(z3.String("gname"))
        f.fields["serial"], g.fields["serial"] = SInt(z3.Int("fserial")), SInt(z3.Int("gserial"))
        return [], {}, {"f": f, "g": g}

    def p_func(it, c, o):
        r = o.value.z if isinstance(o.value, SBool) else z3.BoolVal(bool(o.value))
        tf, tg = zs(it.py_str(c["f"])), zs(it.py_str(c["g"]))
        it.check("post:functions-compare-by-text-then-by-creation-order", r == z3.Or(tf < tg, z3.And(tf == tg, z3.Int("fserial") < z3.Int("gserial"))))
    U.append(Unit("values.py::ValueFunc.__lt__", s_func, p_func, name="values.py::ValueFunc.__lt__[func < func: mode FUNC]", allowed=(),
                  body=lambda it, c: Outcome("return", it.compare(ast.Lt(), c["f"], c["g"], None)), config={"repr_mode": "inline"}))

    # ------------------------------------------------------------------ L2: shapes of the renderings (real __repr__)
    def char_in(r, codes):
        c0 = z3.StrToCode(z3.SubString(r, 0, 1))
        return z3.And(z3.Length(r) >= 1, z3.Or(*[c0 == c for c in codes]))

    def l2_unit(k, extra=None):
        def setup(it):
            x = V.of_kind(it, k, "x")
            if k == "object0":
                pass
            return [], {}, {"x": x}

        def body(it, c):
            return Outcome("return", it.py_str(c["x"]))

        def post(it, c, o):
            r = zs(o.value)
            it.check(f"post:the-rendering-of-a-{k}-starts-with-one-of-{''.join(chr(c_) for c_ in FC[k])!r}", char_in(r, FC[k]))
            if extra:
                for nm, f in extra(it, c["x"], r):
                    it.check("post:" + nm, f)
        return Unit(f"values.py::{x_cls(k)}.__repr__", setup, post, name=f"values.py::{x_cls(k)}.__repr__[shape of the rendering of a {k}]", body=body, allowed=(),
                    config={"repr_mode": "inline"})

    def x_int(it, x, r):
        v = zi(x.fields["value"])
        c0 = z3.StrToCode(z3.SubString(r, 0, 1))
        return [("negative-ints-and-only-they-start-with-a-minus-sign", (v < 0) == (c0 == ord("-")))]

    def x_set(it, x, r):
        return [("a-set-starts-with-<<-and-its-third-character-is-not-<", z3.And(z3.PrefixOf(z3.StringVal("<<"), r), z3.SubString(r, 2, 1) != z3.StringVal("<")))]

    def x_pre(p):
        return lambda it, x, r: [(f"starts-with-{p}", z3.PrefixOf(z3.StringVal(p), r))]
    EXTRA = {"int": x_int, "set0": x_set, "map0": x_pre("<<<"), "object0": x_pre("<*"), "func": x_pre("<#"), "pattern": x_pre("//"), "null": x_pre("NULL"),
             "true": x_pre("TRUE"), "false": x_pre("FALSE")}
    for k in DATA:
        if k in ("decimal", "date"):
            continue      # repr(float) and strftime are host functions: their shapes are assumed contracts (pyvc/world.py), see L3 assumptions
        U.append(l2_unit(k, EXTRA.get(k)))

    # the same shapes for containers that hold elements (1 and 2 opaque elements; the prefix is written before any element)
    def l2_filled(k, n):
        def setup(it):
            from .c07 import ELT
            es = [SElem(z3.Int(f"e{i}")) for i in range(n)]
            for p_, q_ in itertools.combinations(es, 2):
                it.assume(p_.z != q_.z)
                it.assume(ELT(p_.z) != ELT(q_.z))
            x = {"list0": lambda: V.list_of(it, es, "x"), "set0": lambda: V.set_of(it, es, "x"),
                 "map0": lambda: V.map_of(it, [(e, SElem(z3.Int(f"v{i}"), "val")) for i, e in enumerate(es)], "x"),
                 "object0": lambda: V.object_of(it, [(f"m{i}", e) for i, e in enumerate(es)], "x")}[k]()
            return [], {}, {"x": x}

        def post(it, c, o):
            r = zs(o.value)
            it.check(f"post:the-rendering-starts-with-one-of-{''.join(chr(c_) for c_ in FC[k])!r}", char_in(r, FC[k]))
            if k in EXTRA:
                for nm, f in EXTRA[k](it, c["x"], r):
                    it.check("post:" + nm, f)

        def prep(world):
            from .c07 import install_elem_order
            install_elem_order(world)
        return Unit(f"values.py::{x_cls(k)}.__repr__", setup, post, name=f"values.py::{x_cls(k)}.__repr__[shape of the rendering, {n} elements]",
                    body=lambda it, c: Outcome("return", it.py_str(c["x"])), allowed=(), config={"repr_mode": "inline"}, prepare=prep,
                    bounded="containers of <= 2 elements (the prefix does not depend on the elements)")
    for k in ("list0", "set0", "map0", "object0"):
        for n in (1, 2):
            U.append(l2_filled(k, n))

    # ------------------------------------------------------------------ L3: the order theorem over the two tables
    def lemma(name, build, prefer="z3"):
        def body(it, c):
            for nm, f in build():
                it.check("lemma:" + nm, f, assume=False)
            return Outcome("return", None)
        return Unit(None, lambda it: ([], {}, {}), None, name="lemma::" + name, body=body, canary=False, config={"prefer": prefer})

    def l30a():
        c1, c2, ts, tt = z3.Strings("c1 c2 ts tt")
        one = z3.And(z3.Length(c1) == 1, z3.Length(c2) == 1)
        return [("text-order-of-(character ++ tail)-is-character-then-tail",
                 z3.Implies(one, (z3.Concat(c1, ts) < z3.Concat(c2, tt)) == z3.Or(c1 < c2, z3.And(c1 == c2, ts < tt))))]
    U.append(lemma("L3.0a lexicographic order of non-empty texts = (first character, tail)", l30a, prefer="z3cli"))

    def l30b():
        c1, c2 = z3.Strings("c1 c2")
        one = z3.And(z3.Length(c1) == 1, z3.Length(c2) == 1)
        return [("one-character-texts-are-ordered-by-code-point", z3.Implies(one, (c1 < c2) == (z3.StrToCode(c1) < z3.StrToCode(c2)))),
                ("one-character-texts-are-equal-iff-their-code-points-are", z3.Implies(one, (c1 == c2) == (z3.StrToCode(c1) == z3.StrToCode(c2))))]
    U.append(lemma("L3.0b one-character texts are ordered by code point", l30b, prefer="cvc5"))

    def l3():
        K = {k: i for i, k in enumerate(DATA)}
        TL = z3.Function("tail_lt", z3.IntSort(), z3.IntSort(), z3.BoolSort())      # strict total order on tails (ids)
        PL = z3.Function("payload_lt", z3.IntSort(), z3.IntSort(), z3.BoolSort())   # native order inside string / pattern / list (C07)
        names = ("a", "b", "c")
        k = {n: z3.Int("k_" + n) for n in names}
        fc = {n: z3.Int("fc_" + n) for n in names}
        tl = {n: z3.Int("tl_" + n) for n in names}
        pl = {n: z3.Int("pl_" + n) for n in names}
        nv = {n: z3.Real("n_" + n) for n in names}
        sr = {n: z3.Int("serial_" + n) for n in names}
        facts = []
        for n in names:
            facts.append(z3.And(k[n] >= 0, k[n] < len(DATA)))
            for kind, i in K.items():
                facts.append(z3.Implies(k[n] == i, z3.Or(*[fc[n] == c for c in FC[kind]])))
            # the sign link of numbers (L2 for ints; assumed for repr(float)); dates are positive numerals
            isnum = z3.Or(k[n] == K["int"], k[n] == K["decimal"])
            facts.append(z3.Implies(isnum, (nv[n] < 0) == (fc[n] == ord("-"))))
            facts.append(z3.Implies(z3.And(isnum, nv[n] >= 0, fc[n] != ord("i"), fc[n] != ord("n")), z3.And(fc[n] >= 48, fc[n] <= 57)))
            facts.append(z3.Implies(z3.And(k[n] == K["decimal"], z3.Or(fc[n] == ord("i"), fc[n] == ord("n"))), False))      # no inf / nan
            facts.append(z3.Implies(k[n] == K["date"], nv[n] > 0))
            facts.append(z3.Implies(k[n] == K["int"], z3.IsInt(nv[n])))
        # uninterpreted strict total orders, instantiated on the three values
        for R, key in ((TL, tl), (PL, pl)):
            for x, y, z_ in itertools.product(names, repeat=3):
                facts.append(z3.Implies(z3.And(R(key[x], key[y]), R(key[y], key[z_])), R(key[x], key[z_])))
            for x, y in itertools.product(names, repeat=2):
                facts.append(z3.Not(z3.And(R(key[x], key[y]), R(key[y], key[x]))))
                facts.append(z3.Or(R(key[x], key[y]), R(key[y], key[x]), key[x] == key[y]))
        # booleans: TRUE and FALSE are single values; NULL too
        # the kinds that start with '<': their renderings differ between kinds (L2 prefixes): the tails of two such values of
        # different kinds are different and ordered by the prefix "<" < "*" ... -- only distinctness is needed here
        lt_kinds = [K["set0"], K["map0"], K["object0"], K["func"]]
        for x, y in itertools.product(names, repeat=2):
            facts.append(z3.Implies(z3.And(z3.Or(*[k[x] == i for i in lt_kinds]), z3.Or(*[k[y] == i for i in lt_kinds]), k[x] != k[y]), tl[x] != tl[y]))

        def text_lt(x, y):
            return z3.Or(fc[x] < fc[y], z3.And(fc[x] == fc[y], TL(tl[x], tl[y])))

        def lt(x, y):
            out = text_lt(x, y)
            for k1, i in K.items():
                for k2, j in K.items():
                    m = mode(k1, k2)
                    if m == "TEXT":
                        continue
                    here = z3.And(k[x] == i, k[y] == j)
                    if m in ("NUM", "DATE", "DATE<NUM"):
                        f = nv[x] < nv[y]
                    elif m == "NUM<DATE":
                        f = nv[x] <= nv[y]
                    elif m == "BOOL":
                        f = z3.BoolVal(k1 == "false" and k2 == "true")
                    elif m in ("PAYLOAD", "LIST"):
                        f = PL(pl[x], pl[y])
                    else:      # FUNC
                        f = z3.Or(text_lt(x, y), z3.And(fc[x] == fc[y], tl[x] == tl[y], sr[x] < sr[y]))
                    out = z3.If(here, f, out)
            return out

        def same(x, y):
            """x and y are not distinguished by what their kind's comparison looks at (then they are equal values: C06/C08)"""
            num = lambda n: z3.Or(k[n] == K["int"], k[n] == K["decimal"])
            kin = lambda n, names_: z3.Or(*[k[n] == K[q] for q in names_])
            return z3.Or(z3.And(num(x), num(y), nv[x] == nv[y]),
                         z3.And(k[x] == k[y], kin(x, ("null", "true", "false"))),
                         z3.And(k[x] == k[y], k[x] == K["date"], nv[x] == nv[y]),
                         z3.And(k[x] == k[y], kin(x, ("string", "pattern", "list0")), pl[x] == pl[y]),
                         z3.And(k[x] == k[y], kin(x, ("set0", "map0", "object0")), fc[x] == fc[y], tl[x] == tl[y]),
                         z3.And(k[x] == k[y], k[x] == K["func"], tl[x] == tl[y], sr[x] == sr[y]))
        pre = z3.And(*facts)
        a, b, c = names
        # vacuity guard: the facts are satisfiable, for every choice of three kinds
        sat_all = True
        chk = z3.Solver()
        chk.add(pre)
        for ka in range(len(DATA)):
            chk.push()
            chk.add(k[a] == ka, k[b] == (ka + 1) % len(DATA), k[c] == (ka + 5) % len(DATA))
            sat_all = sat_all and chk.check() == z3.sat
            chk.pop()
        return [("the-facts-about-renderings-and-numbers-are-satisfiable-for-every-kind", z3.BoolVal(sat_all)),
                ("irreflexive", z3.Implies(pre, z3.Not(lt(a, a)))),
                ("asymmetric", z3.Implies(pre, z3.Not(z3.And(lt(a, b), lt(b, a))))),
                ("transitive", z3.Implies(z3.And(pre, lt(a, b), lt(b, c)), lt(a, c))),
                ("total-on-values-that-differ", z3.Implies(z3.And(pre, z3.Not(same(a, b))), z3.Or(lt(a, b), lt(b, a))))]
    U.append(lemma("L3 the mode table defines a strict total order on data values of all kinds", l3))

    # date: the numeral is strictly monotone in chronological order (so DATE mode = numeric order of the numerals)
    def l_date():
        d1, d2 = V_date("p"), V_date("q")
        return [("the-yyyymmddHHMMSS-numeral-is-strictly-monotone-in-time",
                 z3.Implies(z3.And(dt_valid(d1), dt_valid(d2)), (dt_key(d1) < dt_key(d2)) == (date_num(d1) < date_num(d2))))]

    def V_date(p):
        return new_datetime(w, *[SInt(z3.Int(f"{p}.{f}")) for f in ("year", "month", "day", "hour", "minute", "second")], 0)
    U.append(lemma("L3.1 date numerals are monotone in chronological order", l_date))
    return U
