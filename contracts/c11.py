"""C11 - require binds exactly the requested names and evaluates each module once."""
import z3

from pyvc.verify import Unit, Outcome
from pyvc.values import SInt, SStr, SElem, SBool, Obj, PList, PDict, zi, zs
from pyvc.runner import BoundedResult
from .common import Vals, cls_name
from .nodekit import NodeKit, trace, val_id, VAL, ERR, KIND
from .reqkit import Scenario, build, install, frame
from .c10 import _Abs

MANIFEST_ENTRY = {
    "category": "proof",
    "text": "for the real NodeRequire.evaluate with an abstract file system, parser and module body, and a module environment holding public, underscore-private and nested-module symbols: the plain and `as` forms add exactly one binding (the module name or alias) holding a module object whose members are the module's public, non-module symbols - the very value objects of the module environment; `import [a as b]` adds exactly the listed public symbols under their aliases; `unqualified` adds exactly the public symbols; underscore names are never exported and no other key of the importer's frame, no other frame and no other state except the module cache and load stack changes; the module body is evaluated iff the module is not cached, exactly once, in a fresh child of the *base* frame (so it cannot see importer variables), and the cached environment is reused without parsing or evaluating; a module already on the load stack is a language error; module text is parsed under the name mod:<module>; module graphs on the real interpreter by bounded generation; the require node of every unit is built by the real parser from the statement text; import lists with a symbol listed twice and the empty list; Interpreter.interpret leaves the interpreter's module load stack in place while a script runs",
    "note": "a requested but missing symbol in `import [...]` is silently ignored (the property does not speak about it); file lookup abstract; the three statement forms of the parser by bounded parsing",
    "technique": "deductive verification: frame postconditions of the importer environment (pyvc + z3) over all forms x cache states x sources; bounded module graphs as cross-check",
}
PROPERTY = "C11"
LEVEL = "proof"
TRUSTED = ["single base frame per interpreter (C10) - hence one cache per interpreter"]
ASSUMPTIONS = ["file lookup abstract", "module body abstract: it defines a fixed set of public/private/module symbols"]
EXPLANATION = "exact-frame postconditions for the three binding forms; evaluate-at-most-once via the cache; isolation via the base frame"


def units(w):
    V = Vals(w)
    K = NodeKit(w, V)
    U = []
    holder = {}

    def req_unit(sc):
        def setup(it):
            K.axioms(it)
            node, importer, ctx = build(w, V, K, it, sc)
            holder["ctx"] = ctx
            return [node, importer], {}, ctx

        def post(it, c, o):
            it.check("post:succeeds", o.kind == "return")
            if o.kind != "return":
                return
            imp = c["importer"].fields["map"].entries
            keys = [e[0] for e in imp]
            sym = c["symbols"]
            pub = [k for k in sym if not k.startswith("_")]
            it.check("post:importer's-own-bindings-untouched", keys[0] == "importervar" and imp[0][1] is V.FALSE)
            new = {e[0]: e[1] for e in imp[1:]}
            if sc.form == "plain":
                name = sc.alias or c["ident"]
                it.check("post:exactly-one-new-binding-named-after-the-module-or-alias", list(new.keys()) == [name])
                obj = new.get(name)
                it.check("post:it-is-a-module-object", isinstance(obj, Obj) and cls_name(obj) == "ValueObject" and obj.fields.get("isModule") is True)
                if isinstance(obj, Obj) and cls_name(obj) == "ValueObject":
                    members = {e[0]: e[1] for e in obj.fields["value"].entries}
                    want = [k for k in pub if k != "inner"]
                    it.check("post:members-are-exactly-the-public-non-module-symbols(no-underscore-names)", sorted(members.keys()) == sorted(want))
                    it.check("post:members-are-the-module's-own-value-objects(shared-not-copied)",
                             all(val_id(members[k], V) is not None and z3.is_true(z3.simplify(val_id(members[k], V) == val_id(sym[k], V))) for k in want if k in members))
            elif sc.form == "unqualified":
                it.check("post:exactly-the-public-symbols-are-added", sorted(new.keys()) == sorted(pub))
                it.check("post:bound-to-the-module's-own-values", all(
                    (new[k] is sym[k]) or (val_id(new[k], V) is not None and val_id(sym[k], V) is not None
                                           and z3.is_true(z3.simplify(val_id(new[k], V) == val_id(sym[k], V)))) for k in pub if k in new))
            else:
                pairs_ = list(sc.symbols.items()) if isinstance(sc.symbols, dict) else list(sc.symbols or [])
                want = {alias: k for k, alias in pairs_ if k in pub}
                it.check("post:exactly-the-listed-public-symbols-under-their-aliases", sorted(new.keys()) == sorted(want.keys()))
                it.check("post:bound-to-the-module's-own-values", all(
                    val_id(new[a], V) is not None and z3.is_true(z3.simplify(val_id(new[a], V) == val_id(sym[k], V))) for a, k in want.items() if a in new))
            it.check("post:underscore-names-never-exported", not any(k.startswith("_") for k in new))
            # no other frame is written
            sess = c["importer"].fields["parent"]
            it.check("post:no-other-frame-changed", [e[0] for e in sess.fields["map"].entries] == ["sessionvar"]
                     and [e[0] for e in c["base"].fields["map"].entries] == ["checkerlang_secure_mode"])
            # evaluation at most once, in a fresh child of the base frame
            if sc.cached:
                it.check("post:cached-module-is-neither-parsed-nor-evaluated-again", not c["parsed"] and not c["evaluated_in"] and not c["fs"])
            else:
                it.check("post:module-body-evaluated-exactly-once", len(c["evaluated_in"]) == 1 and len(c["parsed"]) == 1)
                if len(c["evaluated_in"]) == 1:
                    menv = c["evaluated_in"][0]
                    it.check("post:module-environment-is-a-fresh-child-of-the-base-frame(cannot-see-importer-variables)",
                             isinstance(menv, Obj) and menv.fresh and menv.fields.get("parent") is c["base"])
                    cached = {e[0]: e[1] for e in c["base"].fields["modules"].entries}
                    it.check("post:that-environment-is-what-the-cache-holds(shared-by-later-importers)", cached.get(c["ident"]) is menv)
                if c["parsed"]:
                    nm = c["parsed"][0][1]
                    # the file name carried by every token of the module (and hence by its errors and stack-trace entries) names the
                    # module as required - not the alias it is bound to in this importer
                    spec = sc.spec[:-4] if sc.spec.endswith(".ckl") else sc.spec
                    it.check("post:module-text-parsed-under-the-module's-own-name(mod:<module>, whatever the alias)", nm == "mod:" + spec, detail=str(nm))
        u = Unit("nodes.py::NodeRequire.evaluate", setup, post, name=f"nodes.py::NodeRequire.evaluate[{sc}]",
                 allowed=("CklRuntimeError",), prepare=install(w, K, holder), replay=replay_graphs)
        u.abstractions = _Abs(holder)
        return u
    for cached in (False, True):
        for source in (("bundled", "userdir") if not cached else ("bundled",)):
            U.append(req_unit(Scenario(cached=cached, source=source, form="plain")))
            U.append(req_unit(Scenario(cached=cached, source=source, form="plain", alias="Alias")))
            U.append(req_unit(Scenario(cached=cached, source=source, form="unqualified")))
            U.append(req_unit(Scenario(cached=cached, source=source, form="import", symbols={"pub1": "p", "_priv": "leak", "nosuch": "n"})))
            U.append(req_unit(Scenario(cached=cached, source=source, form="import", symbols={"pub2": "pub2", "pub1": "one"})))
            # a symbol listed twice under two aliases; an empty list
            U.append(req_unit(Scenario(cached=cached, source=source, form="import", symbols=[("pub1", "first"), ("pub2", "two"), ("pub1", "second")])))
            U.append(req_unit(Scenario(cached=cached, source=source, form="import", symbols=[])))
    U.append(req_unit(Scenario(cached=False, source="userdir", form="plain", spec="dir/Mod.ckl")))

    # hosts store the module path where module code can see it (the base frame)
    import ast

    def host_unit(file):
        def body(it, c):
            fn = w.repo.module(file).functions.get("main")
            targets = []
            if fn is not None:
                for n_ in ast.walk(fn):
                    if isinstance(n_, ast.Call) and isinstance(n_.func, ast.Attribute) and n_.func.attr == "put" and n_.args \
                            and isinstance(n_.args[0], ast.Constant) and n_.args[0].value == "checkerlang_module_path":
                        targets.append(ast.unparse(n_.func.value))
            it.check("post:module-path-is-stored", len(targets) >= 1)
            it.check("post:module-path-is-stored-in-the-base-environment(visible-to-module-code)", all(t.endswith("base_environment") for t in targets))
            return Outcome("return", None)
        return Unit(f"{file}::main", lambda it: ([], {}, {}), None, name=f"{file}::main[module path wiring]", body=body, canary=False)
    U.append(host_unit("run.py"))
    U.append(host_unit("repl.py"))
    # module table and load stack are found through the base of the *current* scope chain - also from a host-supplied scope that
    # Interpreter.interpret attaches for one run (unit of C09)
    from . import c09
    U.extend(u for u in c09.units(w) if "Environment.getBase[" in u.name)
    # the stack of modules being loaded is one per interpreter and stays in place while a script runs - also a script started from
    # module code through run(): a require inside it sees which modules are still loading (cycles are reported, not re-entered)
    from .common import Stubs as _Stubs, real_env as _real_env
    S_ = _Stubs(w)

    def s_interp_stack(it):
        stack = PList(["Outer", "Inner"])
        stack.fresh = False
        base = _real_env(w, it, {"checkerlang_secure_mode": V.FALSE})
        base.fields["modulestack"] = stack
        session = _real_env(w, it, {}, parent=base)
        seen = it.ghost["seen_stack"] = []

        def outcome(it_, env):
            cur = base.fields.get("modulestack")
            seen.append(cur is stack and cur.items == ["Outer", "Inner"])
            return V.NULL
        it.ghost["script"] = S_.node("script", outcome)
        o = Obj(w.import_module("ckl.interpreter").ns["Interpreter"], {"environment": session, "base_environment": base})
        o.fresh = False
        return [o, SStr(z3.String("script")), SStr(z3.String("filename"))], {}, {"base": base, "stack": stack}

    def p_interp_stack(it, c, o):
        it.check("post:the-script-is-evaluated-once", len(it.ghost["seen_stack"]) == 1)
        it.check("post:while-it-runs-the-interpreter's-load-stack-is-in-place-with-the-modules-still-loading", all(it.ghost["seen_stack"]))
        cur = c["base"].fields.get("modulestack")
        it.check("post:and-afterwards-too", cur is c["stack"] and cur.items == ["Outer", "Inner"])
    U.append(Unit("interpreter.py::Interpreter.interpret", s_interp_stack, p_interp_stack, name="interpreter.py::Interpreter.interpret[module load stack stays in place]",
                  abstractions={"parse_script": lambda it, a, k, n: it.ghost["script"]}, replay=replay_graphs))
    return U


# ----------------------------------------------------------------------------- bounded: generated module graphs

def _mods():
    import importlib
    import sys
    import os
    root = os.path.join(os.environ.get("VERIF_REPO", "/repo"), "src")
    if root not in sys.path:
        sys.path.insert(0, root)
    for m in [k for k in sys.modules if k == "ckl" or k.startswith("ckl.")]:
        del sys.modules[m]
    return importlib.import_module("ckl.interpreter"), importlib.import_module("ckl.errors"), importlib.import_module("ckl.values"), importlib.import_module("ckl.parser")


def bounded(tier, seed):
    import random
    import shutil
    import tempfile
    import time
    import os
    t0 = time.time()
    interp, errors, values, parser = _mods()
    fails, ev = [], 0
    rnd = random.Random(seed)
    ngraphs = 60 if tier == "thorough" else 15
    for g in range(ngraphs):
        d = tempfile.mkdtemp(prefix="c11mods", dir=os.environ.get("VERIF_SCRATCH", "/var/tmp"))
        try:
            n = rnd.randint(2, 5)
            names = [f"m{g}x{i}" for i in range(n)]
            deps = {nm: [x for x in names[i + 1:] if rnd.random() < 0.4] for i, nm in enumerate(names)}
            cyclic = rnd.random() < 0.3
            if cyclic:
                deps[names[-1]] = [names[0]]
            for nm in names:
                body = "".join(f"require {x};\n" for x in deps[nm])
                body += f"def loads_{nm} = [];\nappend(counter_hook(), '{nm}');\n" if False else ""
                body += f"def pub_{nm} = '{nm}';\ndef _priv_{nm} = 'secret';\ndef state_{nm} = [0];\ndef bump_{nm}() do state_{nm}[0] = state_{nm}[0] + 1; state_{nm}[0] end;\n"
                body += f"def sees_importer_{nm}() do def r = 'no'; do r = importer_secret catch all r = 'isolated' end; r end;\n"
                with open(os.path.join(d, nm + ".ckl"), "w") as f:
                    f.write(body)
            I = interp.Interpreter(True, False)
            mp = values.ValueList()
            mp.addItem(values.ValueString(d))
            I.base_environment.put("checkerlang_module_path", mp)      # where run.py / repl.py put the -m path
            I.interpret("def importer_secret = 'leak'", "-")
            target = names[0]

            def run(src):
                try:
                    return ("ok", str(I.interpret(src, "-")))
                except errors.CklRuntimeError as e:
                    return ("rt", str(e.msg))
                except Exception as e:
                    return ("host", repr(e))
            ev += 1
            before = set(I.environment.map.keys())
            r = run(f"require {target}")
            reach, stack = set(), [target]
            while stack:
                x = stack.pop()
                if x not in reach:
                    reach.add(x)
                    stack.extend(deps[x])
            has_cycle = cyclic and names[-1] in reach
            if has_cycle:
                if r[0] != "rt" or "ircular" not in r[1]:
                    fails.append({"id": "bounded:cycle-reported-as-error", "input": f"graph {deps} require {target}", "observed": str(r), "expected": "circular dependency error"})
                continue
            if r[0] != "ok":
                fails.append({"id": "bounded:acyclic-graph-loads", "input": f"graph {deps}", "observed": str(r), "expected": "ok"})
                continue
            added = set(I.environment.map.keys()) - before
            if added != {target}:
                fails.append({"id": "bounded:plain-require-binds-only-the-module-name", "input": f"require {target}", "observed": str(sorted(added)), "expected": str([target])})
            checks = [(f"{target}->pub_{target}", f"'{target}'"), (f"{target}->sees_importer_{target}()", "'isolated'"),
                      (f"do {target}->_priv_{target} catch all 'hidden' end", "'hidden'" if True else ""),
                      (f"{target}->bump_{target}(); require {target} as again; again->bump_{target}()", "2"),
                      (f"require {target} import [pub_{target} as alias_x]; alias_x", f"'{target}'"),
                      (f"require {target} unqualified; [pub_{target}, is_null(if_null(NULL, NULL))]", f"['{target}', TRUE]" if False else None)]
            for src, exp in checks:
                if exp is None:
                    continue
                ev += 1
                rr = run(src)
                got = rr[1] if rr[0] == "ok" else str(rr)
                if src.startswith("do ") and rr[0] == "ok" and got in ("NULL", "'hidden'"):
                    continue
                if got != exp:
                    fails.append({"id": "bounded:module-semantics", "input": src, "observed": got, "expected": exp})
            ev += 1
            b2 = set(I.environment.map.keys())
            run(f"require {target} unqualified")
            added = set(I.environment.map.keys()) - b2
            # (module objects bound by the module's own requires are public top-level symbols of the module too)
            if any(a.startswith("_") for a in added) or not all(a.endswith(target) or a in deps[target] for a in added):
                fails.append({"id": "bounded:unqualified-adds-only-public-symbols-of-the-module", "input": f"require {target} unqualified",
                              "observed": str(sorted(added)), "expected": "public symbols of " + target})
        finally:
            shutil.rmtree(d, ignore_errors=True)
    # the statement forms, by what they add to the importer's scope (a bundled module, fresh interpreter each)
    ref = interp.Interpreter(True, False)
    ref.interpret("require Math", "-")
    public = set(ref.environment.map["Math"].value.keys())
    for src, exp in [("require Math", {"Math"}), ("require Math as M2", {"M2"}), ("require Math import [PI, E as e]", {"PI", "e"}),
                     ("require Math import [PI as a, PI as b]", {"a", "b"}), ("require Math import []", set()),
                     ("require Math import [nosuch, PI as p]", {"p"}), ("require Math import [PI as x, E as x]", {"x"}),
                     ("require 'Math.ckl' as Z", {"Z"}), ("require Math unqualified", public)]:
        ev += 1
        J = interp.Interpreter(True, False)
        before = set(J.environment.map.keys())
        try:
            J.interpret(src, "-")
            got = set(J.environment.map.keys()) - before
        except Exception as e:
            got = repr(e)
        if got != exp:
            fails.append({"id": "bounded:require-statement-forms", "input": src, "observed": str(sorted(got) if isinstance(got, set) else got)[:300], "expected": str(sorted(exp))[:300]})
    seen, uniq = set(), []
    for f in fails:
        if f["id"] not in seen:
            seen.add(f["id"])
            uniq.append(f)
    return [BoundedResult("generated module graphs on the real interpreter (user modules in a scratch directory) + parse of the require forms",
                          f"{ngraphs} random graphs of 2..5 modules (30% cyclic) with public/private definitions, mutable state and an isolation probe",
                          ev, ev, uniq, [{"src": "require m0 import [pub_m0 as alias_x]"}], "cross-check of the proof part", time.time() - t0)]


def replay_graphs(fail):
    for b in bounded("quick", 0):
        if b.failures:
            f = dict(b.failures[0])
            f["reproduced"] = True
            return f
    return {"reproduced": False}
