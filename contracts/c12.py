"""C12 - Results do not depend on hash seeds, process or construction order.

Hash seeds and processes influence a run only through the iteration order of host sets (and, for construction order,
dicts). The engine's model of iterating the host container of a ValueSet/ValueMap is "some permutation of the content":
every function that enumerates such a container is run twice on the same abstract content with two independent
permutations and must produce equal results (relational postcondition). Containers have <= 3 elements (symbolic-bounded).
"""
import itertools
import z3

from pyvc.verify import Unit, Outcome
from pyvc.interp import PyRaise
from pyvc.values import SInt, SFloat, SStr, SElem, SBool, Obj, PList, PDict, PSet, zi, zs, zr, mk_bool, is_intlike, is_floatlike, is_strlike
from pyvc.runner import BoundedResult
from .common import Vals, Stubs, real_env, cls_name
from .c07 import ELT, install_elem_order

MANIFEST_ENTRY = {
    'category': 'other',
    'text': "symbolic-bounded relational check: each function that enumerates the host container of a set or map (collection enumeration for loops and comprehensions, spread in calls and list literals, destructuring, conversions between list/set/map/object, rendering, hashing, set arithmetic, membership, sum, ls, zip_map) is executed twice on the same abstract content of up to 3 elements (element values symbolic, ordered by an abstract injective rank) under two independent iteration orders of the host container, and the two outcomes must be equal; the seeded pseudo-random generator is proved to read and write only the module-level seed; plus the property's own experiment in small: generated programs run in fresh processes under 8 (thorough: 32) string-hash seeds must print identical text; stand-ins: consistency of the value order across kinds (asymmetric, total on unequal values, transitive) over a pool of values of every kind on the real classes, permutation invariance of sorted() on mixed lists, and the same program in fresh processes under different hash seeds; proved for all values: the value order that sorted() uses is a strict total order across all data kinds - mode lemmas on the real __lt__ of every ordered pair of kinds (by rendered text / numeric / date numeral), shape lemmas on the real __repr__ of every kind (first-character classes, sign link, distinguishing prefixes), and the order theorem over the two tables (irreflexive, asymmetric, transitive, total on values that differ) with texts abstracted to (first character, tail), justified by a lemma on z3 strings; comprehensions over sets and maps see their elements in sorted order (relational units); the same call of set_seed/random in two processes (string hashes modelled as a function of the process) gives the same result and generator state; map -> object conversion",
    'note': "container size <= 3 is a bound, not a proof; sorted() canonicalises only when __lt__ is a strict total order on the elements (C07: same-kind elements); CPython dicts preserve insertion order and a set's order is fixed during one iteration (assumed); the order theorem excludes NaN, objects with a user-defined _str_, and streams/nodes as set elements; repr(float) and strftime shapes are assumed host contracts",
    'technique': 'contract-based relational check on the real AST with a permutation model of host containers (pyvc + z3, symbolic-bounded); bounded multi-process runs under different hash seeds',
}
PROPERTY = "C12"
LEVEL = "other"
TRUSTED = ["CPython dict preserves insertion order; the iteration order of a set is arbitrary but fixed during one iteration"]
ASSUMPTIONS = ["containers of <= 3 elements in the relational check (symbolic-bounded, not counted as proved)",
               "order theorem: NaN, objects with a user-defined _str_, streams and nodes are outside; first character of repr(float) and the strftime numeral are assumed host contracts",
               "elements are ordered by an injective rank (same-kind elements; C07 proves the order is strict and total per kind)"]
EXPLANATION = ("symbolic-bounded relational check under the permutation model of host containers (<= 3 elements, all pairs of orders), "
               "seed frame of the random generator, and multi-process runs under different PYTHONHASHSEED values")


def install_perm(world):
    install_elem_order(world)

    def order(it, items, container):
        n = len(items)
        if n <= 1:
            return items
        if isinstance(container, PDict) and container.fresh:
            return items      # a dict built by the function itself: CPython iterates it in insertion order (deterministic)
        perms = list(itertools.permutations(range(n)))
        p = perms[it.path.choose(len(perms))]
        return [items[i] for i in p]
    world.hooks["iteration_order"] = order


class _Term:
    """a symbolic number inside a canonical form: two of them are `equal` for the structural comparison; the relational
    obligation then demands their semantic equality (collected in `pairs`)"""
    pairs = []

    def __init__(self, z):
        self.z = z

    def __eq__(self, other):
        if isinstance(other, _Term):
            if not z3.eq(z3.simplify(self.z), z3.simplify(other.z)):
                _Term.pairs.append((self.z, other.z))
            return True
        return False

    def __hash__(self):
        return 0

    def __lt__(self, other):
        return str(self.z) < str(other.z)

    def __repr__(self):
        return str(z3.simplify(self.z))


def canon(it, v, V, depth=0):
    """a python structure to compare two outcomes: lists ordered, sets/maps as sorted-by-term collections"""
    if isinstance(v, SElem):
        return ("e", str(z3.simplify(v.z)))
    if isinstance(v, (str, int, bool, float)) or v is None:
        return ("c", v)
    if isinstance(v, SStr):
        return ("s", str(z3.simplify(v.z)))
    if isinstance(v, (SInt, SFloat, SBool)):
        return ("n", _Term(v.z))
    if isinstance(v, PList):
        return ("list", tuple(canon(it, x, V, depth + 1) for x in (v.items if v.items is not None else [])))
    if isinstance(v, tuple):
        return ("tuple", tuple(canon(it, x, V, depth + 1) for x in v))
    if isinstance(v, PSet):
        return ("set", tuple(sorted(canon(it, x, V, depth + 1) for x in v.items)))
    if isinstance(v, PDict):
        return ("dict", tuple(sorted((canon(it, k, V, depth + 1), canon(it, x, V, depth + 1)) for k, x in v.entries)))
    if isinstance(v, Obj):
        if v is V.TRUE or v is V.FALSE or v is V.NULL:
            return ("single", v.cls.name, str(v.fields.get("value")))
        if v.cls.name == "ValueObject" and isinstance(v.fields.get("value"), PDict):
            # the members of an object are rendered in the order in which they were added: that order is observable
            return ("ValueObject", tuple((canon(it, k, V, depth + 1), canon(it, x, V, depth + 1)) for k, x in v.fields["value"].entries))
        if "value" in v.fields:
            return (v.cls.name, canon(it, v.fields["value"], V, depth + 1))
        return ("obj", v.cls.name)
    return ("?", str(type(v)))


def units(w):
    V = Vals(w)
    S = Stubs(w)
    U = []
    funcs = w.import_module("ckl.functions").ns
    nodes = w.import_module("ckl.nodes").ns
    vals = w.import_module("ckl.values").ns

    def elems(n, prefix="e"):
        return [SElem(z3.Int(f"{prefix}{i}")) for i in range(n)]

    def distinct(it, n, prefix="e"):
        ids = [z3.Int(f"{prefix}{i}") for i in range(n)]
        for p, q in itertools.combinations(ids, 2):
            it.assume(p != q)
            it.assume(ELT(p) != ELT(q))

    def mkset(it, n, name="s"):
        distinct(it, n)
        return V.set_of(it, elems(n), name)

    def mkmap(it, n, name="m"):
        distinct(it, n)
        distinct(it, n, "w")
        return V.map_of(it, list(zip(elems(n), [SElem(z3.Int(f"w{i}"), "val") for i in range(n)])), name)

    def mkstrmap(it, n, name="m"):
        # a map with string keys (object members are named by the key texts): distinct symbolic texts
        ks = [V.string(it, f"key{i}") for i in range(n)]
        for p, q in itertools.combinations(ks, 2):
            it.assume(p.fields["value"].z != q.fields["value"].z)
        return V.map_of(it, list(zip(ks, [SElem(z3.Int(f"w{i}"), "val") for i in range(n)])), name)

    def rel_unit(target, name, build, call, n, allowed=("CklRuntimeError",)):
        """run `call` twice on equal content under independent iteration orders; outcomes must agree"""
        def setup(it):
            return [], {}, {}

        def body(it, c):
            outs = []
            for run in (0, 1):
                args = build(it)
                try:
                    r = call(it, args)
                    outs.append(("return", canon(it, r, V)))
                except PyRaise as e:
                    outs.append(("raise", e.exc.cls.name))
            c["outs"] = outs
            if outs[0][0] == "raise" and outs[0][1] not in allowed and "*" not in allowed:
                it.path.fail(f"{it.target}#escape:{outs[0][1]}", detail="host exception")
            return Outcome("return", outs)

        def post(it, c, o):
            a, b = c["outs"]
            _Term.pairs.clear()
            same_shape = a == b
            it.check("post:same-outcome-for-every-pair-of-iteration-orders", same_shape, detail=f"{a} vs {b}" if not same_shape else "")
            for x, y in list(_Term.pairs):      # numbers computed from the elements (hashes, counts): equal as numbers
                it.check("post:same-number-for-every-pair-of-iteration-orders", x == y if x.sort() == y.sort() else False, detail=f"{x} vs {y}"[:200])
        return Unit(target, setup, post, name=f"{target}[{name}, {n} elements]", body=body, prepare=install_perm, allowed=allowed,
                    bounded="host containers of <= 3 elements, all pairs of iteration orders", replay=replay_seeds, config={"repr_mode": "inline"})

    gcv = w.func("nodes.py::getCollectionValue")
    for n in (0, 1, 2, 3, 4):
        first_new = len(U)
        U.append(rel_unit("nodes.py::getCollectionValue", "set", lambda it, n=n: [mkset(it, n), None], lambda it, a: it.call(gcv, a), n))
        for what in ("keys", "values", "entries"):
            U.append(rel_unit("nodes.py::getCollectionValue", f"map {what}", lambda it, n=n, what=what: [mkmap(it, n), what], lambda it, a: it.call(gcv, a), n))
        # conversions and rendering
        for cls, meth, mk in (("ValueSet", "asList", mkset), ("ValueSet", "getSortedItems", mkset), ("ValueSet", "__repr__", mkset), ("ValueSet", "__hash__", mkset),
                              ("ValueMap", "asList", mkmap), ("ValueMap", "asSet", mkmap), ("ValueMap", "getSortedKeys", mkmap), ("ValueMap", "__repr__", mkmap),
                              ("ValueMap", "__hash__", mkmap), ("ValueMap", "asObject", mkstrmap)):
            if mk is None or (meth == "asObject" and n > 3):      # (string-keyed maps: three distinct symbolic texts are the solver's limit)
                continue
            f = w.func(f"values.py::{cls}.{meth}")
            u = rel_unit(f"values.py::{cls}.{meth}", "receiver", lambda it, n=n, mk=mk: [mk(it, n)], lambda it, a, f=f: it.call_func(f, a, {}), n)
            # rendering 3 elements forks over the bracket padding of symbolic element texts (minutes of string solving): thorough tier
            u.thorough_only = (meth in ("__repr__", "asObject") and n >= 3)
            U.append(u)
        # spread in a list literal and in a call
        def b_listspread(it, n=n):
            node = Obj(nodes["NodeList"], {"items": PList([Obj(nodes["NodeSpread"], {"expression": S.node("s", mkset(it, n)), "pos": None})]), "pos": None})
            return [node, real_env(w, it, {})]
        U.append(rel_unit("nodes.py::NodeList.evaluate", "spread of a set", b_listspread, lambda it, a: it.call(w.func("nodes.py::NodeList.evaluate"), a), n))

        def b_invokespread(it, n=n, kind="set"):
            from .common import StubFuncs
            F = StubFuncs(w)
            fn = F.func("callee", ["rest..."], lambda it_, vs: vs[0] if vs else V.NULL)
            coll = mkset(it, n) if kind == "set" else mkmap(it, n)
            args = PList([Obj(nodes["NodeSpread"], {"expression": S.node("s", coll), "pos": None})])
            return [fn, PList([None]), args, real_env(w, it, {}), V.pos(it)]
        U.append(rel_unit("nodes.py::invoke", "spread of a set", b_invokespread, lambda it, a: it.call(w.func("nodes.py::invoke"), a), n))
        # destructuring from a set
        def b_destr(it, n=n, which="NodeDefDestructuring"):
            fields = {"identifiers": PList(["a", "b", "c"]), "expression": S.node("s", mkset(it, n)), "pos": None}
            if which == "NodeDefDestructuring":
                fields["info"] = ""
            env = real_env(w, it, {"a": V.NULL, "b": V.NULL, "c": V.NULL})
            return [Obj(nodes[which], fields), env]

        def c_destr(which):
            f = w.func(f"nodes.py::{which}.evaluate")

            def call(it, a):
                it.call(f, a)
                return a[1].fields["map"]
            return call
        for which in ("NodeDefDestructuring", "NodeAssignDestructuring"):
            U.append(rel_unit(f"nodes.py::{which}.evaluate", "from a set", lambda it, n=n, which=which: b_destr(it, n, which), c_destr(which), n))
        # for loop over a set / a map: sequence of loop-variable values
        def b_for(it, n=n, kind="set", what="values"):
            seen = PList([])

            def outcome(it_, env):
                ent = [e for e in env.fields["map"].entries if e[0] == "x"]
                seen.items.append(ent[0][1] if ent else None)
                return V.TRUE
            body = S.node("body", outcome)
            coll = mkset(it, n) if kind == "set" else mkmap(it, n)
            node = Obj(nodes["NodeFor"], {"identifiers": PList(["x"]), "expression": S.node("c", coll), "block": body, "what": what, "pos": None})
            return [node, real_env(w, it, {}), seen]

        def c_for(it, a):
            it.call(w.func("nodes.py::NodeFor.evaluate"), a[:2])
            return a[2]
        U.append(rel_unit("nodes.py::NodeFor.evaluate", "set", lambda it, n=n: b_for(it, n, "set"), c_for, n))
        for what in ("keys", "values", "entries"):
            U.append(rel_unit("nodes.py::NodeFor.evaluate", f"map {what}", lambda it, n=n, what=what: b_for(it, n, "map", what), c_for, n))
        # comprehensions over a set / a map: the sequence of values the body sees (its side effects make the order observable)
        def b_comp(it, cls_, n=n, kind="set", what=None):
            seen = PList([])

            def outcome(it_, env):
                ent = [e for e in env.fields["map"].entries if e[0] == "x"]
                seen.items.append(ent[0][1] if ent else None)
                return ent[0][1] if ent else V.NULL
            body = S.node("body", outcome)
            coll = mkset(it, n) if kind == "set" else mkmap(it, n)
            fields = {"valueExpr": body, "identifier": "x", "listExpr": S.node("c", coll), "what": what, "conditionExpr": None, "pos": None}
            if cls_ == "NodeMapComprehension":
                fields["keyExpr"] = body
            return [Obj(nodes[cls_], fields), real_env(w, it, {}), seen]

        def c_comp(cls_):
            def call(it, a):
                it.call(w.func(f"nodes.py::{cls_}.evaluate"), a[:2])
                return a[2]
            return call
        for cls_ in ("NodeListComprehension", "NodeSetComprehension", "NodeMapComprehension"):
            U.append(rel_unit(f"nodes.py::{cls_}.evaluate", "over a set", lambda it, n=n, cls_=cls_: b_comp(it, cls_, n, "set"), c_comp(cls_), n))
            for what in ("keys", "values", "entries"):
                U.append(rel_unit(f"nodes.py::{cls_}.evaluate", f"over a map, {what}", lambda it, n=n, cls_=cls_, what=what: b_comp(it, cls_, n, "map", what), c_comp(cls_), n))

        # destructuring for-loop: the members of a set element are bound in sorted order
        def b_fordestr(it, n=n):
            node = Obj(nodes["NodeFor"], {"identifiers": PList(["a", "b", "c"]), "expression": None, "block": None, "what": None, "pos": V.pos(it)})
            return [node, mkset(it, n)]
        U.append(rel_unit("nodes.py::NodeFor.destructure", "set element", b_fordestr, lambda it, a: it.call(w.func("nodes.py::NodeFor.destructure"), a), n))

        # set arithmetic, sum of a set's list, membership
        def b_arith(it, cname, n=n):
            f = Obj(funcs[cname], {"name": cname, "secure": True})
            a = mkset(it, n)
            b = V.set_of(it, [SElem(z3.Int("e0"))] if n else [], "b")
            return [f, V.args(it, {"a": a, "b": b}), real_env(w, it, {}), V.pos(it)]
        for cname in ("FuncAdd", "FuncSub"):
            U.append(rel_unit(f"functions.py::{cname}.execute", "set op set", lambda it, n=n, cname=cname: b_arith(it, cname, n),
                              lambda it, a, cname=cname: it.call(w.func(f"functions.py::{cname}.execute"), a), n))

        if n == 4:
            keep = []
            for u in U[first_new:]:
                if "__repr__" in u.name or "__hash__" in u.name:
                    continue          # rendering four symbolic element texts: string solving beyond any budget
                u.thorough_only = True
                u.bounded = "host containers of 4 elements, all pairs of iteration orders (thorough tier)"
                keep.append(u)
            U[first_new:] = keep

    # ------------------------------------------------------------------ the value order is a strict total order across kinds
    from .c12_order import units as order_units
    U.extend(order_units(w))

    # ------------------------------------------------------------------ seeded random generator: frame is the module-level seed
    def s_random(it):
        f = Obj(funcs["FuncRandom"], {"name": "random", "secure": True})
        it.global_overlay[("ckl.functions", "seed")] = SInt(z3.Int("seed0"))
        return [f, V.args(it, {}, []), real_env(w, it, {}), V.pos(it)], {}, {}

    def p_random(it, c, o):
        writes = [e for e in it.effects if e[0] == "global-write"]
        it.check("post:reads/writes-only-the-module-level-seed", all(e[1].endswith(".seed") for e in writes), detail=str(writes))
        it.check("frame:no-other-object-written", not it.writes)
    if "FuncRandom" in funcs:
        U.append(Unit("functions.py::FuncRandom.execute", s_random, p_random, allowed=("CklRuntimeError",), replay=replay_seeds))

    # ------------------------------------------------------------------ the same call in two processes: same outcome, same generator state
    # (what differs between processes is modelled by the engine: str hashes are a function of it.ghost["process"]; host set
    #  iteration order is the permutation model above)
    from .c13 import make_value
    from .common import StubFuncs
    PK = ["absent", "null", "true", "int", "decimal", "string", "list1", "set1", "map1", "object1", "func"]

    def proc_unit(cname, argnames):
        def body(it, c):
            F = StubFuncs(w)
            chosen = [PK[it.path.choose(len(PK))] for _ in argnames]
            argvals = {n_: make_value(V, F, it, k_, n_) for n_, k_ in zip(argnames, chosen) if k_ != "absent"}
            env = real_env(w, it, {})
            outs = []
            seed0 = SInt(z3.Int("seed0"))      # "the same random seed": the state after set_seed(n) is an int (FuncSetSeed unit: getInt)
            for run in (0, 1):
                it.ghost["process"] = z3.IntVal(run)
                it.global_overlay[("ckl.functions", "seed")] = seed0
                f = Obj(funcs[cname], {"name": cname, "secure": True})
                try:
                    r = it.call(w.func(f"functions.py::{cname}.execute"), [f, V.args(it, dict(argvals), list(argnames)), env, V.pos(it)])
                    outs.append(("return", r))
                except PyRaise as e:
                    if e.exc.cls.name != "CklRuntimeError":
                        it.path.fail(f"{it.target}#escape:{e.exc.cls.name}", detail="host exception")
                    outs.append(("raise", e.exc.fields.get("value")))
                outs[-1] = outs[-1] + (it.global_overlay.get(("ckl.functions", "seed")),)
            c["outs"] = outs
            return Outcome("return", None)

        def same(it, a, b):
            if isinstance(a, Obj) and isinstance(b, Obj) and a.cls is b.cls and "value" in a.fields and "value" in b.fields:
                return same(it, a.fields["value"], b.fields["value"])
            if is_intlike(a) and is_intlike(b):
                return zi(a) == zi(b)
            if is_floatlike(a) and is_floatlike(b):
                return zr(a) == zr(b)
            if is_strlike(a) and is_strlike(b):
                return zs(a) == zs(b)
            return z3.BoolVal(a is b or canon(it, a, V) == canon(it, b, V))

        def post(it, c, o):
            a, b = c["outs"]
            it.check("post:same-kind-of-outcome-in-both-processes", a[0] == b[0])
            if a[0] == b[0]:
                it.check("post:same-value-or-error-value-in-both-processes", same(it, a[1], b[1]))
            it.check("post:same-generator-state-afterwards-in-both-processes", same(it, a[2], b[2]))
        return Unit(f"functions.py::{cname}.execute", lambda it: ([], {}, {}), post, name=f"functions.py::{cname}.execute[two processes, all kinds]",
                    body=body, replay=replay_seeds)
    for cname, argnames in (("FuncSetSeed", ["n"]), ("FuncRandom", ["a", "b"])):
        if cname in funcs:
            U.append(proc_unit(cname, argnames))
    return U


# ----------------------------------------------------------------------------- bounded: fresh processes under different hash seeds

PROGRAM = r'''
def s = <<'pear', 'apple', 'fig', 'kiwi', 'plum', 'date', 'lime'>>;
def m = <<<'pear' => 1, 'apple' => 2, 'fig' => 3, 'kiwi' => 4>>>;
def mixed = <<3, 'x', 1.5, 'a', 2>>;
def out = [];
append(out, string(s)); append(out, string(m)); append(out, [x for x in s]);
append(out, [k for k in keys m]); append(out, [v for v in values m]); append(out, [e for e in entries m]);
def l = []; for x in s do append(l, x) end; append(out, l);
def l2 = []; for [k, v] in entries m do append(l2, k + v) end; append(out, l2);
append(out, [...s]); append(out, list(s)); append(out, list(m)); append(out, set(list(s)));
append(out, [length(<< <<1, 9>>, <<9, 1>> >>), <<'x', 'y', 'z'>> in << <<'z', 'y', 'x'>> >>, <<< <<2, 10, 18>> => 1>>>[<<18, 10, 2>>], << <<'pear', 'fig'>>, <<'fig', 'pear'>> >>]);
append(out, string(object(m))); append(out, string(object(<<<'z' => 1, 'b' => 2, 'q' => 3>>>))); append(out, [k for k in keys object(m)]);
def f(a...) a...; append(out, f(...s));
def [p, q] = s; append(out, [p, q]);
def r1 = 'z'; def r2 = 'z'; [r1, r2] = s; append(out, [r1, r2]);
append(out, s + <<'zzz'>>); append(out, s - <<'fig'>>); append(out, sorted(list(s))); append(out, string(set([3, 1, 2])));
append(out, map(zip(list(s), list(s)))); append(out, string(<<<'b' => <<2, 1>>, 'a' => <<'q', 'p'>> >>>));
append(out, 'fig' in s); append(out, sum(list(<<5, 1, 3>>)));
require Set; append(out, Set->union(s, <<'kiwi', 'new'>>)); append(out, Set->intersection(s, <<'kiwi', 'fig'>>)); append(out, Set->diff(s, <<'kiwi'>>));
require List; append(out, List->unique(list(s) + list(s)));
set_seed(42); append(out, [random(100), random(100), random(100)]);
for sd in ['alpha', 'beta', 7.5, NULL, [1], <<'s'>>, 77] do append(out, do set_seed(sd); [random(1000), random(1000)] catch all 'no such seed' end) end;
append(out, string(mixed)); append(out, [x for x in mixed]);
def o = <*b = 1, a = 2*>; append(out, string(o)); append(out, [k for k in keys <<<'k2' => 1, 'k1' => 2>>>]);
def l3 = []; for [a, b, c] in [<<'pear', 'apple', 'fig'>>, <<'x', 2, 1.5>>] do append(l3, [a, b, c]) end; append(out, l3);
def l4 = []; for [a, b] in values <<<1 => <<'kiwi', 'lime'>>, 2 => <<'u', 't'>> >>> do append(l4, [a, b]) end; append(out, l4);
def kinds = <<NULL, TRUE, FALSE, 'pear', 'apple', [1, 2], ['a'], 3, -4, 2.5, date('20200101'), 100000000, //a//, <<'in', 'ner'>>, <<<'k' => 'v'>>> >>;
append(out, string(kinds)); append(out, [x for x in kinds]); append(out, list(kinds)); append(out, [...kinds]);
def l5 = []; for x in kinds do append(l5, string(x)) end; append(out, l5);
def [k1, k2, k3, k4] = kinds; append(out, [k1, k2, k3, k4]);
append(out, string(<<<NULL => 1, TRUE => 2, 'pear' => 3, 'apple' => 4, [1] => 5, 7 => 6, date('20200101') => 7>>>));
append(out, sorted([NULL, TRUE, 'pear', [1, 2], 3, 'apple', FALSE, 2.5]));
append(out, [f(1) for f in <<fn(x) x + 1, fn(x) x * 10, fn(x) x - 5, fn(x) 7>>]);
def log1 = []; <<do append(log1, x); x end for x in s>>; append(out, log1);
def log2 = []; <<<do append(log2, x); x end => 1 for x in s>>>; append(out, log2);
def log3 = []; [do append(log3, k); k end for k in keys m]; <<do append(log3, v); v end for v in values m>>; append(out, log3);
do error s catch all append(out, 'caught') end;
println(string(out));
error <<'e2', 'e1'>>;
'''


ORDER_POOL = ["NULL", "TRUE", "FALSE", "0", "3", "-5", "10", "100000000", "20200101000000", "-0.5", "0.5", "2.0", "3.0", "100000000000000000000.0", "-7.25",
              "''", "'a'", "'10'", "'-4'", "'['", "'<'", "'A'", "'\\n'", "'\\''", "'~'", "' '", "'NULL'", "'TRUE'",
              "date('20200101')", "date('19991231')", "date('20200102')",
              "[]", "[1]", "[2]", "[10]", "[1, 2]", "['a']", "[[1]]", "[NULL]", "[TRUE]", "[date('20200101')]", "[2.5]",
              "<<>>", "<<1>>", "<<2>>", "<<10>>", "<<1, 2>>", "<<'a'>>", "<<<>>>", "<<<1 => 2>>>", "<<<'a' => 1>>>", "<<<10 => 1>>>",
              "//a//", "//[0-9]+//", "<*a=1*>", "<*b=2*>", "<**>", "fn(x) x", "fn(y) y + 1", "length", "sum"]


def order_consistency():
    """the value order used for sorting sets and map keys is asymmetric, total on unequal values and transitive over a pool
    of values of every kind (otherwise sorted() output depends on the host iteration order it starts from)"""
    import importlib
    import itertools as itt
    import os
    import sys
    root = os.path.join(os.environ.get("VERIF_REPO", "/repo"), "src")
    if root not in sys.path:
        sys.path.insert(0, root)
    for m in [k for k in sys.modules if k == "ckl" or k.startswith("ckl.")]:
        del sys.modules[m]
    I = importlib.import_module("ckl.interpreter").Interpreter(True, False)
    vals = [(e, I.interpret(e, "pool")) for e in ORDER_POOL]
    fails, ev = [], 0
    for (ea, a), (eb, b) in itt.product(vals, vals):
        ev += 1
        try:
            l1, l2, eq = a < b, b < a, a == b
        except Exception as ex:
            fails.append({"id": "bounded:order-comparison-raises", "input": f"{ea} < {eb}", "observed": repr(ex), "expected": "a boolean"})
            continue
        if l1 and l2:
            fails.append({"id": "bounded:order-asymmetric", "input": f"{ea} , {eb}", "observed": "a < b and b < a", "expected": "at most one"})
        if not l1 and not l2 and not eq:
            fails.append({"id": "bounded:order-total-on-unequal-values", "input": f"{ea} , {eb}", "observed": "neither a < b nor b < a nor a == b",
                          "expected": "exactly one (sorted() keeps incomparable elements in host iteration order)"})
        if eq and (l1 or l2):
            fails.append({"id": "bounded:order-irreflexive-on-equal-values", "input": f"{ea} , {eb}", "observed": "a == b and a < b", "expected": "not both"})
    for (ea, a), (eb, b), (ec, c) in itt.product(vals, vals, vals):
        ev += 1
        if a < b and b < c and not a < c:
            fails.append({"id": "bounded:order-transitive", "input": f"{ea} < {eb} < {ec}", "observed": "not a < c", "expected": "a < c"})
            if len(fails) > 20:
                break
    # and the observable consequence: every permutation of a mixed list sorts to the same text
    import random
    rnd = random.Random(7)
    for _ in range(300):
        sample = rnd.sample(ORDER_POOL, 4)
        vs = [I.interpret(e, "pool") for e in sample]
        if any(x == y for x, y in itt.combinations(vs, 2)):
            continue      # equal values (3 and 3.0) keep their input order by design (stable sort); a set never holds both
        texts = set()
        for perm in itt.permutations(sample):
            ev += 1
            texts.add(str(I.interpret("sorted([" + ", ".join(perm) + "])", "pool")))
        if len(texts) != 1:
            fails.append({"id": "bounded:sorted-is-permutation-invariant", "input": "sorted of permutations of [" + ", ".join(sample) + "]",
                          "observed": " | ".join(sorted(texts))[:300], "expected": "one text"})
    # unequal values with the same text: objects render without their hidden (_) members and in member order, and are ordered
    # by that text - each pair is its own obligation (listed known findings are matched by it)
    for ea, eb in (("<*a = 1, _x = 1*>", "<*a = 1, _x = 2*>"), ("<*_p = 1*>", "<*_p = 2*>")):
        ev += 1
        a, b = I.interpret(ea, "pool"), I.interpret(eb, "pool")
        if not (a < b) and not (b < a) and not (a == b):
            fails.append({"id": f"bounded:order-total-on-unequal-values[objects that differ only in hidden members: {ea} , {eb}]", "input": f"{ea} , {eb}",
                          "observed": "neither a < b nor b < a nor a == b", "expected": "exactly one (a set of both is enumerated in host hash order)"})
    seen, uniq = set(), []
    for f in fails:
        if f["id"] not in seen:
            seen.add(f["id"])
            uniq.append(f)
    return uniq, ev


def bounded(tier, seed):
    import os
    import subprocess
    import sys
    import time
    t0 = time.time()
    ofails, oev = order_consistency()
    t_order = time.time() - t0
    t0 = time.time()
    root = os.path.join(os.environ.get("VERIF_REPO", "/repo"), "src")
    nseeds = 32 if tier == "thorough" else 8
    code = ("import sys; sys.path.insert(0, %r)\n"
            "from ckl.interpreter import Interpreter\nfrom ckl.errors import CklRuntimeError\n"
            "I = Interpreter(True, True)\n"
            "try:\n    I.interpret(%r, 'prog')\nexcept CklRuntimeError as e:\n    print('ERR', e.value)\n") % (root, PROGRAM)
    outs = {}
    fails = []
    procs = []
    for i in range(nseeds):
        env = dict(os.environ)
        env["PYTHONHASHSEED"] = str((seed * 1000 + i * 7919 + 1) % 4294967295)
        procs.append((env["PYTHONHASHSEED"], subprocess.Popen([sys.executable, "-c", code], env=env, stdout=subprocess.PIPE, stderr=subprocess.PIPE, text=True)))
    for hs, p in procs:
        o, e = p.communicate(timeout=120)
        outs.setdefault(o + ("\nSTDERR:" + e[-300:] if p.returncode else ""), []).append(hs)
    if len(outs) != 1:
        keys = list(outs)
        a, b = keys[0], keys[1]
        pos = next((i for i in range(min(len(a), len(b))) if a[i] != b[i]), 0)
        fails.append({"id": "bounded:output-differs-between-hash-seeds", "input": f"PYTHONHASHSEED={outs[a][0]} vs {outs[b][0]}",
                      "observed": "..." + a[max(0, pos - 60):pos + 60] + "...", "expected": "..." + b[max(0, pos - 60):pos + 60] + "..."})
    elif "ERR <<'e1', 'e2'>>" not in list(outs)[0] or "Traceback" in list(outs)[0] or "caught" not in list(outs)[0]:
        fails.append({"id": "bounded:program-did-not-run", "input": "PROGRAM", "observed": list(outs)[0][-400:], "expected": "output and ERR line"})
    return [BoundedResult("consistency of the value order across kinds (real value classes)",
                          f"all pairs and triples of a pool of {len(ORDER_POOL)} values of every kind: asymmetry, totality on unequal values, transitivity; "
                          "sorted() of all permutations of 300 random 4-element mixed lists", oev, oev, ofails,
                          ["NULL , TRUE , [1, 2]", "date('20200101') , 3 , 100000000"], "what makes sorted enumeration canonical; the per-kind part is proved in C07", t_order),
            BoundedResult("the same program in fresh processes under different string-hash seeds (real interpreter)",
                          f"{nseeds} processes, one program exercising every iteration/conversion/spread/destructuring/rendering path and the set library with string elements",
                          nseeds, nseeds, fails, [{"PYTHONHASHSEED": procs[0][0]}], "the property's own experiment in small", time.time() - t0)]


def replay_seeds(fail):
    for b in bounded("quick", 0):
        if b.failures:
            f = dict(b.failures[0])
            f["reproduced"] = True
            return f
    return {"reproduced": False}
