"""C15 - Indexing, slicing and sub-sequence functions follow the sequence model.

Spec functions (DESIGN.md A.1): idx, clamp, slice, find, find_last, ins, del - written from the property text.
List elements are an abstract sort (the functions are parametric): z3 Seq(Int) of element ids.
"""
import z3

from pyvc.verify import Unit, Outcome
from pyvc.interp import Loop
from pyvc.values import SInt, SStr, SElem, Obj, PList, zi, zs, mk_int
from pyvc.runner import BoundedResult
from .common import Vals, Stubs, z_clamp, z_slice, I, cls_name

MANIFEST_ENTRY = {
    "category": "proof",
    "text": "every index, slice, sub-sequence, find, insert and delete operation on strings and lists is proved equal to the sequence-model spec function for all sequences and all integer positions (z3 sequence theory, cvc5 for the extension lemma); a small exhaustive cross-check on the real interpreter guards the encoding; find/find_last on lists of ints, decimals and strings use language equality across classes (<= 3 elements, symbolic-bounded)",
    "note": "CPython str.find/rfind/slicing/list.insert assumed to be the z3 sequence operations; list elements abstract; key callbacks abstract",
    "technique": "deductive verification: pyvc VCs from the real AST + z3/cvc5 (loop invariants for the copy and search loops)",
}
PROPERTY = "C15"
LEVEL = "proof"
TRUSTED = [
    "str.find / str.rfind / slicing / len of CPython behave as the z3 sequence theory operations they are mapped to",
    "list.insert / list.append / del list[i] of CPython (insert clamps, del raises IndexError out of range)",
]
ASSUMPTIONS = [
    "index arguments are ints (non-integer indices are C13's business)",
    "find/find_last with a key function: the key callback is abstract; proved for the no-key case",
    "find: start >= 0 (the property does not define a negative search start)",
]
EXPLANATION = ("every index/slice/sub-sequence operation is proved equal to the sequence-model spec function for all "
               "sequences and all integer positions; identities are z3 lemmas over the specs")

EMPTY_SEQ = z3.Empty(z3.SeqSort(z3.IntSort()))
EMPTY_STR = z3.StringVal("")


def seq_of(it, vlist):
    pl = vlist.fields["value"] if isinstance(vlist, Obj) else vlist
    return it.list_seq(pl, pl.kind)


def in_range(n, i):
    return z3.And(i >= -n, i < n)


def z_idx(n, i):
    return z3.If(i >= 0, i, i + n)


def units(w):
    V = Vals(w)
    S = Stubs(w)
    U = []
    nodes = w.import_module("ckl.nodes").ns
    funcs = w.import_module("ckl.functions").ns

    def fn_obj(name):
        return Obj(funcs[name], {"name": name, "secure": True})

    # =========================================================== s[i]
    def s_deref(kind):
        def setup(it):
            i = V.int(it, "i")
            cont = V.string(it, "s") if kind == "string" else V.list_sym(it, "l")
            node = Obj(nodes["NodeDeref"], {"expression": S.node("expr", cont), "index": S.node("index", i),
                                            "default_value": None, "pos": V.pos(it)})
            node.fresh = False
            return [node, V.env(it)], {}, {"i": i.fields["value"].z, "cont": cont}
        return setup

    def p_deref(kind):
        def post(it, c, o):
            i = c["i"]
            if kind == "string":
                s = c["cont"].fields["value"].z
                n = z3.Length(s)
            else:
                s = c["cont"].fields["value"].sym
                n = z3.Length(s)
            if o.kind == "raise":
                it.check("raises:only-out-of-range", z3.Not(in_range(n, i)))
                return
            it.check("post:in-range", in_range(n, i))
            j = z_idx(n, i)
            if kind == "string":
                it.check("post:is-ValueString", cls_name(o.value) == "ValueString")
                it.check("post:element-at-idx(i)", zs(o.value.fields["value"]) == z3.SubString(s, j, 1))
            else:
                it.check("post:element-at-idx(i)", isinstance(o.value, SElem) and o.value.z == s[j])
        return post
    for kind in ("string", "list"):
        U.append(Unit("nodes.py::NodeDeref.evaluate", s_deref(kind), p_deref(kind),
                      name=f"nodes.py::NodeDeref.evaluate[{kind}]", replay=replay_lang("index")))

    # =========================================================== l[i] = v, s[i] = c
    def s_assign(kind):
        def setup(it):
            i = V.int(it, "i")
            if kind == "string":
                cont = V.string(it, "s")
                val = V.string(it, "c")
                it.assume(z3.Length(val.fields["value"].z) == 1)
                old = cont.fields["value"].z
            else:
                cont = V.list_sym(it, "l")
                val = SElem(z3.Int("v"))
                old = cont.fields["value"].sym
            node = Obj(nodes["NodeDerefAssign"], {"expression": S.node("expr", cont), "index": S.node("index", i),
                                                  "value": S.node("value", val), "pos": V.pos(it)})
            node.fresh = False
            return [node, V.env(it)], {}, {"i": i.fields["value"].z, "cont": cont, "old": old, "val": val}
        return setup

    def p_assign(kind):
        def post(it, c, o):
            i, old = c["i"], c["old"]
            n = z3.Length(old)
            new = zs(c["cont"].fields["value"]) if kind == "string" else seq_of(it, c["cont"])
            if o.kind == "raise":
                it.check("raises:only-out-of-range", z3.Not(in_range(n, i)))
                it.check("raises:container-unchanged", new == old)
                return
            it.check("post:in-range", in_range(n, i))
            j = z_idx(n, i)
            unit = zs(c["val"].fields["value"]) if kind == "string" else z3.Unit(c["val"].z)
            exp = z3.Concat(z3.SubSeq(old, 0, j), unit, z3.SubSeq(old, j + 1, n - j - 1))
            it.check("post:exactly-position-idx(i)-changed", new == exp)
            it.check("post:returns-the-container", o.value is c["cont"])
        return post
    for kind in ("string", "list"):
        U.append(Unit("nodes.py::NodeDerefAssign.evaluate", s_assign(kind), p_assign(kind),
                      name=f"nodes.py::NodeDerefAssign.evaluate[{kind}]", replay=replay_lang("assign")))

    # =========================================================== s[a to b]
    def ext_instance(L, a, k1):
        """instance of lemma::seq-extension at (L, a, n = k1 - 1 - a)"""
        n = k1 - 1 - a
        return z3.Implies(z3.And(a >= 0, n >= 0, a + n < z3.Length(L)),
                          z3.Concat(z3.SubSeq(L, a, n), z3.Unit(L[a + n])) == z3.SubSeq(L, a, n + 1))

    SLICE_LOOP = {0: Loop(lambda st: [
        seq_of(st.interp, st["result"]) == z3.SubSeq(st["lst"].sym, zi(st["start"]), zi(st.k) - zi(st["start"])),
        zi(st.k) >= zi(st["start"]), zi(st["start"]) >= 0, zi(st["end"]) <= z3.Length(st["lst"].sym)],
        modifies=["result.value"], lemmas=lambda st: [ext_instance(st["lst"].sym, zi(st["start"]), zi(st.k))])}

    def s_slice(kind, with_end):
        def setup(it):
            a, b = V.int(it, "a"), V.int(it, "b")
            cont = V.string(it, "s") if kind == "string" else V.list_sym(it, "l")
            node = Obj(nodes["NodeDerefSlice"], {"expression": S.node("expr", cont), "start": S.node("start", a),
                                                 "end": S.node("end", b) if with_end else None, "pos": V.pos(it)})
            node.fresh = False
            return [node, V.env(it)], {}, {"a": a.fields["value"].z, "b": b.fields["value"].z if with_end else None,
                                           "cont": cont}
        return setup

    def p_slice(kind):
        def post(it, c, o):
            it.check("post:returns", o.kind == "return")
            if o.kind != "return":
                return
            if kind == "string":
                s = c["cont"].fields["value"].z
                b = c["b"] if c["b"] is not None else z3.Length(s)
                it.check("post:is-ValueString", cls_name(o.value) == "ValueString")
                it.check("post:equals-slice-spec", zs(o.value.fields["value"]) == z_slice(s, c["a"], b, EMPTY_STR))
            else:
                s = c["cont"].fields["value"].sym
                b = c["b"] if c["b"] is not None else z3.Length(s)
                it.check("post:is-fresh-ValueList", cls_name(o.value) == "ValueList" and o.value is not c["cont"]
                         and o.value.fields["value"] is not c["cont"].fields["value"])
                it.check("post:equals-slice-spec", seq_of(it, o.value) == z_slice(s, c["a"], b, EMPTY_SEQ))
                it.check("post:argument-unchanged", c["cont"].fields["value"].sym is s or c["cont"].fields["value"].sym == s)
        return post
    for kind in ("string", "list"):
        for with_end in (True, False):
            U.append(Unit("nodes.py::NodeDerefSlice.evaluate", s_slice(kind, with_end), p_slice(kind),
                          name=f"nodes.py::NodeDerefSlice.evaluate[{kind},{'a to b' if with_end else 'a to *'}]",
                          loops=SLICE_LOOP, replay=replay_lang("slice")))

    # =========================================================== sublist / substr
    SUBLIST_LOOP = {0: Loop(lambda st: [
        seq_of(st.interp, st["result"]) == z3.SubSeq(st["value"].sym, zi(st["start"]), zi(st.k) - zi(st["start"])),
        zi(st.k) >= zi(st["start"]), zi(st["start"]) >= 0, zi(st["end"]) <= z3.Length(st["value"].sym)],
        modifies=["result.value"], lemmas=lambda st: [ext_instance(st["value"].sym, zi(st["start"]), zi(st.k))])}

    def s_sub(kind, with_end):
        def setup(it):
            a, b = V.int(it, "a"), V.int(it, "b")
            cont = V.string(it, "s") if kind == "string" else V.list_sym(it, "l")
            m = {("str" if kind == "string" else "lst"): cont, "startidx": a}
            if with_end:
                m["endidx"] = b
            names = ["str" if kind == "string" else "lst", "startidx", "endidx"]
            f = fn_obj("FuncSubstr" if kind == "string" else "FuncSublist")
            return [f, V.args(it, m, names), V.env(it), V.pos(it, "cpos")], {}, \
                {"a": a.fields["value"].z, "b": b.fields["value"].z if with_end else None, "cont": cont}
        return setup
    for kind in ("string", "list"):
        for with_end in (True, False):
            t = "functions.py::FuncSubstr.execute" if kind == "string" else "functions.py::FuncSublist.execute"
            U.append(Unit(t, s_sub(kind, with_end), p_slice(kind),
                          name=f"{t}[{'start,end' if with_end else 'start'}]",
                          loops=SUBLIST_LOOP if kind == "list" else None, replay=replay_lang("sub" + kind)))

    # =========================================================== find / find_last
    def occ_s(s, t, p):
        return z3.And(p >= 0, p + z3.Length(t) <= z3.Length(s), z3.SubString(s, p, z3.Length(t)) == t)

    def s_find(which, kind, with_start):
        def setup(it):
            k = V.int(it, "k")
            if kind == "string":
                cont, part = V.string(it, "s"), V.string(it, "t")
            else:
                cont, part = V.list_sym(it, "l"), SElem(z3.Int("item"))
            m = {"obj": cont, "part": part}
            if with_start:
                m["start"] = k
                if which == "find":
                    it.assume(k.fields["value"].z >= 0)
            f = fn_obj("FuncFind" if which == "find" else "FuncFindLast")
            return [f, V.args(it, m, ["obj", "part", "key", "start"]), V.env(it), V.pos(it, "cpos")], {}, \
                {"k": k.fields["value"].z if with_start else None, "cont": cont, "part": part}
        return setup

    def p_find(which, kind):
        def post(it, c, o):
            it.check("post:returns-ValueInt", o.kind == "return" and cls_name(o.value) == "ValueInt")
            if o.kind != "return":
                return
            r = zi(o.value.fields["value"])
            q = z3.Int("q")
            if kind == "string":
                s, t = c["cont"].fields["value"].z, c["part"].fields["value"].z
                n = z3.Length(s)
                occ = lambda p: occ_s(s, t, p)
            else:
                s, item = c["cont"].fields["value"].sym, c["part"].z
                n = z3.Length(s)
                occ = lambda p: z3.And(p >= 0, p < n, s[p] == item)
            if which == "find":
                k = c["k"] if c["k"] is not None else I(0)
                it.check("post:hit-is-an-occurrence-at-or-after-start", z3.Implies(r != -1, z3.And(occ(r), r >= k)))
                it.check("post:hit-is-the-first", z3.Implies(r != -1, z3.ForAll([q], z3.Implies(z3.And(q >= k, q < r), z3.Not(occ(q))))))
                it.check("post:-1-means-no-occurrence", z3.Implies(r == -1, z3.ForAll([q], z3.Implies(q >= k, z3.Not(occ(q))))))
            else:
                k = c["k"] if c["k"] is not None else n - 1
                it.check("post:hit-is-an-occurrence-at-or-before-start", z3.Implies(r != -1, z3.And(occ(r), r <= k)))
                it.check("post:hit-is-the-last", z3.Implies(r != -1, z3.ForAll([q], z3.Implies(z3.And(q <= k, q > r), z3.Not(occ(q))))))
                it.check("post:-1-means-no-occurrence", z3.Implies(r == -1, z3.ForAll([q], z3.Implies(q <= k, z3.Not(occ(q))))))
        return post

    def find_inv(st):
        q = z3.Int("qi")
        lst, item = st["lst"].sym, st["item"].z
        lo = z3.If(zi(st["start"]) > 0, zi(st["start"]), I(0))
        return [z3.ForAll([q], z3.Implies(z3.And(q >= lo, q < zi(st.k)), lst[q] != item)), zi(st.k) >= lo]

    def findlast_inv(st):
        q = z3.Int("qi")
        lst, item = st["lst"].sym, st["item"].z
        return [z3.ForAll([q], z3.Implies(z3.And(q > zi(st.k), q <= zi(st["start"]), q >= 0), lst[q] != item)),
                zi(st.k) <= zi(st["start"]), zi(st["start"]) < z3.Length(lst)]
    for which in ("find", "find_last"):
        for kind in ("string", "list"):
            for with_start in (False, True):
                t = "functions.py::FuncFind.execute" if which == "find" else "functions.py::FuncFindLast.execute"
                loops = None
                if kind == "list":
                    loops = {0: Loop(find_inv if which == "find" else findlast_inv)}
                U.append(Unit(t, s_find(which, kind, with_start), p_find(which, kind),
                              name=f"{t}[{kind},{'start' if with_start else 'default-start'}]", loops=loops,
                              replay=replay_lang(which + kind)))

    # ---- lists of numbers and strings (<= 3 elements, symbolic-bounded): an occurrence is an element *equal* to the part in the
    #      language's sense (1 == 1.0), whatever the classes of the two values
    EKINDS = ("int", "decimal", "string", "null")

    def mk_el(it, kind, name):
        return V.NULL if kind == "null" else {"int": V.int, "decimal": V.dec, "string": V.string}[kind](it, name)

    def lang_eq(a, b):
        ka, kb = cls_name(a), cls_name(b)
        num = ("ValueInt", "ValueDecimal")
        if ka in num and kb in num:
            za = z3.ToReal(a.fields["value"].z) if ka == "ValueInt" else a.fields["value"].z
            zb_ = z3.ToReal(b.fields["value"].z) if kb == "ValueInt" else b.fields["value"].z
            return za == zb_
        if ka == kb == "ValueString":
            return a.fields["value"].z == b.fields["value"].z
        if a is V.NULL or b is V.NULL:
            return z3.BoolVal(a is b)
        return z3.BoolVal(False)

    def s_findk(which, n):
        def setup(it):
            els = [mk_el(it, EKINDS[it.path.choose(len(EKINDS))], f"el{i}") for i in range(n)]
            part = mk_el(it, EKINDS[it.path.choose(len(EKINDS))], "part")
            f = fn_obj("FuncFind" if which == "find" else "FuncFindLast")
            return [f, V.args(it, {"obj": V.list_of(it, els, "l"), "part": part}, ["obj", "part", "key", "start"]), V.env(it), V.pos(it, "cpos")], {}, \
                {"els": els, "part": part}
        return setup

    def p_findk(which, n):
        def post(it, c, o):
            it.check("post:returns-ValueInt", o.kind == "return" and cls_name(o.value) == "ValueInt")
            if o.kind != "return":
                return
            r = zi(o.value.fields["value"])
            eqs = [lang_eq(e, c["part"]) for e in c["els"]]
            order = range(n) if which == "find" else range(n - 1, -1, -1)
            exp = I(-1)
            for i in reversed(list(order)):
                exp = z3.If(eqs[i], I(i), exp)
            it.check("post:the-first/last-position-holding-a-value-equal-to-the-part(language equality across classes)-or--1", r == exp)
        return post
    for which in ("find", "find_last"):
        for n in (1, 2, 3):
            t = "functions.py::FuncFind.execute" if which == "find" else "functions.py::FuncFindLast.execute"
            U.append(Unit(t, s_findk(which, n), p_findk(which, n), name=f"{t}[list of {n} numbers/strings/NULLs]",
                          bounded="lists of <= 3 elements (ints, decimals, strings, NULL; symbolic payloads)", replay=replay_lang(which + "list")))

    # =========================================================== insert_at / delete_at
    def s_ins(it):
        lst, i, v = V.list_sym(it, "l"), V.int(it, "i"), SElem(z3.Int("v"))
        old = lst.fields["value"].sym
        return [fn_obj("FuncInsertAt"), V.args(it, {"lst": lst, "index": i, "value": v}), V.env(it), V.pos(it, "cpos")], {}, \
            {"i": i.fields["value"].z, "lst": lst, "old": old, "v": v}

    def p_ins(it, c, o):
        it.check("post:returns-the-list", o.kind == "return" and o.value is c["lst"])
        i, old, n = c["i"], c["old"], z3.Length(c["old"])
        new = seq_of(it, c["lst"])
        j = z3.If(z3.And(i >= 0, i <= n), i, n + i + 1)
        valid = z3.Or(z3.And(i >= 0, i <= n), z3.And(i < 0, i >= -n - 1))
        exp = z3.Concat(z3.SubSeq(old, 0, j), z3.Unit(c["v"].z), z3.SubSeq(old, j, n - j))
        it.check("post:inserts-exactly-one-position", z3.Implies(valid, new == exp))
        it.check("post:out-of-range-leaves-list-unchanged", z3.Implies(z3.Not(valid), new == old))
    U.append(Unit("functions.py::FuncInsertAt.execute", s_ins, p_ins, replay=replay_lang("insert_at")))

    def s_del(it):
        lst, i = V.list_sym(it, "l"), V.int(it, "i")
        old = lst.fields["value"].sym
        return [fn_obj("FuncDeleteAt"), V.args(it, {"lst": lst, "index": i}), V.env(it), V.pos(it, "cpos")], {}, \
            {"i": i.fields["value"].z, "lst": lst, "old": old}

    def p_del(it, c, o):
        it.check("post:returns", o.kind == "return")
        if o.kind != "return":
            return
        i, old, n = c["i"], c["old"], z3.Length(c["old"])
        new = seq_of(it, c["lst"])
        j = z_idx(n, i)
        if o.value is V.NULL:
            it.check("post:NULL-only-out-of-range", z3.Not(in_range(n, i)))
            it.check("post:out-of-range-leaves-list-unchanged", new == old)
        else:
            it.check("post:in-range", in_range(n, i))
            it.check("post:returns-removed-element", isinstance(o.value, SElem) and o.value.z == old[j])
            it.check("post:removes-exactly-position-idx(i)", new == z3.Concat(z3.SubSeq(old, 0, j), z3.SubSeq(old, j + 1, n - j - 1)))
    U.append(Unit("functions.py::FuncDeleteAt.execute", s_del, p_del, replay=replay_lang("delete_at")))

    # =========================================================== length, concatenation
    def s_len(kind):
        def setup(it):
            cont = V.string(it, "s") if kind == "string" else V.list_sym(it, "l")
            return [fn_obj("FuncLength"), V.args(it, {"obj": cont}), V.env(it), V.pos(it, "cpos")], {}, {"cont": cont}
        return setup

    def p_len(kind):
        def post(it, c, o):
            it.check("post:returns-ValueInt", o.kind == "return" and cls_name(o.value) == "ValueInt")
            s = c["cont"].fields["value"]
            n = z3.Length(s.z if kind == "string" else s.sym)
            it.check("post:length", zi(o.value.fields["value"]) == n)
        return post

    def s_cat(kind):
        def setup(it):
            if kind == "string":
                a, b = V.string(it, "s"), V.string(it, "t")
            else:
                a, b = V.list_sym(it, "l"), V.list_sym(it, "m")
            return [fn_obj("FuncAdd"), V.args(it, {"a": a, "b": b}), V.env(it), V.pos(it, "cpos")], {}, {"a": a, "b": b}
        return setup

    def p_cat(kind):
        def post(it, c, o):
            it.check("post:returns", o.kind == "return")
            if kind == "string":
                it.check("post:concatenation", zs(o.value.fields["value"]) == z3.Concat(c["a"].fields["value"].z, c["b"].fields["value"].z))
            else:
                it.check("post:concatenation", seq_of(it, o.value) == z3.Concat(c["a"].fields["value"].sym, c["b"].fields["value"].sym))
                it.check("post:fresh-result", o.value is not c["a"] and o.value is not c["b"]
                         and o.value.fields["value"] is not c["a"].fields["value"])
        return post
    for kind in ("string", "list"):
        U.append(Unit("functions.py::FuncLength.execute", s_len(kind), p_len(kind), name=f"functions.py::FuncLength.execute[{kind}]"))
        U.append(Unit("functions.py::FuncAdd.execute", s_cat(kind), p_cat(kind), name=f"functions.py::FuncAdd.execute[{kind}+{kind}]"))

    # =========================================================== identities over the specs
    def lemma(name, build, prefer="z3"):
        def body(it, c):
            for nm, f in build():
                it.check("lemma:" + nm, f, assume=False)
            return Outcome("return", None)
        return Unit(None, lambda it: ([], {}, {}), None, name="lemma::" + name, body=body, canary=False,
                    config={"prefer": prefer})

    def l_ext():
        L = z3.Const("L", z3.SeqSort(z3.IntSort()))
        a, n = z3.Ints("a n")
        return [("seq-extension: L[a..a+n) ++ [L[a+n]] == L[a..a+n+1)",
                 z3.Implies(z3.And(a >= 0, n >= 0, a + n < z3.Length(L)),
                            z3.Concat(z3.SubSeq(L, a, n), z3.Unit(L[a + n])) == z3.SubSeq(L, a, n + 1)))]
    U.append(lemma("seq-extension", l_ext, prefer="cvc5"))

    def l_ident():
        s = z3.Const("s", z3.SeqSort(z3.IntSort()))
        st = z3.String("st")
        a, b, k = z3.Ints("a b k")
        n = z3.Length(s)
        out = [
            ("slice(s,0,k)+slice(s,k,n)==s", z3.Concat(z_slice(s, I(0), k, EMPTY_SEQ), z_slice(s, k, n, EMPTY_SEQ)) == s),
            ("|slice(s,a,b)|==max(0,clamp(b)-clamp(a))",
             z3.Length(z_slice(s, a, b, EMPTY_SEQ)) == z3.If(z_clamp(n, b) > z_clamp(n, a), z_clamp(n, b) - z_clamp(n, a), 0)),
            ("string:slice(s,0,k)+slice(s,k,n)==s",
             z3.Concat(z_slice(st, I(0), k, EMPTY_STR), z_slice(st, k, z3.Length(st), EMPTY_STR)) == st),
            ("slice-never-wraps: crossed bounds give empty", z3.Implies(z_clamp(n, a) >= z_clamp(n, b), z_slice(s, a, b, EMPTY_SEQ) == EMPTY_SEQ)),
        ]
        return out
    U.append(lemma("sequence-identities", l_ident))
    return U


# ----------------------------------------------------------------------------- replay at language level

def _interp():
    import importlib
    import sys
    import os
    root = os.path.join(os.environ.get("VERIF_REPO", "/repo"), "src")
    if root not in sys.path:
        sys.path.insert(0, root)
    for m in [k for k in sys.modules if k == "ckl" or k.startswith("ckl.")]:
        del sys.modules[m]
    return importlib.import_module("ckl.interpreter").Interpreter(True, False)


def model_slice(s, a, b):
    n = len(s)

    def clamp(x):
        if x < 0:
            x += n
        return min(max(x, 0), n)
    ca, cb = clamp(a), clamp(b)
    return s[ca:cb] if ca < cb else s[:0]


def lit(x):
    if isinstance(x, str):
        return "'" + x + "'"
    return "[" + ", ".join("NULL" if e is None else str(e) for e in x) + "]"


def small_domain(what):
    """(source, expected-or-ERR) pairs over a small exhaustive domain - used to turn a failed obligation into a
    concrete failing input on the real code."""
    seqs = ["", "a", "ab", "abc", "abca", "aabab"]
    R = range(-7, 8)
    for s in seqs:
        # form "mixed": a list whose elements are language-equal values of different classes (1 and 1.0) - an occurrence is a
        # position holding a value *equal* to the part
        for form in ("str", "list", "mixed"):
            if form == "mixed":
                if what not in ("findlist", "find_lastlist") or not s:
                    continue
                for ab in ({"a": 1, "b": 1.0, "c": 2}, {"a": 2.0, "b": 1, "c": 2}, {"a": None, "b": 1, "c": None}):
                    v = [ab[ch] for ch in s]
                    n = len(v)
                    for p in (1, 1.0, 2, 2.0, 3.0, None):
                        occ = [q for q in range(n) if (v[q] == p if (v[q] is not None and p is not None) else v[q] is p)]
                        pl = "NULL" if p is None else str(p)
                        if what == "find_lastlist":
                            yield f"find_last({lit(v)}, {pl})", str(max(occ, default=-1))
                            for k in range(0, n):
                                yield f"find_last({lit(v)}, {pl}, start = {k})", str(max([q for q in occ if q <= k], default=-1))
                        else:
                            for k in range(0, n + 2):
                                e = min([q for q in occ if q >= k], default=-1)
                                yield (f"find({lit(v)}, {pl}, start = {k})" if k else f"find({lit(v)}, {pl})"), str(e)
                continue
            v = s if form == "str" else [ord(ch) - 96 for ch in s]
            n = len(v)
            if what == "index":
                for i in R:
                    exp = "ERR" if not (-n <= i < n) else (lit(v[i]) if form == "str" else str(v[i]))
                    yield f"{lit(v)}[{i}]", exp
            elif what == "assign":
                for i in R:
                    new = "'z'" if form == "str" else "9"
                    if not (-n <= i < n):
                        exp = "ERR"
                    else:
                        j = i % n
                        w2 = (v[:j] + "z" + v[j + 1:]) if form == "str" else (v[:j] + [9] + v[j + 1:])
                        exp = lit(w2)
                    yield f"def x = {lit(v)}; x[{i}] = {new}; x", exp
            elif what == "slice":
                for a in R:
                    yield f"{lit(v)}[{a} to *]", lit(model_slice(v, a, n))
                    for b in R:
                        yield f"{lit(v)}[{a} to {b}]", lit(model_slice(v, a, b))
            elif what in ("substring", "sublist"):
                if (what == "substring") != (form == "str"):
                    continue
                fn = "substr" if form == "str" else "sublist"
                for a in R:
                    yield f"{fn}({lit(v)}, {a})", lit(model_slice(v, a, n))
                    for b in R:
                        yield f"{fn}({lit(v)}, {a}, {b})", lit(model_slice(v, a, b))
            elif what in ("findstring", "findlist", "find_laststring", "find_lastlist"):
                if what.endswith("string") != (form == "str"):
                    continue
                parts = ["a", "b", "ab", "c", ""] if form == "str" else [1, 2, 3]
                for p in parts:
                    plen = len(p) if form == "str" else 1
                    occ = [q for q in range(0, n + 1) if (v[q:q + plen] == p if form == "str" else (q < n and v[q] == p))]
                    pl = lit(p) if form == "str" else str(p)
                    if what.startswith("find_last"):
                        e = max([q for q in occ if q <= n - 1], default=-1)
                        yield f"find_last({lit(v)}, {pl})", str(e)
                        for k in range(0, n):
                            e = max([q for q in occ if q <= k], default=-1)
                            yield f"find_last({lit(v)}, {pl}, start = {k})", str(e)
                    else:
                        for k in range(0, n + 2):
                            e = min([q for q in occ if q >= k], default=-1)
                            yield (f"find({lit(v)}, {pl}, start = {k})" if k else f"find({lit(v)}, {pl})"), str(e)
            elif what == "insert_at" and form == "list":
                for i in R:
                    if 0 <= i <= n:
                        j = i
                    elif -n - 1 <= i < 0:
                        j = n + i + 1
                    else:
                        j = None
                    exp = lit(v if j is None else v[:j] + [9] + v[j:])
                    yield f"def x = {lit(v)}; insert_at(x, {i}, 9); x", exp
            elif what == "delete_at" and form == "list":
                for i in R:
                    if -n <= i < n:
                        j = i % n
                        exp = f"[{v[j]}, {lit(v[:j] + v[j + 1:])}]"
                    else:
                        exp = f"[NULL, {lit(v)}]"
                    yield f"def x = {lit(v)}; [delete_at(x, {i}), x]", exp


def replay_lang(what):
    def replay(fail):
        interp = _interp()
        errs = __import__("ckl.errors").errors
        for src, exp in small_domain(what):
            try:
                obs = str(interp.interpret(src, "-"))
            except errs.CklRuntimeError:
                obs = "ERR"
            except Exception as e:
                obs = "HOST:" + repr(e)
            if obs != exp:
                return {"reproduced": True, "input": src, "observed": obs, "expected": exp}
        return {"reproduced": False}
    return replay


def bounded(tier, seed):
    """CPython cross-check of the sequence model on the real interpreter (small exhaustive domain)."""
    import time
    t0 = time.time()
    interp = _interp()
    errs = __import__("ckl.errors").errors
    fails, ev = [], 0
    samples = []
    for what in ("index", "assign", "slice", "substring", "sublist", "findstring", "findlist", "find_laststring",
                 "find_lastlist", "insert_at", "delete_at"):
        for src, exp in small_domain(what):
            ev += 1
            try:
                obs = str(interp.interpret(src, "-"))
            except errs.CklRuntimeError:
                obs = "ERR"
            except Exception as e:
                obs = "HOST:" + repr(e)
            if len(samples) < 5 and ev % 997 == 0:
                samples.append({"src": src, "result": obs})
            if obs != exp:
                fails.append({"id": f"bounded:sequence-model:{what}", "input": src, "observed": obs, "expected": exp})
    return [BoundedResult("sequence-model cross-check (real interpreter)",
                          "all strings/lists from 6 shapes of length <= 5, all index arguments in [-7, 7]",
                          ev, ev, fails, samples, "guards the engine's encoding and the spec functions against CPython",
                          time.time() - t0)]
