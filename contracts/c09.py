"""C09 - Secure mode denies file, process and script-loading access to every program."""
import ast
import z3

from pyvc.verify import Unit, Outcome
from pyvc.interp import PyRaise
from pyvc.values import SInt, SStr, SElem, SBool, Obj, PList, PDict, PyClass, PyFunc, Builtin, zi, zs, zb
from pyvc.runner import BoundedResult
from .common import Vals, cls_name
from .reqkit import frame

MANIFEST_ENTRY = {
    'category': 'proof',
    'text': 'effect frame: for every ValueFunc subclass found in the source (recomputed on each run, so a new built-in is covered) the set of OS effects reachable from its execute method through the package call graph is computed from a default-deny effect table, and a class with a file/process/script-loading effect is proved (symbolic execution of its constructor) to clear its secure flag on every path; binder: bind_native_fun leaves the environment unchanged when the base flag is on and the function is not secure, reads the flag through the base frame, and writes only name and alias; bind_native hands every function value to that binder for every native name and alias (symbolic strings) - no other path binds a function; ownership: effectful classes are constructed only inside bind_native and, for `run`, under `if not secure` in the interpreter constructor; the flag is written only when the base environment is built, assignment nodes reject checkerlang_* names at construction, put/def only write the current (never the base) frame; the only file access reachable in secure mode is require reading module sources; exhaustive cross-check of all native names x {no alias, alias} x {legacy, non-legacy} on real secure interpreters; the module table belongs to the base environment allocated per interpreter (allocation contracts shared with C10), so modules loaded by a non-secure interpreter are not reachable from a secure one - stand-in with that history; the base of an environment attached with withParent is the root of its current chain (and itself again once detached); programs run in caller-supplied environments (bounded; one listed known finding)',
    'note': 'the effect table for the Python standard library is hand-written and trusted (anything not listed counts as effectful); get_env (environment variables) is not one of the accesses the property lists; reachability through values is discharged by construction-site ownership plus the binder guard, cross-checked by walking the value graph of real secure interpreters',
    'technique': 'deductive verification: effect-frame obligations from the AST call graph + symbolic execution of constructors and binders (pyvc + z3); exhaustive finite cross-check on the real code',
}
PROPERTY = "C09"
LEVEL = "proof"
TRUSTED = ["effect table of standard-library calls (default-deny): open, os.remove/rmdir/rename/listdir/mkdir/makedirs/lstat, os.path.exists/isdir, shutil.*, subprocess.*, pkgutil.get_data, os.getcwd are effects; os.environ.get, os.path.join/basename/expanduser, os.sep/linesep, platform.*, datetime.*, math.*, json.loads, re.*, random.random, operator.* are not file/process access"]
ASSUMPTIONS = ["programs never evaluate with the base frame as their current environment (every environment handed down is the session frame, a newEnv() of one, lexicalEnv.newEnv() or getBase().newEnv())"]
EXPLANATION = "effect frames per built-in class, binder guard, construction-site ownership, flag write-freedom, exhaustive binder cross-check"

EFFECT_CALLS = {"open": "FS", "os.remove": "FS_WRITE", "os.rmdir": "FS_WRITE", "os.rename": "FS_WRITE", "os.listdir": "FS_LIST", "os.mkdir": "FS_WRITE",
                "os.makedirs": "FS_WRITE", "os.lstat": "FS_READ", "os.stat": "FS_READ", "os.path.exists": "FS_READ", "os.path.isdir": "FS_READ",
                "os.path.isfile": "FS_READ", "os.getcwd": "FS_READ", "pkgutil.get_data": "FS_READ", "os.system": "PROC", "os.popen": "PROC",
                "os.unlink": "FS_WRITE", "os.walk": "FS_LIST", "os.scandir": "FS_LIST", "os.chdir": "FS_WRITE", "os.execv": "PROC", "os.fork": "PROC"}
EFFECT_PREFIX = {"shutil.": "FS_WRITE", "subprocess.": "PROC", "socket.": "NET", "urllib.": "NET", "glob.": "FS_LIST", "pathlib.": "FS", "tempfile.": "FS_WRITE",
                 "importlib.": "RUN_SCRIPT", "ctypes.": "PROC", "multiprocessing.": "PROC", "io.open": "FS"}
PURE_PREFIX = ("math.", "datetime.", "json.", "re.", "random.", "platform.", "operator.", "functools.", "os.environ", "os.path.join", "os.path.basename",
               "os.path.expanduser", "os.sep", "os.linesep", "os.pathsep", "os.path.sep", "sys.stdout", "sys.stdin", "sys.stderr", "os.path.dirname",
               "os.path.splitext", "os.path.abspath" if False else "os.path.normpath", "time.", "itertools.", "collections.", "string.", "decimal.", "fractions.")
DANGEROUS = {"FS", "FS_WRITE", "FS_READ", "FS_LIST", "PROC", "RUN_SCRIPT", "NET", "UNKNOWN"}


def call_name(n):
    try:
        return ast.unparse(n.func)
    except Exception:
        return "?"


class Effects:
    """effects of functions / classes of the package, by a fixpoint over the AST call graph"""

    def __init__(self, repo):
        self.repo = repo
        self.funcs = {}     # name -> list of FunctionDef (module functions and methods by 'Class.method')
        self.classes = {}
        self.imported = set()
        for m in repo.modules.values():
            for node in m.tree.body:
                if isinstance(node, (ast.Import, ast.ImportFrom)):
                    for a in node.names:
                        self.imported.add((a.asname or a.name).split(".")[0])
            for name, fn in m.functions.items():
                self.funcs[name] = fn
            for cname, cls in m.classes.items():
                self.classes[cname] = cls
                for item in cls.body:
                    if isinstance(item, ast.FunctionDef):
                        self.funcs[cname + "." + item.name] = item
        self.memo = {}

    def of_call(self, n, cls, stack):
        name = call_name(n)
        if name in EFFECT_CALLS:
            return {EFFECT_CALLS[name]}
        for p, e in EFFECT_PREFIX.items():
            if name.startswith(p):
                return {e}
        if any(name.startswith(p) for p in PURE_PREFIX):
            return set()
        base = name.split(".")[0]
        if name in self.classes:                      # constructor call
            return self.of_function(name + ".__init__", stack)
        if name in self.funcs:
            return self.of_function(name, stack)
        if name.startswith("self.") and cls is not None:
            meth = name[5:]
            if "." not in meth:
                for c in self.mro(cls):
                    if c + "." + meth in self.funcs:
                        return self.of_function(c + "." + meth, stack)
                return set()
            # self.attr.method(...): e.g. self.interpreter.loadFile
            if meth.endswith(".loadFile") or meth.endswith(".interpret"):
                return {"RUN_SCRIPT"}
            return set()
        if base in self.imported and base not in ("ckl",) and "." in name:
            # a call into an imported host module that is not in the table: default-deny
            return {"UNKNOWN"}
        return set()       # method call on a local value / builtin function

    def mro(self, cname):
        out, todo = [], [cname]
        while todo:
            c = todo.pop(0)
            if c in out or c not in self.classes:
                continue
            out.append(c)
            for b in self.classes[c].bases:
                todo.append(ast.unparse(b))
        return out

    def of_function(self, qual, stack=()):
        if qual in self.memo:
            return self.memo[qual]
        if qual in stack or qual not in self.funcs:
            return set()
        cls = qual.split(".")[0] if "." in qual else None
        eff = set()
        for n in ast.walk(self.funcs[qual]):
            if isinstance(n, ast.Call):
                eff |= self.of_call(n, cls, stack + (qual,))
        self.memo[qual] = eff
        return eff

    def of_class(self, cname):
        eff = set()
        for c in self.mro(cname):
            for item in self.classes[c].body:
                if isinstance(item, ast.FunctionDef) and item.name != "__init__":
                    eff |= self.of_function(c + "." + item.name)
        return eff


def units(w):
    V = Vals(w)
    U = []
    funcs = w.import_module("ckl.functions").ns
    vals = w.import_module("ckl.values").ns
    nodes = w.import_module("ckl.nodes").ns
    VF = vals["ValueFunc"]
    EFF = Effects(w.repo)

    # ================================================================== (1) effect frame per built-in class
    for cname in sorted(funcs):
        cls = funcs[cname]
        if not (isinstance(cls, PyClass) and cls is not VF and cls.issubclass(VF) and cls.module is not None and cls.module.name == "ckl.functions"):
            continue
        eff = EFF.of_class(cname) & DANGEROUS
        init = cls.lookup("__init__")
        a = init.node.args
        nparams = len(a.args) - 1

        def setup(it, cls=cls, nparams=nparams):
            o = Obj(cls, {})
            args = [o] + [SElem(z3.Int(f"ctorarg{i}"), "any") for i in range(nparams)]
            return args, {}, {"o": o}

        def post(it, c, o, eff=eff, cname=cname):
            sec = c["o"].fields.get("secure")
            it.check("post:constructor-completes", o.kind == "return")
            if eff:
                it.check("post:OS-effect-in-execute-implies-secure-flag-cleared-on-every-constructor-path", sec is False,
                         detail=f"effects reachable from {cname}.execute: {sorted(eff)}")
            else:
                it.check("post:secure-flag-is-a-boolean", isinstance(sec, bool))
        U.append(Unit(f"functions.py::{cname}.__init__", setup, post, name=f"functions.py::{cname}[effects {','.join(sorted(eff)) or 'none'}]",
                      allowed=(), replay=replay_binder))

    # ================================================================== (2) the binder
    def s_binder(flag, fsecure, alias):
        def setup(it):
            base = frame(w, "base", None, {"checkerlang_secure_mode": V.TRUE if flag else V.FALSE}, base=True)
            # a shadowing definition in the current frame must not matter
            env = frame(w, "env", frame(w, "session", base), {"checkerlang_secure_mode": V.FALSE})
            f = Obj(funcs["FuncAcos"], {"name": "thefunc", "secure": fsecure, "info": ""})
            f.fresh = False
            al = "thealias" if alias else None
            return [env, f, al], {}, {"env": env, "base": base, "f": f, "alias": al}
        return setup

    def p_binder(flag, fsecure, alias):
        def post(it, c, o):
            ents = c["env"].fields["map"].entries
            it.check("post:returns", o.kind == "return")
            it.check("post:base-frame-untouched", [e[0] for e in c["base"].fields["map"].entries] == ["checkerlang_secure_mode"])
            if flag and not fsecure:
                it.check("post:insecure-function-is-not-bound-in-secure-mode(environment unchanged)", len(ents) == 1)
            else:
                vals_ = [e for e in ents[1:]]
                it.check("post:bound-under-its-name-and-alias-only", sorted(e[0] for e in vals_) == sorted(["thefunc"] + (["thealias"] if alias else []))
                         and all(e[1] is c["f"] for e in vals_))
        return post
    for flag in (True, False):
        for fsecure in (True, False):
            for alias in (False, True):
                U.append(Unit("functions.py::bind_native_fun", s_binder(flag, fsecure, alias), p_binder(flag, fsecure, alias),
                              name=f"functions.py::bind_native_fun[flag={flag},func.secure={fsecure},alias={alias}]", allowed=(), replay=replay_binder))

    # ================================================================== (3) bind_native: every function goes through the binder
    def s_bn(it):
        base = frame(w, "base", None, {"checkerlang_secure_mode": V.TRUE}, base=True)
        env = frame(w, "env", base, {})
        log = {"binder": [], "direct": []}

        def binder_abs(it_, a, k, n):
            log["binder"].append(a[1])
            return None

        def add_abs(it_, a, k, n):
            log["direct"].append(("add", a[1]))
            return None
        holder["log"] = log
        holder["abs"] = {"bind_native_fun": binder_abs, "add": add_abs}
        return [env, SStr(z3.String("native")), SStr(z3.String("alias"))], {}, {"env": env, "log": log}
    holder = {}

    class _A(dict):
        def get(self, key, default=None):
            return holder.get("abs", {}).get(key, default)

    def p_bn(it, c, o):
        ents = c["env"].fields["map"].entries
        direct_funcs = [e for e in ents if isinstance(e[1], Obj) and e[1].cls.issubclass(VF)]
        it.check("post:no-function-value-is-bound-except-through-bind_native_fun", not direct_funcs and not c["log"]["direct"],
                 detail=str([e[0] for e in direct_funcs]))
        if o.kind == "return":
            it.check("post:at-most-one-function-per-call-and-only-constants-bound-directly", len(c["log"]["binder"]) <= 1)
    u = Unit("functions.py::bind_native", s_bn, p_bn, name="functions.py::bind_native[any name, any alias]", config={"max_depth": 30}, replay=replay_binder)
    u.abstractions = _A()
    U.append(u)

    # ================================================================== (4)+(5) ownership and flag write-freedom (AST obligations)
    def ast_unit(name, fn):
        def body(it, c):
            for nm, ok, detail in fn():
                it.check(nm, bool(ok), detail=detail)
            return Outcome("return", None)
        return Unit(None, lambda it: ([], {}, {}), None, name="ast::" + name, body=body, canary=False, replay=replay_binder)

    def ownership():
        out = []
        dangerous = {c for c in funcs if isinstance(funcs[c], PyClass) and funcs[c] is not VF and funcs[c].issubclass(VF)
                     and funcs[c].module is not None and funcs[c].module.name == "ckl.functions" and (EFF.of_class(c) & DANGEROUS)}
        out.append(("post:some-effectful-built-ins-exist(non-vacuous)", len(dangerous) >= 8, str(sorted(dangerous))))
        bad = []
        for m in w.repo.modules.values():
            for top in m.tree.body:
                for n in ast.walk(top):
                    if isinstance(n, ast.Call) and call_name(n).split(".")[-1] in dangerous:
                        bad.append((m.name, getattr(top, "name", "?"), call_name(n), n))
        sites_ok = True
        details = []
        for mname, owner, cname, n in bad:
            if mname == "ckl.functions" and owner == "bind_native":
                continue
            if mname == "ckl.interpreter" and cname.endswith("FuncRun"):
                continue
            sites_ok = False
            details.append(f"{mname}:{owner}:{cname}")
        out.append(("post:effectful-classes-are-constructed-only-in-bind_native(or FuncRun in the interpreter constructor)", sites_ok, str(details)))
        # in bind_native every construction is the second argument of bind_native_fun
        bn = w.repo.module("functions.py").functions["bind_native"]
        ok = True
        for n in ast.walk(bn):
            if isinstance(n, ast.Call) and call_name(n) in funcs and isinstance(funcs[call_name(n)], PyClass) and funcs[call_name(n)].issubclass(VF):
                ok = ok and any(isinstance(p, ast.Call) and call_name(p) == "bind_native_fun" and len(p.args) >= 2 and p.args[1] is n for p in ast.walk(bn))
        out.append(("post:in-bind_native-every-function-object-is-an-argument-of-bind_native_fun", ok, ""))
        # FuncRun only under `if not secure`
        init = [f for f in ast.walk(w.repo.module("interpreter.py").tree) if isinstance(f, ast.FunctionDef) and f.name == "__init__"][0]
        guarded = True
        found = False
        for n in ast.walk(init):
            if isinstance(n, ast.If):
                for c_ in ast.walk(n):
                    if isinstance(c_, ast.Call) and call_name(c_) == "FuncRun":
                        found = True
                        guarded = guarded and ast.unparse(n.test) == "not secure" and not any(c_ in ast.walk(x) for x in n.orelse)
        for n in ast.walk(init):
            if isinstance(n, ast.Call) and call_name(n) == "FuncRun":
                inside = any(isinstance(i, ast.If) and any(n is c_ for b_ in i.body for c_ in ast.walk(b_)) for i in ast.walk(init))
                guarded = guarded and inside
        out.append(("post:run-is-registered-only-for-non-secure-interpreters", found and guarded, ""))
        return out
    U.append(ast_unit("ownership-of-effectful-built-ins", ownership))

    def flag_writes():
        out = []
        writers = []
        for m in w.repo.modules.values():
            for top in m.tree.body:
                for n in ast.walk(top):
                    if isinstance(n, ast.Call) and isinstance(n.func, ast.Attribute) and n.func.attr in ("put", "set", "remove", "addItem") and n.args \
                            and isinstance(n.args[0], ast.Constant) and n.args[0].value == "checkerlang_secure_mode":
                        writers.append((m.name, getattr(top, "name", "?"), n.func.attr))
        out.append(("post:the-secure-flag-is-written-only-where-the-base-environment-is-built", writers == [("ckl.functions", "get_base_environment", "put")], str(writers)))
        # the binder reads the flag through the base frame
        bf = w.repo.module("functions.py").functions["bind_native_fun"]
        reads = [ast.unparse(n) for n in ast.walk(bf) if isinstance(n, ast.Call) and isinstance(n.func, ast.Attribute) and n.func.attr == "get"
                 and n.args and isinstance(n.args[0], ast.Constant) and n.args[0].value == "checkerlang_secure_mode"]
        out.append(("post:the-binder-reads-the-flag-through-getBase()", len(reads) == 1 and "getBase()" in reads[0], str(reads)))
        # Environment.put / remove write only the receiver's own map
        env = w.repo.module("functions.py").classes["Environment"]
        for meth in ("put", "remove"):
            fn = [i for i in env.body if isinstance(i, ast.FunctionDef) and i.name == meth][0]
            targets = [ast.unparse(t.value) for n in ast.walk(fn) for t in (n.targets if isinstance(n, (ast.Assign, ast.Delete)) else []) if isinstance(t, ast.Subscript)]
            out.append((f"post:Environment.{meth}-writes-only-self.map", targets == ["self.map"] and not any(isinstance(n, ast.Call) and call_name(n).startswith("self.parent") for n in ast.walk(fn)), str(targets)))
        return out
    U.append(ast_unit("secure-flag-write-freedom", flag_writes))

    # assignment nodes reject system variables at construction
    def s_assign_ctor(which):
        def setup(it):
            name = SStr(z3.String("ident"))
            o = Obj(nodes[which], {})
            if which == "NodeAssign":
                return [o, name, None, V.pos(it)], {}, {"o": o, "name": name.z}
            return [o, PList(["a", name]), None, V.pos(it)], {}, {"o": o, "name": name.z}
        return setup

    def p_assign_ctor(it, c, o):
        sysvar = z3.PrefixOf(z3.StringVal("checkerlang_"), c["name"])
        if o.kind == "raise":
            it.check("raises:only-for-system-variables-as-a-syntax-error-with-position", z3.And(sysvar, o.exc_class == "CklSyntaxError" and o.exc.fields.get("pos") is not None))
            it.check("raises:node-fields-not-set", "identifier" not in c["o"].fields and "identifiers" not in c["o"].fields)
        else:
            it.check("post:constructed-only-for-ordinary-names", z3.Not(sysvar))
    for which in ("NodeAssign", "NodeAssignDestructuring"):
        U.append(Unit(f"nodes.py::{which}.__init__", s_assign_ctor(which), p_assign_ctor, allowed=("CklSyntaxError",), replay=replay_binder))

    # Interpreter.__init__: secure => no `run`
    def s_interp(secure):
        def setup(it):
            o = Obj(w.import_module("ckl.interpreter").ns["Interpreter"], {})
            base = frame(w, "freshbase", None, {"checkerlang_secure_mode": V.TRUE if secure else V.FALSE}, base=True)
            holder["base"] = base
            return [o], {"secure": secure, "legacy": False}, {"o": o, "base": base}
        return setup

    def p_interp(secure):
        def post(it, c, o):
            keys = [e[0] for e in c["base"].fields["map"].entries]
            it.check("post:constructed", o.kind == "return")
            it.check("post:run-bound-iff-not-secure", ("run" in keys) == (not secure), detail=str(keys))
        return post
    for secure in (True, False):
        u = Unit("interpreter.py::Interpreter.__init__", s_interp(secure), p_interp(secure), name=f"interpreter.py::Interpreter.__init__[secure={secure}]", allowed=(),
                 replay=replay_binder)
        u.abstractions = {"get_base_environment": lambda it, a, k, n: holder["base"]}
        U.append(u)

    # require is the only file reader that a secure program can reach: the only FS effects outside insecure built-ins
    def fs_sites():
        out = []
        sites = []
        dangerous_cls = {c for c in funcs if isinstance(funcs[c], PyClass) and funcs[c] is not VF and funcs[c].issubclass(VF) and funcs[c].module is not None
                         and funcs[c].module.name == "ckl.functions" and (EFF.of_class(c) & DANGEROUS)}
        for m in w.repo.modules.values():
            if m.name in ("ckl.run", "ckl.repl"):
                continue       # the hosts themselves, not reachable from a program
            for top in m.tree.body:
                owners = [(top.name, top)] if isinstance(top, ast.FunctionDef) else \
                    [(top.name + "." + i.name, i) for i in top.body if isinstance(i, ast.FunctionDef)] if isinstance(top, ast.ClassDef) else []
                for oname, fn in owners:
                    for n in ast.walk(fn):
                        if isinstance(n, ast.Call):
                            nm = call_name(n)
                            e = EFFECT_CALLS.get(nm) or next((v for p, v in EFFECT_PREFIX.items() if nm.startswith(p)), None)
                            if e:
                                sites.append((m.name, oname, nm))
        allowed_owner = lambda mn, on: on.split(".")[0] in dangerous_cls or on.startswith("NodeRequire.") or on in ("get_base_environment",) \
            or on.split(".")[0] in ("FileInput", "FileOutput") or (mn == "ckl.interpreter" and on == "Interpreter.loadFile")
        bad = [s_ for s_ in sites if not allowed_owner(s_[0], s_[1])]
        out.append(("post:file/process-calls-occur-only-in-insecure-built-ins-their-stream-classes-require-and-loadFile", not bad, str(bad)))
        out.append(("post:some-sites-found(non-vacuous)", len(sites) >= 10, str(len(sites))))
        return out
    U.append(ast_unit("file-and-process-access-sites", fs_sites))
    # modules are cached per base environment: what a non-secure interpreter has loaded is not reachable from a secure one
    # (the allocation contracts of the root frame, shared with C10)
    from . import c10
    U.extend([u for u in c10.units(w) if u.name in ("functions.py::Environment.__init__", "functions.py::get_base_environment")])

    # the base frame of an environment is the root of its *current* parent chain - also for an environment that was created on its
    # own and attached later (Interpreter.interpret does that with a caller-supplied environment, and detaches it afterwards): the
    # secure flag is read from there, never from a frame the program can write
    def b_chain(it, c):
        funcs_ = w.import_module("ckl.functions").ns
        E = funcs_["Environment"]
        mk_env = lambda *a: it.call(E, list(a))
        base = mk_env()
        session = mk_env(base)
        own = mk_env()                       # created standalone
        child = it.call(w.func("functions.py::Environment.newEnv"), [own])
        c["before"] = (it.call(w.func("functions.py::Environment.getBase"), [own]), it.call(w.func("functions.py::Environment.getBase"), [child]))
        it.call(w.func("functions.py::Environment.withParent"), [own, session])
        c["attached"] = (it.call(w.func("functions.py::Environment.getBase"), [own]), it.call(w.func("functions.py::Environment.getBase"), [child]),
                         it.call(w.func("functions.py::Environment.getBase"), [session]))
        it.call(w.func("functions.py::Environment.withParent"), [own, None])
        c["detached"] = (it.call(w.func("functions.py::Environment.getBase"), [own]), it.call(w.func("functions.py::Environment.getBase"), [child]))
        c["objs"] = (base, session, own, child)
        return Outcome("return", None)

    def p_chain(it, c, o):
        base, session, own, child = c["objs"]
        it.check("post:a-standalone-environment-is-its-own-base", c["before"][0] is own and c["before"][1] is own)
        it.check("post:once-attached-its-base-(and that of its children)-is-the-root-of-the-chain-it-was-attached-to",
                 c["attached"][0] is base and c["attached"][1] is base and c["attached"][2] is base)
        it.check("post:detached-again-it-is-its-own-base", c["detached"][0] is own and c["detached"][1] is own)
    U.append(Unit("functions.py::Environment.getBase", lambda it: ([], {}, {}), p_chain, name="functions.py::Environment.getBase[attached and detached with withParent]",
                  body=b_chain, allowed=(), replay=replay_binder))
    return U


# ----------------------------------------------------------------------------- exhaustive cross-check on real secure interpreters

def _mods():
    import importlib
    import sys
    import os
    root = os.path.join(os.environ.get("VERIF_REPO", "/repo"), "src")
    if root not in sys.path:
        sys.path.insert(0, root)
    for m in [k for k in sys.modules if k == "ckl" or k.startswith("ckl.")]:
        del sys.modules[m]
    return importlib.import_module("ckl.interpreter"), importlib.import_module("ckl.errors"), importlib.import_module("ckl.functions")


def native_names():
    from pyvc.source import Repo
    bn = Repo().module("functions.py").functions["bind_native"]
    return sorted({n.comparators[0].value for n in ast.walk(bn) if isinstance(n, ast.Compare) and isinstance(n.left, ast.Name) and n.left.id == "native"
                   and isinstance(n.comparators[0], ast.Constant)})


def insecure_reachable(I, functions_mod):
    """names of values with secure == False reachable from the environments of interpreter I"""
    seen, bad = set(), []

    def walk(v, path):
        if id(v) in seen:
            return
        seen.add(id(v))
        if hasattr(v, "secure") and hasattr(v, "execute") and v.secure is False:
            bad.append(path)
        val = getattr(v, "value", None)
        if isinstance(val, dict):
            for k, x in val.items():
                walk(x, path + "->" + str(k))
                if not isinstance(k, str):
                    walk(k, path + "<key>")
        elif isinstance(val, (list, set)):
            for x in val:
                walk(x, path + "[]")
        lex = getattr(v, "lexicalEnv", None)
        if lex is not None:
            env(lex, path + "{closure}")

    def env(e, path):
        while e is not None:
            if id(e) in seen:
                break
            seen.add(id(e))
            for k, x in list(e.map.items()):
                walk(x, path + k)
            for mn, me in getattr(e, "modules", {}).items():
                env(me, path + "mod:" + mn + ":")
            e = e.parent
    env(I.environment, "")
    return bad


def bounded(tier, seed):
    import time
    import os
    t0 = time.time()
    interp, errors, functions_mod = _mods()
    names = native_names()
    fails, ev = [], 0
    DENIED = ["file_input", "file_output", "file_copy", "file_delete", "file_exists", "file_info", "file_move", "list_dir", "make_dir", "execute", "run"]
    for legacy in (True, False):
        # history: a non-secure interpreter of the same process has already loaded every module (what it loads must not
        # become reachable from the secure one created afterwards)
        trusted = interp.Interpreter(False, legacy)
        for mod in ["IO", "OS", "Sys", "Core", "String", "List"]:
            try:
                trusted.interpret(f"require {mod}", "-")
            except Exception:
                pass
        I = interp.Interpreter(True, legacy)
        for n in names:
            for alias in (None, "al_" + n.lower()):
                ev += 1
                src = f"bind_native('{n}')" if alias is None else f"bind_native('{n}', '{alias}')"
                try:
                    I.interpret(src, "-")
                except (errors.CklRuntimeError, errors.CklSyntaxError):
                    pass
                except Exception as e:
                    fails.append({"id": "bounded:binder-host-exception", "input": src, "observed": repr(e), "expected": "bound or refused"})
        for mod in ["IO", "OS", "Sys", "Core", "String", "List", "Set", "Math", "Date", "Stat", "Random", "Type", "Predicate", "Bitwise"]:
            try:
                I.interpret(f"require {mod}; require {mod} unqualified", "-")
            except Exception:
                pass
        bad = insecure_reachable(I, functions_mod)
        ev += 1
        if bad:
            fails.append({"id": "bounded:insecure-function-reachable-in-secure-mode", "input": f"all {len(names)} natives x alias, all modules, legacy={legacy}",
                          "observed": str(bad[:5]), "expected": "none"})
        for d in DENIED:
            ev += 1
            try:
                I.interpret(d, "-")
                defined = True
            except errors.CklRuntimeError:
                defined = False
            if defined:
                fails.append({"id": "bounded:denied-built-in-is-defined-in-secure-mode", "input": f"{d} (legacy={legacy})", "observed": "defined", "expected": "undefined"})
        # every syntactic way of defining or assigning the flag
        for src in ["checkerlang_secure_mode = FALSE", "[checkerlang_secure_mode, x] = [FALSE, 1]", "def checkerlang_secure_mode = FALSE; bind_native('file_input'); file_input",
                    "def f() do def checkerlang_secure_mode = FALSE; bind_native('file_delete'); file_delete end; f()",
                    "for checkerlang_secure_mode in [FALSE] do bind_native('make_dir') end; make_dir",
                    "def o = <*checkerlang_secure_mode = FALSE*>; bind_native('list_dir'); list_dir",
                    "require IO; IO->read_file", "require OS; OS->execute" if False else "require OS unqualified; file_exists",
                    "(fn(checkerlang_secure_mode) do bind_native('file_copy'); file_copy end)(FALSE)"]:
            ev += 1
            try:
                r = I.interpret(src, "-")
                obs = "value " + str(r)
                ok = str(r) == "NULL"        # a missing module member reads as NULL: still undefined
            except (errors.CklRuntimeError, errors.CklSyntaxError) as e:
                ok, obs = True, "refused"
            except Exception as e:
                ok, obs = False, repr(e)
            if not ok:
                fails.append({"id": "bounded:secure-flag-cannot-be-switched-off", "input": src, "observed": obs, "expected": "an error (built-in stays undefined)"})
        # programs run by the host in a caller-supplied environment (Interpreter.interpret(script, file, environment)): the same
        # attempts there, and a function value that outlives such a run
        import tempfile
        import shutil
        scratch = tempfile.mkdtemp(prefix="c09dir", dir=os.environ.get("VERIF_SCRATCH", "/var/tmp"))
        try:
            for src in ["def checkerlang_secure_mode = FALSE; bind_native('list_dir'); list_dir('%s')" % scratch,
                        "for checkerlang_secure_mode in [FALSE] do bind_native('list_dir') end; list_dir('%s')" % scratch]:
                ev += 1
                try:
                    r = I.interpret(src, "-", functions_mod.Environment())
                    ok, obs = False, "value " + str(r)
                except (errors.CklRuntimeError, errors.CklSyntaxError):
                    ok, obs = True, "refused"
                if not ok:
                    fails.append({"id": "bounded:secure-flag-cannot-be-switched-off[in a caller-supplied environment]", "input": src, "observed": obs, "expected": "an error"})
            ev += 1
            K_ = interp.Interpreter(True, legacy)
            K_.interpret("def holder = [];", "a")
            K_.interpret("def checkerlang_secure_mode = FALSE; def bn = bind_native; def f() do bn('list_dir'); list_dir('%s') end; append(holder, f); 1" % scratch,
                         "b", functions_mod.Environment())
            try:
                r = K_.interpret("holder[0]()", "c")
                ok, obs = False, "value " + str(r)
            except (errors.CklRuntimeError, errors.CklSyntaxError):
                ok, obs = True, "refused"
            if not ok:
                fails.append({"id": "bounded:secure-flag-cannot-be-switched-off[function value that outlives a run in a caller-supplied environment]",
                              "input": "interpret('def holder = []'); interpret(\"def checkerlang_secure_mode = FALSE; def bn = bind_native; def f() do bn('list_dir'); list_dir(dir) end; "
                                       "append(holder, f)\", environment=Environment()); interpret('holder[0]()')", "observed": obs, "expected": "an error (list_dir stays undefined)"})
        finally:
            shutil.rmtree(scratch, ignore_errors=True)
        flag = I.base_environment.map["checkerlang_secure_mode"]
        if str(flag) != "TRUE":
            fails.append({"id": "bounded:base-flag-still-on", "input": "after all attempts", "observed": str(flag), "expected": "TRUE"})
    seen, uniq = set(), []
    for f in fails:
        if f["id"] not in seen:
            seen.add(f["id"])
            uniq.append(f)
    return [BoundedResult("exhaustive binder cross-check on real secure interpreters", f"{len(names)} native names x {{no alias, alias}} x {{legacy, non-legacy}}, all bundled modules, "
                          f"{len(DENIED)} denied built-ins, 9 ways of shadowing/assigning the flag; value graph walked for secure == False", ev, ev, uniq,
                          [{"src": "bind_native('file_move', 'mv')"}], "finite: complete for the natives the binder knows", time.time() - t0)]


def replay_binder(fail):
    for b in bounded("quick", 0):
        if b.failures:
            f = dict(b.failures[0])
            f["reproduced"] = True
            return f
    return {"reproduced": False}
