"""The loop body of Lexer.scan as a transition relation (DESIGN.md 2.1: unit `lexer.py::Lexer.scan#loop0`).

One *step* = one execution of the real loop body, taken from the same AST, from a pre-state
(state constant; ch, token, tempbuf, pos, line, column, updatepos, startline, startcolumn symbolic).
`Token(...)` construction is intercepted to log the emitted token (value, type, pos) in the ghost trace.
"""
import ast
import z3

from pyvc.verify import Unit, Outcome
from pyvc.interp import Frame, PyRaise, ScriptAbs, _loop_ordinals
from pyvc.values import SInt, SStr, SBool, SChar, Obj, PList, zi, zs, zb, mk_int
from pyvc.path import OutOfSubset

STATES = [0, 1, 2, 21, 3, 31, 311, 312, 4, 41, 411, 412, 5, 6, 7, 70, 71, 72, 8, 9, 10]
RANK = {70: 2, 1: 1, 2: 1, 21: 1, 5: 1, 7: 1, 71: 1, 72: 1, 8: 1, 10: 1}
TERMINATORS = "()[]<>=! \t\n\r+-*/%,;#"
MAXCODE = 0x30000      # z3's character range (assumption: code points below U+30000)


def re_chars(chars):
    return z3.Union(*[z3.Re(z3.StringVal(c)) for c in chars]) if len(chars) > 1 else z3.Re(z3.StringVal(chars))


DIG = z3.Range("0", "9")
HEX = z3.Union(z3.Range("0", "9"), z3.Range("a", "f"), z3.Range("A", "F"))
US = z3.Re(z3.StringVal("_"))


def state_inv(q, L):
    """per-state facts about the pending token at the loop head (the inductive invariant, DESIGN A.2)"""
    tok, tmp = zs(L["token"]), zs(L["tempbuf"])
    out = [zi(L["pos"]) >= 0, zi(L["line"]) >= 1]
    if q in (0, 5, 9):
        out.append(tok == z3.StringVal(""))
    if q not in (312, 412):
        out.append(tmp == z3.StringVal(""))
    else:
        out.append(z3.Length(tmp) == 1)
    if q == 2:
        out.append(z3.Or(*[tok == z3.StringVal(c) for c in "<>=!"]))
    if q == 21:
        out.append(z3.Or(tok == z3.StringVal("<<"), tok == z3.StringVal(">>")))
    if q == 10:
        out.append(z3.Or(*[tok == z3.StringVal(c) for c in "+-*%"]))
    if q == 70:
        out.append(tok == z3.StringVal(""))
    # (states 7/8: the shape of the pending numeral, [0-9][0-9_]*(\.[0-9_]*)?, is not needed for safety or progress;
    #  both solvers stall on its preservation through str.to_code, so it is covered by the bounded fuzzing instead)
    if q == 71:
        out.append(z3.InRe(tok, z3.Star(z3.Union(HEX, US))))
    if q == 72:
        out.append(z3.InRe(tok, z3.Star(z3.Union(z3.Range("0", "1"), US))))
    if q == 1:
        out.append(z3.Length(tok) >= 1)
    if q == 6:
        out.append(z3.PrefixOf(z3.StringVal("//"), tok))
    return out


class Step:
    """result of one executed loop body"""

    def __init__(self, pre, post, emitted, outcome, it):
        self.pre, self.post, self.emitted, self.outcome, self.it = pre, post, emitted, outcome, it


def lexer_world(w):
    if "any" not in w.elem_kinds:
        from .common import Vals
        Vals(w)
    lex = w.import_module("ckl.lexer").ns
    fn = w.func("lexer.py::Lexer.scan")
    loops = [n for n in ast.walk(fn.node) if isinstance(n, ast.While)]
    if len(loops) != 1:
        raise OutOfSubset("Lexer.scan is expected to have exactly one while loop")
    return lex, fn, loops[0]


def pre_state(it, q, ch=None, assume_inv=True, **fixed):
    """symbolic pre-state for scanner state q"""
    L = {
        "state": q,
        "ch_code": SInt(z3.Int("ch")),
        "token": SStr(z3.String("token")),
        "tempbuf": SStr(z3.String("tempbuf")),
        "pos": SInt(z3.Int("pos")),
        "line": SInt(z3.Int("line")),
        "column": SInt(z3.Int("column")),
        "updatepos": SBool(z3.Bool("updatepos")),
        "startline": SInt(z3.Int("startline")),
        "startcolumn": SInt(z3.Int("startcolumn")),
        "n": SInt(z3.Int("n")),
    }
    L.update(fixed)
    it.assume(z3.And(zi(L["ch_code"]) >= 0, zi(L["ch_code"]) < MAXCODE))
    if ch is not None:
        if isinstance(ch, str):
            it.assume(zi(L["ch_code"]) == ord(ch))
        else:
            it.assume(ch(zi(L["ch_code"])))
    it.assume(z3.And(zi(L["pos"]) >= 0, zi(L["pos"]) < zi(L["n"])))
    if assume_inv:
        for c in state_inv(q, L):
            it.assume(c)
    return L


def run_step(w, it, L):
    """execute the real loop body once from pre-state L"""
    lex, fn, loop = lexer_world(w)
    emitted = []
    # the current character: a one-character string variable tied to its code point
    # (comparisons use the integer code, concatenations the string variable - good for regular-expression facts)
    if isinstance(L["ch_code"], int):
        ch = SChar(z3.IntVal(L["ch_code"]))
        ch = SStr(z3.StringVal(chr(L["ch_code"])), code=z3.IntVal(L["ch_code"]))
    else:
        chs = z3.String("chs")
        it.path.assume(z3.And(z3.Length(chs) == 1, z3.StrToCode(chs) == zi(L["ch_code"])), check=False)
        cc = zi(L["ch_code"])
        # bridge between the code point and the regular-expression character classes used by the state invariants
        it.path.assume(z3.And(
            z3.And(cc >= 48, cc <= 57) == z3.InRe(chs, DIG),
            z3.Or(z3.And(cc >= 48, cc <= 57), z3.And(cc >= 97, cc <= 102), z3.And(cc >= 65, cc <= 70)) == z3.InRe(chs, HEX),
            z3.And(cc >= 48, cc <= 49) == z3.InRe(chs, z3.Range("0", "1")),
            (cc == 95) == (chs == z3.StringVal("_")), (cc == 46) == (chs == z3.StringVal(".")), (cc == 47) == (chs == z3.StringVal("/"))), check=False)
        ch = SStr(chs, code=zi(L["ch_code"]))

    def getch(it_, idx, node):
        it_.guard(mk_bool_(z3.And(zi(idx) >= 0, zi(idx) < zi(L["n"]))), "IndexError", node, "string index out of range")
        return ch
    script = ScriptAbs(L["n"], getch)
    tokens = PList(sym=z3.Const("tokens0", z3.SeqSort(z3.IntSort())), kind="any")
    tokens.fresh = False
    selfobj = Obj(lex["Lexer"], {"script": script, "name": SStr(z3.String("fname")), "tokens": tokens, "nextToken": 0})
    selfobj.fresh = False

    def token_ctor(it_, a, k, node):
        value, ttype, pos = a[0], a[1], a[2]
        o = Obj(lex["Token"], {"value": value, "type": ttype, "pos": pos})
        emitted.append(o)
        it_.trace.append(("token", value, ttype, pos))
        return o
    it.abstractions["Token"] = token_ctor
    frame = Frame(fn, fn.module, {
        "self": selfobj, "fname": selfobj.fields["name"], "tempbuf": L["tempbuf"], "token": L["token"], "state": L["state"],
        "pos": L["pos"], "line": L["line"], "column": L["column"], "updatepos": L["updatepos"],
        "startline": L["startline"], "startcolumn": L["startcolumn"],
    })
    outcome = Outcome("return", None)
    try:
        it.exec_block(loop.body, frame)
    except PyRaise as e:
        outcome = Outcome("raise", exc=e.exc)
    return Step(L, frame.locals, emitted, outcome, it)


def mk_bool_(z):
    from pyvc.values import mk_bool
    return mk_bool(z)


def step_unit(w, name, q, post, ch=None, fixed=None, allowed=("CklSyntaxError",), assume_inv=True, extra_pre=None, replay=None):
    def setup(it):
        L = pre_state(it, q, ch, assume_inv, **(fixed or {}))
        if extra_pre:
            extra_pre(it, L)
        return [], {}, {"L": L}

    def body(it, c):
        st = run_step(w, it, c["L"])
        c["step"] = st
        if st.outcome.kind == "raise":
            return st.outcome
        return Outcome("return", st)

    def post_(it, c, o):
        post(it, c["step"], o)
    return Unit("lexer.py::Lexer.scan", setup, post_, name=f"lexer.py::Lexer.scan#loop0[{name}]", body=body, allowed=allowed,
                config={"max_unroll": 8}, replay=replay)
