"""C05 - Errors reach the nearest matching handler and finally runs exactly once."""
import ast
import z3

from pyvc.verify import Unit, Outcome
from pyvc.interp import Loop, PyRaise
from pyvc.values import SInt, SStr, SElem, SBool, Obj, PList, PDict, zi, zs, zb, mk_bool, mk_int
from pyvc.runner import BoundedResult
from pyvc.source import Repo
from .common import Vals, real_env, cls_name
from .nodekit import (NodeKit, trace, val_id, is_ctrl, VAL, ERR, ERRVAL, KIND, RETVAL, EMPTY, SEQ, TRUE_ID)

MANIFEST_ENTRY = {
    'category': 'proof',
    'text': "the real try/except/finally of the block node is executed with abstract children for any number of catch clauses and finally expressions: an error raised by a statement ends the statement part; catch clauses are consulted in order, a clause matches iff it is `catch all` or the error value equals (language ==) the evaluated clause value, the first match's expression is evaluated once and its value is the block's value, later clauses are not consulted; without a match the same error object propagates; finally expressions are evaluated in order exactly once after everything else on every exit kind (normal, control value, error caught, error uncaught, error raised by a handler) and do not replace the outcome; `error v` raises a runtime error carrying the evaluated operand; only CklRuntimeError is intercepted; the hosts (run, repl) catch exactly the two language exceptions; the parser builds a block only from its own statements, handlers and finally part: parse_block/parse_bare_block never modify a block a sub-parser returned (frame obligation on the abstract token stream); every node form with children passes a child's error on as the same error object and evaluates nothing after it (sweep over all node forms, eval, loops over inputs); stack exhaustion inside a call is a runtime error at the call; generated nests of depth <= 4 with an error of every kind injected at every statement position against a reference evaluator",
    'note': 'an error raised by a finally expression replaces the pending outcome (Python semantics; the property does not say otherwise); statement part, handler part and finally part are verified as separate units of the same method (each with its own loop contract)',
    'technique': 'deductive verification: pyvc VCs from the real AST with ghost event traces and loop contracts + z3; bounded program enumeration as cross-check',
}
PROPERTY = "C05"
LEVEL = "proof"
TRUSTED = ["CPython try/except/finally semantics as implemented by the engine (finally on every exit; bare raise re-raises the caught object)"]
ASSUMPTIONS = ["children are abstract; composition over nested blocks by structural induction (paper argument)"]
EXPLANATION = "path enumeration of the real try/except/finally with abstract children, loop contracts for clause and finally lists"

ISALL = z3.Function("CATCH_ALL", z3.IntSort(), z3.BoolSort())
CERR = z3.Function("CATCH_VALUE_NODE", z3.IntSort(), z3.IntSort())
CEXPR = z3.Function("CATCH_EXPR_NODE", z3.IntSort(), z3.IntSort())
HPRE = z3.Function("spec_consulted", z3.IntSort(), SEQ)    # HPRE(k) = value nodes of the first k (non-`all`) clauses, in order


def units(w):
    V = Vals(w)
    K = NodeKit(w, V)
    U = []
    nodes = w.import_module("ckl.nodes").ns
    errors = w.import_module("ckl.errors").ns
    C = z3.Const("C", SEQ)

    # symbolic list of catch clauses [err | None, expr]
    def wrap_clause(it_, z):
        if it_.path.branch(ISALL(z)):
            err = None
        else:
            err = K.node_z(CERR(z))
        pl = PList([err, K.node_z(CEXPR(z))])
        return pl
    w.elem_kinds["clause"] = (wrap_clause, lambda it_, v: None)

    def mk(ncls, **fields):
        o = Obj(nodes[ncls], dict(fields))
        o.fields.setdefault("pos", SElem(z3.Int("npos"), "pos"))
        o.fresh = False
        return o

    def errs_ok(it, o):
        le = it.ghost.get("last_exc")
        return o.kind == "raise" and le is not None and o.exc is le

    # ================================================================== handler selection (one failing statement, n clauses)
    def s_handlers(it):
        K.axioms(it)
        stmt = K.node("stmt")
        clauses = PList(sym=C, kind="clause")
        clauses.fresh = False
        node = mk("NodeBlock", expressions=PList([stmt]), catchexprs=clauses, finallyexprs=PList([]), toplevel=False)
        it.assume(ERR(z3.IntVal(0)))                      # the statement raises
        it.assume(HPRE(z3.IntVal(0)) == EMPTY)
        return [node, real_env(w, it, {})], {}, {}

    def h_inv(st):
        it = st.interp
        k = zi(st.k)
        q = z3.Int("qi")
        ev = ERRVAL(z3.IntVal(0))
        return [k >= 0, trace(it) == z3.Concat(z3.Unit(z3.Int("stmt")), HPRE(k)), z3.Length(HPRE(k)) == k,
                z3.ForAll([q], z3.Implies(z3.And(q >= 0, q < k),
                                          z3.And(z3.Not(ISALL(C[q])), z3.Not(ERR(q + 1)), VAL(q + 1) != ev)))]

    def h_lemmas(st):
        k1 = zi(st.k)
        return [z3.Implies(k1 >= 1, HPRE(k1) == z3.Concat(HPRE(k1 - 1), z3.Unit(CERR(C[k1 - 1]))))]

    def p_handlers(it, c, o):
        tr = trace(it)
        n = z3.Length(C)
        p = z3.Length(tr)
        ev = ERRVAL(z3.IntVal(0))
        m = z3.Int("wm")
        q = z3.Int("qp")
        earlier_no_match = lambda m_: z3.ForAll([q], z3.Implies(z3.And(q >= 0, q < m_), z3.And(z3.Not(ISALL(C[q])), VAL(q + 1) != ev)))
        stmt = z3.Unit(z3.Int("stmt"))
        if o.kind == "return":
            handled_all = z3.Exists([m], z3.And(m >= 0, m < n, ISALL(C[m]), earlier_no_match(m),
                                                tr == z3.Concat(stmt, HPRE(m), z3.Unit(CEXPR(C[m]))), p == m + 2))
            handled_val = z3.Exists([m], z3.And(m >= 0, m < n, z3.Not(ISALL(C[m])), earlier_no_match(m), VAL(m + 1) == ev,
                                                tr == z3.Concat(stmt, HPRE(m), z3.Unit(CERR(C[m])), z3.Unit(CEXPR(C[m]))), p == m + 3))
            it.check("post:first-matching-clause(by-value-or-all)-handles-later-clauses-not-consulted", z3.Or(handled_all, handled_val))
            it.check("post:block-value-is-the-handler-value", val_id(o.value, V) == VAL(p - 1))
        else:
            first = it.ghost["exc_first"] if "exc_first" in it.ghost else None
            unmatched = z3.And(tr == z3.Concat(stmt, HPRE(n)), earlier_no_match(n))
            if errs_ok(it, o) and o.exc.fields.get("_at") is not None and z3.is_true(z3.simplify(o.exc.fields["_at"] == 0)):
                it.check("raises:unmatched-error-propagates-as-the-same-object-after-all-clauses-were-consulted", unmatched)
            else:
                it.check("raises:otherwise-only-an-error-of-a-clause-value-or-handler-expression", errs_ok(it, o))
    U.append(Unit("nodes.py::NodeBlock.evaluate", s_handlers, p_handlers, name="nodes.py::NodeBlock.evaluate[handler selection]",
                  loops={1: Loop(h_inv, modifies=["ghost:trace"], lemmas=h_lemmas)}, prepare=K.install, replay=replay_prog))

    # ================================================================== finally: every exit kind
    F = z3.Const("F", SEQ)
    SCEN = ["empty", "value", "error-uncaught", "error-caught", "handler-raises"]

    def s_fin(scen):
        def setup(it):
            K.axioms(it)
            stmts = [] if scen == "empty" else [K.node("stmt")]
            catches = []
            if scen in ("error-caught", "handler-raises"):
                catches = [PList([None, K.node("handler")])]
            fin = K.nodes_sym("F")
            node = mk("NodeBlock", expressions=PList(stmts), catchexprs=PList(catches), finallyexprs=fin, toplevel=False)
            if scen == "value":
                it.assume(z3.Not(ERR(z3.IntVal(0))))
            if scen in ("error-uncaught", "error-caught", "handler-raises"):
                it.assume(ERR(z3.IntVal(0)))
            if scen == "error-caught":
                it.assume(z3.Not(ERR(z3.IntVal(1))))
            if scen == "handler-raises":
                it.assume(ERR(z3.IntVal(1)))
            return [node, real_env(w, it, {})], {}, {}
        return setup

    def fin_inv(st):
        it = st.interp
        k = zi(st.k)
        pre = it.ghost["entry:loop2"]["trace"]
        q = z3.Int("qi")
        n0 = z3.Length(pre)
        return [k >= 0, trace(it) == z3.Concat(pre, z3.SubSeq(F, 0, k)),
                z3.ForAll([q], z3.Implies(z3.And(q >= n0, q < n0 + k), z3.Not(ERR(q))))]

    def fin_lemmas(st):
        k1 = zi(st.k)
        return [z3.Implies(z3.And(k1 >= 1, k1 <= z3.Length(F)), z3.Concat(z3.SubSeq(F, 0, k1 - 1), z3.Unit(F[k1 - 1])) == z3.SubSeq(F, 0, k1))]

    def p_fin(scen):
        pre_ids = {"empty": [], "value": ["stmt"], "error-uncaught": ["stmt"], "error-caught": ["stmt", "handler"], "handler-raises": ["stmt", "handler"]}[scen]

        def post(it, c, o):
            tr = trace(it)
            pre = EMPTY
            for nm in pre_ids:
                pre = z3.Concat(pre, z3.Unit(z3.Int(nm)))
            pre = z3.simplify(pre)
            n0 = len(pre_ids)
            nf = z3.Length(F)
            p = z3.Length(tr)
            fin_raised = o.kind == "raise" and o.exc.fields.get("_at") is not None and not z3.is_true(z3.simplify(o.exc.fields["_at"] < n0))
            if fin_raised:
                it.check("raises:error-of-a-finally-expression-after-the-earlier-ones-ran-in-order", z3.And(p > n0, p <= n0 + nf, tr == z3.Concat(pre, z3.SubSeq(F, 0, p - n0))))
                return
            it.check("post:every-finally-expression-evaluated-exactly-once-in-order-after-everything-else", tr == z3.Concat(pre, F))
            if scen == "empty":
                it.check("post:outcome-unchanged-by-finally", o.kind == "return" and val_id(o.value, V) == TRUE_ID)
            elif scen == "value":
                it.check("post:outcome-unchanged-by-finally(value-or-control-value)", o.kind == "return" and val_id(o.value, V) == VAL(z3.IntVal(0)))
            elif scen == "error-uncaught":
                it.check("post:outcome-unchanged-by-finally(same-error-object)", o.kind == "raise" and z3.is_true(z3.simplify(o.exc.fields["_at"] == 0)))
            elif scen == "error-caught":
                it.check("post:outcome-unchanged-by-finally(handler-value)", o.kind == "return" and val_id(o.value, V) == VAL(z3.IntVal(1)))
            else:
                it.check("post:outcome-unchanged-by-finally(handler-error)", o.kind == "raise" and z3.is_true(z3.simplify(o.exc.fields["_at"] == 1)))
        return post
    for scen in SCEN:
        U.append(Unit("nodes.py::NodeBlock.evaluate", s_fin(scen), p_fin(scen), name=f"nodes.py::NodeBlock.evaluate[finally after {scen}]",
                      loops={2: Loop(fin_inv, modifies=["ghost:trace"], lemmas=fin_lemmas)}, prepare=K.install, replay=replay_prog))

    # ================================================================== only CklRuntimeError is intercepted
    def s_host(it):
        K.axioms(it)

        def on_eval(it_, node, env, p):
            it_.throw("ValueError", "host failure inside a child")
        stmt = K.node("stmt", on_eval=on_eval)
        node = mk("NodeBlock", expressions=PList([stmt]), catchexprs=PList([PList([None, K.node("handler")])]), finallyexprs=PList([]), toplevel=False)
        return [node, real_env(w, it, {})], {}, {}
    U.append(Unit("nodes.py::NodeBlock.evaluate", s_host,
                  lambda it, c, o: it.check("post:a-host-exception-is-not-swallowed-by-catch-all", o.kind == "raise" and o.exc_class == "ValueError"),
                  name="nodes.py::NodeBlock.evaluate[catch all does not intercept host exceptions]", allowed=("ValueError",), prepare=K.install))

    # ================================================================== error v
    def s_error(it):
        K.axioms(it)
        return [mk("NodeError", expression=K.node("e")), real_env(w, it, {})], {}, {}

    def p_error(it, c, o):
        it.check("post:always-raises", o.kind == "raise")
        if errs_ok(it, o):
            it.check("raises:operand-error-propagates", True)
        else:
            it.check("raises:CklRuntimeError-carrying-the-evaluated-operand", o.exc_class == "CklRuntimeError"
                     and val_id(o.exc.fields.get("value"), V) is not None)
            it.check("raises:error-value-is-the-operand-value", val_id(o.exc.fields["value"], V) == VAL(z3.IntVal(0)))
    U.append(Unit("nodes.py::NodeError.evaluate", s_error, p_error, prepare=K.install))

    # ================================================================== error object fields
    def s_rte(it):
        v, msg, pos = V.string(it, "v"), SStr(z3.String("msg")), V.pos(it)
        o = Obj(errors["CklRuntimeError"], {})
        return [o, v, msg, pos], {}, {"o": o, "v": v, "pos": pos}
    U.append(Unit("errors.py::CklRuntimeError.__init__", s_rte,
                  lambda it, c, o: it.check("post:fields(value,msg,pos,empty stacktrace)", c["o"].fields.get("value") is c["v"] and c["o"].fields.get("pos") is c["pos"]
                                            and isinstance(c["o"].fields.get("stacktrace"), PList) and len(c["o"].fields["stacktrace"].items) == 0), allowed=()))

    # ================================================================== hosts catch exactly the two language exceptions (AST scan)
    def host_unit(file, func):
        def body(it, c):
            repo = w.repo
            mod = repo.module(file)
            fn = mod.functions.get(func)
            ok = fn is not None
            names = []
            if fn is not None:
                # the try statements that guard evaluation (their body calls interpret / loadFile)
                for n_ in ast.walk(fn):
                    if isinstance(n_, ast.Try) and any(isinstance(c_, ast.Call) and isinstance(c_.func, ast.Attribute)
                                                       and c_.func.attr in ("interpret", "loadFile") for b_ in n_.body for c_ in ast.walk(b_)):
                        for h_ in n_.handlers:
                            names.append("<bare>" if h_.type is None else ast.unparse(h_.type))
            it.check("post:host-has-except-clauses", ok and len(names) > 0)
            lang = [x for x in names if x in ("CklRuntimeError", "CklSyntaxError")]
            it.check("post:both-language-exceptions-are-caught-and-printed", "CklRuntimeError" in lang and "CklSyntaxError" in lang)
            it.check("post:no-blanket-except-that-would-hide-a-host-exception-as-if-handled",
                     all(x in ("CklRuntimeError", "CklSyntaxError", "EOFError", "KeyboardInterrupt", "(EOFError, KeyboardInterrupt)", "(KeyboardInterrupt, EOFError)", "SystemExit") for x in names))
            return Outcome("return", None)
        return Unit(f"{file}::{func}", lambda it: ([], {}, {}), None, name=f"{file}::{func}[except clauses]", body=body, canary=False)
    U.append(host_unit("run.py", "main"))
    U.append(host_unit("repl.py", "main"))
    # ================================================================== an error travels unchanged through every construct between the raise site and the handler
    # every node form with children that may raise: when a child raises, the node raises that very error object and evaluates
    # nothing afterwards ("an unmatched error continues outward unchanged", "no statement after the failing one runs").
    # NodeBlock (the only construct that intercepts) is verified above.
    from .common import Stubs, StubFuncs, runtime_error
    from .c13 import make_value, install_streams
    from .nodeforms import node_forms
    S_, F_ = Stubs(w), StubFuncs(w)
    EK = ["null", "true", "false", "int", "string", "list1", "set1", "map1", "object1", "func", "input"]

    def erring(name, EK=EK):
        def outcome(it, env):
            if it.ghost.get("raised") is not None:
                it.ghost["after"] = name
            c = it.path.choose(len(EK) + 1)
            if c == len(EK):
                exc = runtime_error(w, it, V.string(it, it.fresh(name + ".errval").replace("~", "_")), name + ".err")
                it.ghost["raised"] = exc
                raise PyRaise(exc)
            return make_value(V, F_, it, EK[c], it.fresh(name).replace("~", "_"))
        return S_.node(name, outcome)

    def p_transparent(it, c, o):
        exc = it.ghost.get("raised")
        if exc is not None:
            it.check("post:the-error-of-a-child-leaves-the-construct-as-the-same-error-object", o.kind == "raise" and o.exc is exc)
            it.check("post:nothing-is-evaluated-after-the-failing-child", it.ghost.get("after") is None, detail=str(it.ghost.get("after")))
        else:
            it.check("post:value-or-language-error", o.kind == "return" or o.exc_class == "CklRuntimeError")

    def t_unit(ncls, fields, name=None, loops=None):
        def setup(it):
            fs = {k: (v(it) if callable(v) else v) for k, v in fields.items()}
            fs["pos"] = V.pos(it)
            node = Obj(nodes[ncls], fs)
            node.fresh = False
            return [node, real_env(w, it, {"x": V.int(it, "envx"), "y": V.int(it, "envy")})], {}, {}
        nm = (name or f"nodes.py::{ncls}.evaluate[all kinds]").replace("all kinds", "children that raise").replace("of all kinds", "that raise")
        return Unit(f"nodes.py::{ncls}.evaluate", setup, p_transparent, name=nm, config={"max_unroll": 12},
                    replay=replay_prog, prepare=install_streams)
    tbody = lambda it: erring("body", ["int", "true"])      # bodies / value expressions: a value or an error (their kind is not looked at)
    for ncls_, fields_, name_, loops_ in node_forms(nodes, erring, tbody, S_, F_, V):
        U.append(t_unit(ncls_, fields_, name_, loops_))
    U.append(t_unit("NodeAssign", {"identifier": "x", "expression": lambda it: erring("v")}))
    U.append(t_unit("NodeDef", {"identifier": "z", "expression": lambda it: erring("v"), "info": ""}))
    U.append(t_unit("NodeReturn", {"expression": lambda it: erring("v")}))
    def wcond(it):
        # a condition that holds at most twice, may raise, and otherwise ends the loop
        def outcome(it_, env):
            if it_.ghost.get("raised") is not None:
                it_.ghost["after"] = "c"
            n_ = it_.ghost.get("conds", 0)
            it_.ghost["conds"] = n_ + 1
            c = it_.path.choose(3)
            if c == 2:
                exc = runtime_error(w, it_, V.string(it_, it_.fresh("c.errval").replace("~", "_")), "c.err")
                it_.ghost["raised"] = exc
                raise PyRaise(exc)
            return V.TRUE if (c == 1 and n_ < 2) else V.FALSE
        return S_.node("c", outcome)
    U.append(t_unit("NodeWhile", {"expression": wcond, "block": tbody}))
    U.append(t_unit("NodeSpread", {"expression": lambda it: erring("v")}))

    # eval: errors of the evaluated code are not replaced (only a failing parse is reported as 'ERROR')
    def s_eval(it):
        f = Obj(w.import_module("ckl.functions").ns["FuncEval"], {"name": "eval", "secure": True, "info": ""})
        return [f, V.args(it, {"s": V.string(it, "src")}, ["s"]), real_env(w, it, {}), V.pos(it, "cpos")], {}, {}
    U.append(Unit("functions.py::FuncEval.execute", s_eval, p_transparent, name="functions.py::FuncEval.execute[evaluated code that raises]",
                  abstractions={"parse_script": lambda it, a, k, n: erring("script")}, replay=replay_prog))

    # a call that exhausts the host stack is a runtime error 'ERROR' at the call, so that enclosing handlers see it
    def s_deep(it):
        def beh(it_, vals):
            it_.throw("RecursionError", "maximum recursion depth exceeded")
        node = Obj(nodes["NodeFuncall"], {"func": S_.node("callee", F_.func("callee", ["a"], beh)), "names": PList([None]),
                                          "args": PList([S_.node("arg", V.int(it, "a"))]), "pos": V.pos(it)})
        return [node, real_env(w, it, {})], {}, {}

    def p_deep(it, c, o):
        it.check("post:stack-exhaustion-inside-a-call-is-a-language-error-at-the-call", o.kind == "raise" and o.exc_class == "CklRuntimeError")
        if o.kind == "raise" and o.exc_class == "CklRuntimeError":
            v = o.exc.fields.get("value")
            it.check("post:its-value-is-the-string-ERROR", zs(v.fields["value"]) == z3.StringVal("ERROR") if isinstance(v, Obj) and v.cls.name == "ValueString" else False)
    U.append(Unit("nodes.py::NodeFuncall.evaluate", s_deep, p_deep, name="nodes.py::NodeFuncall.evaluate[callee exhausts the host stack]",
                  allowed=("CklRuntimeError", "RecursionError"), replay=replay_prog))

    # the parser builds a block from exactly its own statements, handlers and finally part: it never extends a block that a
    # sub-parser returned (frame condition of contracts/parserproof.py, here for the two block-building functions)
    from .parserproof import parser_units
    U.extend(parser_units(w, "C05", only=("parse_block", "parse_bare_block")))
    return U


# ----------------------------------------------------------------------------- bounded

def _interp():
    import importlib
    import sys
    import os
    root = os.path.join(os.environ.get("VERIF_REPO", "/repo"), "src")
    if root not in sys.path:
        sys.path.insert(0, root)
    for m in [k for k in sys.modules if k == "ckl" or k.startswith("ckl.")]:
        del sys.modules[m]
    return importlib.import_module("ckl.interpreter"), importlib.import_module("ckl.errors")


PROGS = [
    ("def l = []; do append(l, 1); error 'x'; append(l, 2) catch 'y' append(l, 'y') catch 'x' append(l, 'x') catch all append(l, 'all') finally append(l, 'f') end; l", "[1, 'x', 'f']"),
    ("def l = []; do do error 1.0 catch 2 3 finally append(l, 'in') end catch 1 append(l, 'outer') finally append(l, 'out') end; l", "['in', 'outer', 'out']"),
    ("def l = []; def f() do do return 5 finally append(l, 'f') end; append(l, 'no') end; [f(), l]", "[5, ['f']]"),
    ("def l = []; for i in [1, 2, 3] do do if i == 2 then break finally append(l, i) end end; l", "[1, 2]"),
    ("def l = []; for i in [1, 2, 3] do do if i == 2 then continue; append(l, 'b') finally append(l, i) end end; l", "['b', 1, 2, 'b', 3]"),
    ("do do error 'a' catch 'a' error 'b' finally 0 end catch 'b' 'got b' end", "'got b'"),
    ("do undefined_symbol catch 'ERROR' 'rt' end", "'rt'"), ("do 1 / 0 catch 'ERROR' 'div' end", "'div'"),
    ("do error [1, 2] catch [1, 2.0] 'list' end", "'list'"), ("do error <<2, 1>> catch <<1, 2>> 'set' end", "'set'"),
    ("do error NULL catch NULL 'null' end", "'null'"), ("do error TRUE catch 1 'one' catch TRUE 'true' end", "'true'"),
    ("do do error 'x' catch 'y' 1 end catch all 'outer' end", "'outer'"),
    ("def n = 0; do do error 'x' finally n += 1 end catch all n end", "1"),
    ("def n = 0; do do 1 finally n += 1 end; n catch all -1 end", "1"),
    ("do error 'unhandled' catch 'other' 0 end", "RT:'unhandled'"), ("error 12", "RT:12"),
    ("do error 'x' catch 'x' do error 'y' catch 'y' 'inner' end end", "'inner'"),
    # a block whose only statement is a block: an error raised by the inner handler belongs to the outer block's handlers
    ("def l = []; do do append(l, 'b'); error 1 catch 1 do append(l, 'h1'); error 2 end end catch 2 do append(l, 'h2'); 'outer' end end; l", "['b', 'h1', 'h2']"),
    ("do do error 1 catch 1 error 2 end catch 2 'outer' end", "'outer'"),
    ("do do error 1 catch 1 undefined_name end catch all 'outer' end", "'outer'"),
    ("do do error 1 catch 1 error 1 end catch 1 'outer' end", "'outer'"),
    ("do do 5 catch 1 6 end catch 2 7 end", "5"),
    ("def l = []; do do error 1 catch 1 error 2 finally append(l, 'fi') end catch 2 append(l, 'o') finally append(l, 'fo') end; l", "['fi', 'o', 'fo']"),
]


# ---- generated nests against a reference evaluator written from the property statement
ERRVALS = [("'x'", ("s", "x")), ("'y'", ("s", "y")), ("1", ("n", 1.0)), ("1.0", ("n", 1.0)), ("2", ("n", 2.0)), ("TRUE", ("b", True)), ("NULL", ("null",)),
           ("[1, 2]", ("l", (("n", 1.0), ("n", 2.0)))), ("[1, 2.0]", ("l", (("n", 1.0), ("n", 2.0)))), ("<<1>>", ("set", (("n", 1.0),))),
           ("<<<'a' => 1>>>", ("m", ((("s", "a"), ("n", 1.0)),))), ("'ERROR'", ("s", "ERROR"))]
# runtime errors: every one of them is an error with value 'ERROR' raised at that statement (also through eval, a loop
# over an input, a call chain and a stack exhaustion)
RTERRS = ["undefined_name_q", "1 / 0", "[1][5]", "deep(1)", "eval('undefined_name_q')", "rethrow()"]
WRAPS = ["{0}", "eval(\"{0}\")", "for ln in str_input('a') do {0} end", "thrower({1})", "[{0} for q in [1]]", "if TRUE then {0}"]


class _Err(Exception):
    def __init__(self, v):
        self.v = v


class _Ret(Exception):
    def __init__(self, v):
        self.v = v


class _Brk(Exception):
    pass


class _Cnt(Exception):
    pass


def _gen(rnd, depth, in_loop, in_fn, counter):
    """a statement list (skeleton: only logging statements, blocks, loops, exits)"""
    out = []
    for _ in range(rnd.randint(1, 3) if depth < 3 else rnd.randint(1, 2)):
        r = rnd.random()
        if depth > 0 and r < 0.4:
            catches = []
            for _c in range(rnd.randint(0, 2)):
                cv = "all" if rnd.random() < 0.3 else rnd.choice(ERRVALS)
                catches.append((cv, _gen(rnd, depth - 1, in_loop, in_fn, counter)))
            fin = _gen(rnd, 0, False, False, counter) if rnd.random() < 0.6 else []
            out.append(("blk", _gen(rnd, depth - 1, in_loop, in_fn, counter), catches, fin))
        elif depth > 0 and r < 0.55:
            out.append(("for", _gen(rnd, depth - 1, True, in_fn, counter)))
        elif depth > 0 and r < 0.62:
            out.append(("call", _gen(rnd, depth - 1, False, True, counter)))
        elif r < 0.68 and in_loop:
            out.append((rnd.choice(["brk", "cnt"]),))
        elif r < 0.72 and in_fn:
            counter[0] += 1
            out.append(("ret", counter[0]))
        else:
            counter[0] += 1
            out.append(("t", counter[0]))
    return out


def _leaves(stmts, path=()):
    for i, s in enumerate(stmts):
        if s[0] == "t":
            yield path + (i,)
        elif s[0] == "blk":
            yield from _leaves(s[1], path + (i, 1))
            for j, (cv, h) in enumerate(s[2]):
                yield from _leaves(h, path + (i, 2, j, 1))
            yield from _leaves(s[3], path + (i, 3))
        elif s[0] in ("for", "call"):
            yield from _leaves(s[1], path + (i, 1))


def _replace(stmts, path, new):
    if len(path) == 1:
        return stmts[:path[0]] + [new] + stmts[path[0] + 1:]
    s = stmts[path[0]]
    if s[0] == "blk":
        if path[1] == 1:
            s2 = ("blk", _replace(s[1], path[2:], new), s[2], s[3])
        elif path[1] == 3:
            s2 = ("blk", s[1], s[2], _replace(s[3], path[2:], new))
        else:
            j = path[2]
            cs = list(s[2])
            cs[j] = (cs[j][0], _replace(cs[j][1], path[4:], new))
            s2 = ("blk", s[1], cs, s[3])
    else:
        s2 = (s[0], _replace(s[1], path[2:], new))
    return stmts[:path[0]] + [s2] + stmts[path[0] + 1:]


def _render(stmts, fns):
    parts = []
    for s in stmts:
        if s[0] == "t":
            parts.append(f"t({s[1]})")
        elif s[0] == "err":
            parts.append(s[1])
        elif s[0] == "ret":
            parts.append(f"return t({s[1]})")
        elif s[0] == "brk":
            parts.append("break")
        elif s[0] == "cnt":
            parts.append("continue")
        elif s[0] == "for":
            parts.append("for i in [1, 2] do " + _render(s[1], fns) + " end")
        elif s[0] == "call":
            name = f"g{len(fns)}"
            fns.append(None)
            fns[int(name[1:])] = f"def {name}() do " + _render(s[1], fns) + " end"
            parts.append(f"{name}()")
        else:
            txt = "do " + _render(s[1], fns)
            for cv, h in s[2]:
                txt += " catch " + ("all" if cv == "all" else cv[0]) + " do " + _render(h, fns) + "; end"
            if s[3]:
                txt += " finally " + _render(s[3], fns)
            parts.append(txt + " end")
    return "; ".join(parts)


def _run_ref(stmts, log):
    val = None
    for s in stmts:
        if s[0] == "t":
            log.append(s[1])
            val = s[1]
        elif s[0] == "err":
            raise _Err(s[2])
        elif s[0] == "ret":
            log.append(s[1])
            raise _Ret(s[1])
        elif s[0] == "brk":
            raise _Brk()
        elif s[0] == "cnt":
            raise _Cnt()
        elif s[0] == "for":
            for _i in (1, 2):
                try:
                    _run_ref(s[1], log)
                except _Brk:
                    break
                except _Cnt:
                    continue
            val = None
        elif s[0] == "call":
            try:
                v = _run_ref(s[1], log)
            except _Ret as r:
                v = r.v
            val = v
        else:
            try:
                try:
                    val = _run_ref(s[1], log)
                except _Err as e:
                    for cv, h in s[2]:
                        if cv == "all" or cv[1] == e.v:
                            val = _run_ref(h, log)
                            break
                    else:
                        raise
            finally:
                _run_ref(s[3], log)
    return val


def nest_programs(tier, seed):
    import random
    rnd = random.Random(seed * 7919 + 5)
    out = []
    nskel = 1500 if tier == "thorough" else 400
    pre = ("def l = []; def t(k) do append(l, k); k end; def thrower(v) do error v end; def deep(n) deep(n + 1) + 1; "
           "def rethrow() do undefined_name_q catch 'nomatch' 0 end; ")
    for _ in range(nskel):
        counter = [0]
        skel = [("call", _gen(rnd, 4, False, True, counter))]
        leaves = list(_leaves(skel))
        if len(leaves) > 24:
            continue
        variants = [skel]
        for lf in leaves:
            picks = rnd.sample(ERRVALS, 3 if tier == "quick" else len(ERRVALS))
            for src, key in picks:
                wrap = rnd.choice(WRAPS)
                txt = wrap.format(f"error {src}", src).replace("\"error '", "\"error \\'").replace("'\")", "\\'\")") if "eval" in wrap and "'" in src else wrap.format(f"error {src}", src)
                variants.append(_replace(skel, lf, ("err", txt, key)))
            for rt in (rnd.sample(RTERRS, 2) if tier == "quick" else RTERRS):
                variants.append(_replace(skel, lf, ("err", rt, ("s", "ERROR"))))
        for prog in variants:
            fns = []
            body = _render(prog, fns)
            src = pre + "; ".join(f for f in fns) + "; def r = do " + body + "; 'done' catch all 'uncaught' end; [r, l]"
            log = []
            try:
                _run_ref(prog, log)
                res = "'done'"
            except _Err as e:
                res = "'uncaught'"
            except (_Ret, _Brk, _Cnt):
                continue
            out.append((src, f"[{res}, [{', '.join(map(str, log))}]]"))
    return out


def bounded(tier, seed):
    import time
    t0 = time.time()
    interp, errors = _interp()
    fails, ev = [], 0
    import sys
    sys.setrecursionlimit(max(sys.getrecursionlimit(), 3000))
    nests = nest_programs(tier, seed)
    shared = None
    for src, exp in nests:
        ev += 1
        if ev % 500 == 1:
            shared = interp.Interpreter(True, True)      # every program defines all it uses; a fresh session every 500 programs
        try:
            obs = str(shared.interpret(src, "-"))
        except errors.CklRuntimeError as e:
            obs = "RT:" + str(e.value)
        except Exception as e:
            obs = repr(e)
        if obs != exp and len(fails) < 3:
            fails.append({"id": "bounded:generated-nest-against-the-reference-evaluator", "input": src, "observed": obs, "expected": exp})
    for src, exp in PROGS:
        ev += 1
        try:
            obs = str(interp.Interpreter(True, True).interpret(src, "-"))
        except errors.CklRuntimeError as e:
            obs = "RT:" + str(e.value)
        except Exception as e:
            obs = repr(e)
        if obs != exp:
            fails.append({"id": "bounded:catch-finally-program", "input": src, "observed": obs, "expected": exp})
    return [BoundedResult("catch/finally programs on the real interpreter", f"{ev} programs ({len(nests)} generated nests of depth <= 4 with an error of every kind injected at every statement position; fixed programs for nested blocks, functions, loops, every exit kind)",
                          ev, ev, fails[:3], [{"src": PROGS[0][0]}], "cross-check of the proof part", time.time() - t0)]


def replay_prog(fail):
    for b in bounded("quick", 0):
        if b.failures:
            f = dict(b.failures[0])
            f["reproduced"] = True
            return f
    return {"reproduced": False}
