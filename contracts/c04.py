"""C04 - Conditionals, loops, comprehensions and early exits have structured semantics.

Event-trace postconditions with abstract children (contracts/nodekit.py): for *arbitrary* behaviour of the children and
*arbitrary* numbers of statements / iterations (loop contracts over the ghost trace).
"""
import z3

from pyvc.verify import Unit, Outcome
from pyvc.interp import Loop, PyRaise
from pyvc.values import SInt, SStr, SElem, SBool, Obj, PList, PDict, zi, zs, zb, mk_bool, mk_int
from pyvc.runner import BoundedResult
from .common import Vals, real_env, cls_name
from .nodekit import (NodeKit, trace, val_id, is_ctrl, VAL, ERR, KIND, RETVAL, EMPTY, SEQ, K_TRUE, K_FALSE, K_BREAK, K_CONTINUE,
                      K_RETURN, K_NULL, K_LIST, K_SET, K_MAP, K_OBJECT, K_STRING, TRUE_ID, FALSE_ID, NULL_ID)

MANIFEST_ENTRY = {
    'category': 'proof',
    'text': 'with children abstract (each evaluation yields an arbitrary value, control value or language error) and for any number of branches, statements and iterations: `if` evaluates conditions in order up to the first TRUE, then exactly that branch, and returns its value; a block evaluates statements in order, stops at the first break/continue/return value and returns it unchanged; `while` alternates condition and body, consumes break/continue, passes return through and re-tests before every iteration; `for` over lists binds and visits the elements in index order and over sets in sorted order, with the same exit handling; a function call unwraps return and rejects stray break/continue; a comprehension visits the same enumeration as the for loop and appends exactly the values whose condition is TRUE; `for` over maps (default/keys/values/entries), objects and strings: the same binding and exit obligations for containers of up to 3 entries (symbolic-bounded); the remaining comprehension forms and every exit kind at every element position of every iterable kind by program enumeration on the real interpreter against a CPython reference; a comprehension tests its condition first and evaluates the value expression only for elements whose condition is TRUE (per-iteration obligation); a `for` loop leaves its scope as it found it however it is left (loop variable gone, a hidden definition back); a product comprehension is two nested loops: the second collection is evaluated per element of the first with that element bound, the value expression once per pair in nested-loop order (symbolic-bounded)',
    'note': 'expression-level nodes pass control values into data (outside the property); map/object/string branches of `for`: symbolic-bounded (<= 3 entries); parallel/product comprehensions: bounded; composition to nested programs by structural induction over the node contracts (paper argument)',
    'technique': 'deductive verification: pyvc VCs from the real AST with ghost event traces and loop contracts + z3; bounded program enumeration for the remaining forms',
}
PROPERTY = "C04"
LEVEL = "proof"
TRUSTED = ["structural induction over the node contracts (a control value travels outwards only through block/if, the first loop consumes it, functions reject it)"]
ASSUMPTIONS = ["children may do anything their own contract allows; they do not mutate the node tree",
               "for over maps/objects/strings/inputs and parallel/product comprehensions: bounded enumeration only"]
EXPLANATION = "event-trace postconditions per node with abstract children, loop contracts over the ghost trace"


def units(w):
    V = Vals(w)
    K = NodeKit(w, V)
    U = []
    nodes = w.import_module("ckl.nodes").ns
    funcs = w.import_module("ckl.functions").ns
    vals = w.import_module("ckl.values").ns

    def mk(ncls, **fields):
        o = Obj(nodes[ncls], dict(fields))
        o.fields.setdefault("pos", SElem(z3.Int("npos"), "pos"))
        o.fresh = False
        return o

    def env_obj(it, bindings=None):
        return real_env(w, it, bindings or {})

    def setup_common(it):
        K.axioms(it)

    def errs_ok(it, o, c=None):
        """an error of a child propagates unchanged (same object)"""
        if o.kind == "raise":
            le = it.ghost.get("last_exc")
            return le is not None and o.exc is le
        return False

    # ================================================================== if
    def s_if(it):
        setup_common(it)
        C, E = K.nodes_sym("C"), K.nodes_sym("E")
        it.assume(z3.Length(C.sym) == z3.Length(E.sym))
        els = K.node("els")
        node = mk("NodeIf", conditions=C, expressions=E, elseExpression=els)
        return [node, env_obj(it)], {}, {"C": C.sym, "E": E.sym, "els": z3.Int("els")}

    def if_inv(st):
        C = st["self"].fields["conditions"].sym
        q = z3.Int("qi")
        return [trace(st.interp) == z3.SubSeq(C, 0, zi(st.k)), zi(st.k) >= 0,
                z3.ForAll([q], z3.Implies(z3.And(q >= 0, q < zi(st.k)), z3.And(z3.Not(ERR(q)), KIND(VAL(q)) == K_FALSE)))]

    def if_lemmas(st):
        C = st["self"].fields["conditions"].sym
        k1 = zi(st.k)
        return [z3.Implies(z3.And(k1 >= 1, k1 <= z3.Length(C)), z3.Concat(z3.SubSeq(C, 0, k1 - 1), z3.Unit(C[k1 - 1])) == z3.SubSeq(C, 0, k1))]

    def p_if(it, c, o):
        C, E, els = c["C"], c["E"], c["els"]
        tr = trace(it)
        n = z3.Length(C)
        p = z3.Length(tr)     # number of evaluations performed
        q = z3.Int("qp")
        i = z3.Int("wi")
        # shape of the trace: conditions 0..i in order, then at most one branch
        taken = z3.Exists([i], z3.And(i >= 0, i < n, tr == z3.Concat(z3.SubSeq(C, 0, i + 1), z3.Unit(E[i])),
                                      z3.ForAll([q], z3.Implies(z3.And(q >= 0, q < i), KIND(VAL(q)) == K_FALSE)), KIND(VAL(i)) == K_TRUE))
        none = z3.And(tr == z3.Concat(C, z3.Unit(els)), z3.ForAll([q], z3.Implies(z3.And(q >= 0, q < n), KIND(VAL(q)) == K_FALSE)))
        if o.kind == "return":
            it.check("post:conditions-in-order-up-to-the-first-TRUE-then-exactly-that-branch(or-else)", z3.Or(taken, none))
            it.check("post:result-is-the-value-of-the-evaluated-branch", val_id(o.value, V) == VAL(p - 1))
        else:
            if errs_ok(it, o):
                it.check("raises:child-error-propagates-unchanged", True)
            else:
                # type error: the last evaluated condition was not a boolean; nothing after it was evaluated
                it.check("raises:non-boolean-condition-is-a-language-error", z3.And(
                    o.exc_class == "CklRuntimeError", p >= 1, p <= n, tr == z3.SubSeq(C, 0, p),
                    KIND(VAL(p - 1)) != K_TRUE, KIND(VAL(p - 1)) != K_FALSE))
    U.append(Unit("nodes.py::NodeIf.evaluate", s_if, p_if, loops={0: Loop(if_inv, modifies=["ghost:trace"], lemmas=if_lemmas)},
                  prepare=K.install, config={"prefer": "z3"}, replay=replay_prog))

    # ================================================================== block (statement part)
    def s_block(it):
        setup_common(it)
        E = K.nodes_sym("E")
        node = mk("NodeBlock", expressions=E, catchexprs=PList([]), finallyexprs=PList([]), toplevel=False)
        return [node, env_obj(it)], {}, {"E": E.sym}

    def block_inv(st):
        E = st["self"].fields["expressions"].sym
        q = z3.Int("qi")
        r = val_id(st["result"], V)
        k = zi(st.k)
        return [trace(st.interp) == z3.SubSeq(E, 0, k), k >= 0,
                z3.ForAll([q], z3.Implies(z3.And(q >= 0, q < k), z3.And(z3.Not(ERR(q)), z3.Not(is_ctrl(VAL(q)))))),
                z3.If(k == 0, r == TRUE_ID, r == VAL(k - 1))]

    def block_lemmas(st):
        E = st["self"].fields["expressions"].sym
        k1 = zi(st.k)
        return [z3.Implies(z3.And(k1 >= 1, k1 <= z3.Length(E)), z3.Concat(z3.SubSeq(E, 0, k1 - 1), z3.Unit(E[k1 - 1])) == z3.SubSeq(E, 0, k1))]

    def p_block(it, c, o):
        E = c["E"]
        tr = trace(it)
        n, p = z3.Length(E), z3.Length(tr)
        q = z3.Int("qp")
        it.check("post:statements-evaluated-in-order-without-gaps", tr == z3.SubSeq(E, 0, p))
        it.check("post:nothing-runs-after-the-first-exit-or-error",
                 z3.ForAll([q], z3.Implies(z3.And(q >= 0, q < p - 1), z3.And(z3.Not(ERR(q)), z3.Not(is_ctrl(VAL(q)))))))
        if o.kind == "return":
            r = val_id(o.value, V)
            it.check("post:result-is-TRUE-for-the-empty-block-else-the-last-evaluated-value-unchanged",
                     z3.If(p == 0, r == TRUE_ID, r == VAL(p - 1)))
            it.check("post:stops-early-only-at-a-break/continue/return-value", z3.Or(p == n, is_ctrl(VAL(p - 1))))
        else:
            it.check("raises:only-a-child-error-propagated-unchanged", errs_ok(it, o))
            it.check("raises:the-failing-statement-is-the-last-one-evaluated", z3.And(p >= 1, ERR(p - 1)))
    U.append(Unit("nodes.py::NodeBlock.evaluate", s_block, p_block, name="nodes.py::NodeBlock.evaluate[statements]",
                  loops={0: Loop(block_inv, modifies=["ghost:trace"], lemmas=block_lemmas,
                                 havoc_as={"result": lambda it: SElem(z3.Int(it.fresh("result")), "value")})},
                  prepare=K.install, replay=replay_prog))

    # ================================================================== while
    PAT = z3.Function("spec_while_trace", z3.IntSort(), z3.IntSort(), z3.IntSort(), SEQ)   # PAT(c, b, k) = [c] ++ [b, c]^k

    def s_while(it):
        setup_common(it)
        cnd, body = K.node("cond"), K.node("body")
        node = mk("NodeWhile", expression=cnd, block=body)
        it.ghost["iters"] = z3.IntVal(0)
        c, b = z3.Int("cond"), z3.Int("body")
        it.assume(PAT(c, b, z3.IntVal(0)) == z3.Unit(c))
        return [node, env_obj(it)], {}, {"c": c, "b": b}

    def while_inv(st):
        it = st.interp
        c, b = z3.Int("cond"), z3.Int("body")
        k = it.ghost["iters"]
        q = z3.Int("qi")
        cv = val_id(st["condition"], V)
        return [k >= 0, trace(it) == PAT(c, b, k), z3.Length(trace(it)) == 2 * k + 1, cv == VAL(2 * k),
                z3.Or(KIND(cv) == K_TRUE, KIND(cv) == K_FALSE),
                # every earlier iteration: condition TRUE, body yielded a value that is neither break nor return
                z3.ForAll([q], z3.Implies(z3.And(q >= 0, q < k), z3.And(KIND(VAL(2 * q)) == K_TRUE, z3.Not(ERR(2 * q)), z3.Not(ERR(2 * q + 1)),
                                                                        KIND(VAL(2 * q + 1)) != K_BREAK, KIND(VAL(2 * q + 1)) != K_RETURN))),
                z3.Not(ERR(2 * k)),
                # result: TRUE before the first iteration / after a `continue`, else the value the body yielded last
                z3.If(k == 0, val_id(st["result"], V) == TRUE_ID,
                      z3.If(KIND(VAL(2 * k - 1)) == K_CONTINUE, val_id(st["result"], V) == TRUE_ID, val_id(st["result"], V) == VAL(2 * k - 1)))]

    def while_end(st):
        it = st.interp
        it.ghost["iters"] = z3.simplify(it.ghost["iters"] + 1)

    def while_lemmas(st):
        it = st.interp
        c, b = z3.Int("cond"), z3.Int("body")
        k1 = it.ghost["iters"]
        # definition of the spec trace unfolded once: PAT(k+1) = PAT(k) ++ [b, c]
        return [z3.Implies(k1 >= 1, PAT(c, b, k1) == z3.Concat(PAT(c, b, k1 - 1), z3.Unit(b), z3.Unit(c)))]

    def p_while(it, c_, o):
        c, b = c_["c"], c_["b"]
        tr = trace(it)
        p = z3.Length(tr)
        k = z3.Int("wk")
        if o.kind == "return":
            r = val_id(o.value, V)
            # normal end: condition FALSE after k full iterations; or the body yielded break / return in iteration k
            normal = z3.Exists([k], z3.And(k >= 0, tr == PAT(c, b, k), p == 2 * k + 1, KIND(VAL(p - 1)) == K_FALSE))
            exit_ = z3.Exists([k], z3.And(k >= 0, tr == z3.Concat(PAT(c, b, k), z3.Unit(b)), p == 2 * k + 2,
                                           z3.Or(KIND(VAL(p - 1)) == K_BREAK, KIND(VAL(p - 1)) == K_RETURN)))
            it.check("post:condition-re-tested-before-every-iteration(trace = cond (body cond)*)", z3.Or(normal, exit_))
            it.check("post:break-is-consumed(result TRUE)-return-passes-through-unchanged-continue-never-escapes", z3.And(
                KIND(r) != K_BREAK, KIND(r) != K_CONTINUE,
                z3.Implies(KIND(VAL(p - 1)) == K_RETURN, r == VAL(p - 1)),
                z3.Implies(KIND(VAL(p - 1)) == K_BREAK, r == TRUE_ID)))
        else:
            if not errs_ok(it, o):
                it.check("raises:non-boolean-condition-is-a-language-error", z3.And(
                    o.exc_class == "CklRuntimeError", p >= 1, KIND(VAL(p - 1)) != K_TRUE, KIND(VAL(p - 1)) != K_FALSE))
            else:
                it.check("raises:child-error-propagates-unchanged", True)
    U.append(Unit("nodes.py::NodeWhile.evaluate", s_while, p_while,
                  loops={0: Loop(while_inv, modifies=["ghost:trace", "ghost:iters"], at_end=while_end, lemmas=while_lemmas, no_variant=True,
                                 havoc_as={"result": lambda it: SElem(z3.Int(it.fresh("result")), "value"),
                                           "condition": lambda it: SElem(z3.Int(it.fresh("condition")), "value")})},
                  prepare=K.install, replay=replay_prog))

    # ================================================================== for over a list / a set
    SEEN = "seen"

    def s_for(kind):
        def setup(it):
            setup_common(it)
            items = PList(sym=z3.Const("items", SEQ), kind="value")
            items.fresh = False
            marker = {}

            def on_body(it_, node, env, p):
                # record which value the loop variable holds when the body is evaluated
                ent = [e for e in env.fields["map"].entries if e[0] == "x"]
                v = val_id(ent[0][1], V) if ent else z3.IntVal(-99)
                it_.ghost[SEEN] = z3.Concat(it_.ghost[SEEN], z3.Unit(v))
            body = K.node("body", on_eval=on_body)
            it.ghost[SEEN] = EMPTY
            it.ghost["bodies"] = z3.IntVal(0)
            if kind == "list":
                coll = V._mk("ValueList", {"value": items}, "coll")
            else:
                hostset = V.set_sym(it, "hostset")
                coll = hostset

                def hook(it_, its, src, n):
                    marker["src"] = src
                    return items
                w.hooks["sorted"] = hook
            lst_node = mk("NodeLiteral", value=coll)
            node = mk("NodeFor", identifiers=PList(["x"]), expression=lst_node, block=body, what=None)
            # the enclosing scope: with an earlier definition of the loop variable's name (list) / without one (set)
            x0 = SElem(z3.Int("x0"), "value")
            env = env_obj(it, {"other": V.TRUE, "x": x0} if kind == "list" else {"other": V.TRUE})
            return [node, env], {}, {"items": items.sym, "env": env, "marker": marker, "coll": coll, "x0": x0 if kind == "list" else None}
        return setup

    def for_inv(st):
        it = st.interp
        L = z3.Const("items", SEQ)
        k = zi(st.k)
        q = z3.Int("qi")
        r = val_id(st["result"], V)
        return [k >= 0, it.ghost[SEEN] == z3.SubSeq(L, 0, k), z3.Length(trace(it)) == k,
                z3.ForAll([q], z3.Implies(z3.And(q >= 0, q < k), z3.And(z3.Not(ERR(q)), KIND(VAL(q)) != K_BREAK, KIND(VAL(q)) != K_RETURN))),
                z3.Or(r == TRUE_ID, z3.And(k >= 1, r == VAL(k - 1))), KIND(r) != K_BREAK, KIND(r) != K_CONTINUE, KIND(r) != K_RETURN]

    def for_lemmas(st):
        L = z3.Const("items", SEQ)
        k1 = zi(st.k)
        return [z3.Implies(z3.And(k1 >= 1, k1 <= z3.Length(L)), z3.Concat(z3.SubSeq(L, 0, k1 - 1), z3.Unit(L[k1 - 1])) == z3.SubSeq(L, 0, k1))]

    def p_for(kind):
        def post(it, c, o):
            L = c["items"]
            n = z3.Length(L)
            p = z3.Length(trace(it))
            seen = it.ghost[SEEN]
            if kind == "set":
                it.check("post:set-enumerated-through-sorted(host set)", c["marker"].get("src") is c["coll"].fields["value"])
            it.check("post:loop-variable-bound-to-the-elements-in-order-one-body-evaluation-each", z3.And(seen == z3.SubSeq(L, 0, p), p <= n))
            # however the loop is left (completed, break, return, error in the body): the scope holds what it held before
            ents = {e[0]: e[1] for e in c["env"].fields["map"].entries}
            it.check("frame:scope-unchanged-after-the-loop(loop variable gone or the hidden definition back, nothing else touched)",
                     set(ents) == ({"other", "x"} if c["x0"] is not None else {"other"}) and ents["other"] is V.TRUE
                     and (c["x0"] is None or ents["x"] is c["x0"]))
            if o.kind == "return":
                r = val_id(o.value, V)
                it.check("post:stops-early-only-on-break-or-return", z3.Or(p == n, z3.And(p >= 1, z3.Or(KIND(VAL(p - 1)) == K_BREAK, KIND(VAL(p - 1)) == K_RETURN))))
                it.check("post:break-consumed-return-passed-through-continue-never-escapes", z3.And(
                    KIND(r) != K_BREAK, KIND(r) != K_CONTINUE,
                    z3.Implies(z3.And(p >= 1, KIND(VAL(p - 1)) == K_RETURN), r == VAL(p - 1)),
                    z3.Implies(KIND(r) == K_RETURN, z3.And(p >= 1, r == VAL(p - 1)))))
                # the loop variable does not leak into the enclosing scope after a completed loop over a non-empty list
            else:
                it.check("raises:only-a-body-error-propagated-unchanged", errs_ok(it, o))
        return post
    for kind in ("list", "set"):
        U.append(Unit("nodes.py::NodeFor.evaluate", s_for(kind), p_for(kind), name=f"nodes.py::NodeFor.evaluate[{kind}]",
                      loops={"NodeFor.iterate": {(3 if kind == "list" else 6): Loop(for_inv, modifies=["ghost:trace", "ghost:" + SEEN], lemmas=for_lemmas,
                                                                                    havoc_as={"result": lambda it: SElem(z3.Int(it.fresh("result")), "value")})}},
                      prepare=K.install, replay=replay_prog))

    # ---- for over maps, objects and strings: the same exit handling and binding, for containers of up to 3 entries
    #      (symbolic-bounded: the enumeration is a host list comprehension / dict view / index loop outside the loop-contract
    #      subset; keys, values, characters and the body's behaviour stay symbolic)
    def s_for_small(kind, n, what):
        def setup(it):
            setup_common(it)
            bound = []

            def on_body(it_, node, env, p):
                ent = [e for e in env.fields["map"].entries if e[0] == "x"]
                bound.append(ent[0][1] if ent else None)
            body = K.node("body", on_eval=on_body)
            keys = [SElem(z3.Int(f"key{i}"), "value") for i in range(n)]
            vs = [SElem(z3.Int(f"val{i}"), "value") for i in range(n)]
            for i in range(n):
                for j in range(i):
                    it.assume(keys[i].z != keys[j].z)
            chars = None
            if kind == "map":
                coll = V.map_of(it, list(zip(keys, vs)), "coll")
                w.hooks["sorted"] = lambda it_, its, src, n_: PList(list(keys))      # keys in ascending order (C07)
            elif kind == "object":
                skeys = [f"k{i}" for i in range(n)]
                coll = V.object_of(it, list(zip(skeys, vs)), "coll")
                keys = skeys
            else:
                sv = SStr(z3.String("text"))
                it.assume(z3.Length(sv.z) == n)
                coll = V._mk("ValueString", {"value": sv}, "coll")
                chars = sv
            node = mk("NodeFor", identifiers=PList(["x"]), expression=mk("NodeLiteral", value=coll), block=body, what=what)
            env = env_obj(it, {"other": V.TRUE})
            return [node, env], {}, {"keys": keys, "vals": vs, "bound": bound, "chars": chars, "env": env}
        return setup

    def p_for_small(kind, n, what):
        def post(it, c, o):
            bound, keys, vs = c["bound"], c["keys"], c["vals"]
            p = len(bound)
            it.check("post:at-most-one-body-evaluation-per-entry", p <= n and bool(z3.is_true(z3.simplify(z3.Length(trace(it)) == p))))
            for i, b in enumerate(bound):
                if kind == "string":
                    ok = cls_name(b) == "ValueString"
                    it.check(f"post:iteration-{i}-binds-the-character-at-{i}", zs(b.fields["value"]) == z3.SubString(c["chars"].z, i, 1) if ok else False)
                elif what == "keys":
                    if kind == "object":
                        it.check(f"post:iteration-{i}-binds-key-{i}", cls_name(b) == "ValueString" and b.fields["value"] == keys[i])
                    else:
                        it.check(f"post:iteration-{i}-binds-key-{i} (ascending)", b is keys[i])
                elif what == "entries":
                    ok = cls_name(b) == "ValueList" and not b.fields["value"].is_sym() and len(b.fields["value"].items) == 2
                    if ok:
                        k_, v_ = b.fields["value"].items
                        ok = (k_ is keys[i] if kind == "map" else cls_name(k_) == "ValueString" and k_.fields["value"] == keys[i]) and v_ is vs[i]
                    it.check(f"post:iteration-{i}-binds-[key, value]-of-entry-{i}", ok)
                else:
                    it.check(f"post:iteration-{i}-binds-the-value-of-entry-{i}", b is vs[i])
            if o.kind == "return":
                r = val_id(o.value, V)
                last = VAL(z3.IntVal(p - 1)) if p else None
                it.check("post:stops-early-only-on-break-or-return", True if p == n else z3.Or(KIND(last) == K_BREAK, KIND(last) == K_RETURN) if p else False)
                it.check("post:break-consumed-return-passed-through-continue-never-escapes", z3.And(
                    KIND(r) != K_BREAK, KIND(r) != K_CONTINUE,
                    z3.Implies(KIND(r) == K_RETURN, r == last) if p else KIND(r) != K_RETURN,
                    z3.Implies(KIND(last) == K_RETURN, r == last) if p else True) if r is not None else False)
                for q in range(p - 1):
                    it.check(f"post:the-loop-continued-after-iteration-{q}-only-on-a-plain-or-continue-value",
                             z3.And(KIND(VAL(z3.IntVal(q))) != K_BREAK, KIND(VAL(z3.IntVal(q))) != K_RETURN))
            else:
                it.check("raises:only-a-body-error-propagated-unchanged", errs_ok(it, o))
        return post
    for kind, whats in (("map", (None, "keys", "values", "entries")), ("object", (None, "keys", "values", "entries")), ("string", (None,))):
        for what in whats:
            for n in (0, 1, 2, 3, 4, 5):
                u = Unit("nodes.py::NodeFor.evaluate", s_for_small(kind, n, what), p_for_small(kind, n, what),
                         name=f"nodes.py::NodeFor.evaluate[{kind}, {what or 'default'}, {n} entries]", prepare=K.install, replay=replay_prog,
                         bounded="containers of <= 3 entries (<= 5 in the thorough tier)")
                u.thorough_only = n > 3
                U.append(u)

    # ================================================================== function call: unwrap return, reject stray break/continue
    def s_lambda(it):
        setup_common(it)
        body = K.node("body")
        lex = env_obj(it, {})
        f = Obj(funcs["FuncLambda"], {"name": "lambda", "secure": True, "lexicalEnv": lex, "argNames": PList([]), "defValues": PList([]),
                                      "body": body, "info": ""})
        f.fresh = False
        args = V.args(it, {}, [])
        return [f, args, env_obj(it, {}), V.pos(it, "cpos")], {}, {}

    def p_lambda(it, c, o):
        p = z3.Length(trace(it))
        it.check("post:body-evaluated-exactly-once", p == 1)
        v = VAL(z3.IntVal(0))
        if o.kind == "return":
            r = val_id(o.value, V)
            it.check("post:return-is-unwrapped-other-values-pass-through", z3.And(
                z3.Implies(KIND(v) == K_RETURN, r == RETVAL(v)),
                z3.Implies(z3.And(KIND(v) != K_RETURN), r == v), KIND(v) != K_BREAK, KIND(v) != K_CONTINUE))
        elif not errs_ok(it, o):
            it.check("raises:stray-break/continue-is-a-language-error", z3.And(o.exc_class == "CklRuntimeError",
                                                                                z3.Or(KIND(v) == K_BREAK, KIND(v) == K_CONTINUE)))
    U.append(Unit("functions.py::FuncLambda.execute", s_lambda, p_lambda, name="functions.py::FuncLambda.execute[result]",
                  prepare=K.install, replay=replay_prog))

    # ================================================================== break / continue / return nodes
    for ncls, kcls in (("NodeBreak", "ValueControlBreak"), ("NodeContinue", "ValueControlContinue")):
        U.append(Unit(f"nodes.py::{ncls}.evaluate", lambda it, ncls=ncls: ([mk(ncls), env_obj(it)], {}, {}),
                      lambda it, c, o, kcls=kcls: it.check("post:yields-the-control-value", o.kind == "return" and cls_name(o.value) == kcls), allowed=()))

    def s_ret(it):
        setup_common(it)
        return [mk("NodeReturn", expression=K.node("e")), env_obj(it)], {}, {}

    def p_ret(it, c, o):
        if o.kind == "return":
            it.check("post:return-value-wraps-the-evaluated-operand", cls_name(o.value) == "ValueControlReturn"
                     and val_id(o.value.fields["value"], V) is not None)
            it.check("post:payload-is-the-operand-value", val_id(o.value.fields["value"], V) == VAL(z3.IntVal(0)))
        else:
            it.check("raises:child-error-unchanged", errs_ok(it, o))
    U.append(Unit("nodes.py::NodeReturn.evaluate", s_ret, p_ret, prepare=K.install))

    # ================================================================== comprehension == loop: same enumeration, filter by condition
    # the equivalent explicit loop is  for x in c do if cond then append(result, value) end : per element the condition is
    # evaluated first and the value expression only when the condition is TRUE
    def s_comp(with_cond):
        def setup(it):
            setup_common(it)
            items = PList(sym=z3.Const("items", SEQ), kind="value")
            items.fresh = False
            coll = V._mk("ValueList", {"value": items}, "coll")
            it.ghost[SEEN] = EMPTY

            def bound(env):
                ent = [e for e in env.fields["map"].entries if e[0] == "x"]
                return val_id(ent[0][1], V) if ent else z3.IntVal(-99)

            def on_first(it_, node, env, p):
                # the first evaluation per element (condition if there is one, else the value expression) records the element
                it_.ghost[SEEN] = z3.Concat(it_.ghost[SEEN], z3.Unit(bound(env)))

            def on_val(it_, node, env, p):
                it_.ghost["val_saw"] = bound(env)
                if not with_cond:
                    on_first(it_, node, env, p)
            valn = K.node("val", on_eval=on_val)
            node = mk("NodeListComprehension", valueExpr=valn, identifier="x", listExpr=mk("NodeLiteral", value=coll), what=None,
                      conditionExpr=K.node("cnd", on_eval=on_first) if with_cond else None)
            return [node, env_obj(it, {})], {}, {"items": items.sym}
        return setup

    def res_seq(it, st):
        R = st["result"].fields["value"]
        return R.sym if R.is_sym() else it.list_seq(R, "value")

    def comp_inv(with_cond):
        def inv(st):
            it = st.interp
            L = z3.Const("items", SEQ)
            k = zi(st.k)
            q = z3.Int("qi")
            Rs = res_seq(it, st)
            p = z3.Length(trace(it))
            out = [k >= 0, it.ghost[SEEN] == z3.SubSeq(L, 0, k), z3.Length(Rs) <= k,
                   z3.ForAll([q], z3.Implies(z3.And(q >= 0, q < p), z3.Not(ERR(q))))]
            if not with_cond:
                out += [p == k, z3.Length(Rs) == k, z3.ForAll([q], z3.Implies(z3.And(q >= 0, q < k), Rs[q] == VAL(q)))]
            else:
                out += [p >= k, p <= 2 * k]
            return out
        return inv

    def comp_start(st):
        it = st.interp
        it.ghost["p0"] = z3.Length(trace(it))
        it.ghost["R0"] = res_seq(it, st)
        it.ghost["tr0"] = trace(it)
        it.ghost.pop("val_saw", None)

    def comp_end(st):
        it = st.interp
        L = z3.Const("items", SEQ)
        k = zi(st.k) - 1
        p0, R0, tr0 = it.ghost["p0"], it.ghost["R0"], it.ghost["tr0"]
        tr, Rs = trace(it), res_seq(it, st)
        cnd, val = z3.Int("cnd"), z3.Int("val")
        skipped = z3.And(tr == z3.Concat(tr0, z3.Unit(cnd)), KIND(VAL(p0)) == K_FALSE, Rs == R0)
        taken = z3.And(tr == z3.Concat(tr0, z3.Unit(cnd), z3.Unit(val)), KIND(VAL(p0)) == K_TRUE, Rs == z3.Concat(R0, z3.Unit(VAL(p0 + 1))))
        it.check("step:the-condition-is-evaluated-first-and-the-value-expression-only-when-it-is-TRUE (then exactly that value is appended)",
                 z3.Or(skipped, taken))
        if it.ghost.get("val_saw") is not None:
            it.check("step:the-value-expression-sees-the-same-element-as-the-condition", it.ghost["val_saw"] == L[k])

    def p_comp(with_cond):
        def post(it, c, o):
            L = c["items"]
            n = z3.Length(L)
            p = z3.Length(trace(it))
            q = z3.Int("qp")
            if o.kind == "return":
                it.check("post:returns-a-new-list", cls_name(o.value) == "ValueList")
                it.check("post:visits-exactly-the-elements-of-the-collection-in-loop-order", it.ghost[SEEN] == L)
                R = o.value.fields["value"]
                Rs = R.sym if R.is_sym() else it.list_seq(R, "value")
                if not with_cond:
                    it.check("post:one-result-per-element-in-order", z3.And(z3.Length(Rs) == n, p == n,
                                                                            z3.ForAll([q], z3.Implies(z3.And(q >= 0, q < n), Rs[q] == VAL(q)))))
                else:
                    it.check("post:at-most-one-result-per-element", z3.And(z3.Length(Rs) <= n, p <= 2 * n))
            elif not errs_ok(it, o):
                it.check("raises:non-boolean-condition-is-a-language-error", z3.And(with_cond, o.exc_class == "CklRuntimeError"))
        return post
    for wc in (False, True):
        U.append(Unit("nodes.py::NodeListComprehension.evaluate", s_comp(wc), p_comp(wc),
                      name=f"nodes.py::NodeListComprehension.evaluate[list{', if' if wc else ''}]",
                      loops={0: Loop(comp_inv(wc), modifies=["ghost:trace", "ghost:" + SEEN, "result.value:value"], lemmas=for_lemmas,
                                     at_start=comp_start if wc else None, at_end=comp_end if wc else None)},
                      prepare=K.install, replay=replay_prog))

    # ---- product comprehension == two nested loops: the second collection is evaluated once per element of the first, with the
    #      first variable bound (so it may depend on it), and the value expression once per pair, in nested-loop order
    #      (symbolic-bounded: 2 elements in the first collection, 0..2 in each second one; the elements are arbitrary values)
    from .common import Stubs as _Stubs
    S_ = _Stubs(w)

    def s_prod(cls_):
        def setup(it):
            setup_common(it)
            e = [V.int(it, f"e{i}") for i in range(2)]
            log = it.ghost["plog"] = []

            def bound(env, name):
                cur = env
                while isinstance(cur, Obj):
                    for k_, v_ in cur.fields["map"].entries:
                        if k_ == name:
                            return v_
                    cur = cur.fields.get("parent")
                return None

            def second(it_, env):
                x = bound(env, "x")
                n2 = it_.path.choose(3)
                ys = [V.int(it_, it_.fresh("y").replace("~", "_")) for _ in range(n2)]
                log.append(("second", x, tuple(ys)))
                return V.list_of(it_, ys, "second")

            def value(it_, env):
                x, y = bound(env, "x"), bound(env, "y")
                r = V.int(it_, it_.fresh("r").replace("~", "_"))
                log.append(("value", x, y, r))
                return r
            node = mk(cls_, valueExpr=S_.node("val", value), identifier1="x", listExpr1=S_.node("first", V.list_of(it, e, "first")), what1=None,
                      identifier2="y", listExpr2=S_.node("l2", second), what2=None, conditionExpr=None)
            return [node, env_obj(it, {})], {}, {"e": e, "log": log}
        return setup

    def p_prod(cls_):
        def post(it, c, o):
            log, e = c["log"], c["e"]
            it.check("post:returns", o.kind == "return")
            want, results = [], []
            seconds = [l for l in log if l[0] == "second"]
            it.check("post:the-second-collection-is-evaluated-once-per-element-of-the-first-with-that-element-bound",
                     len(seconds) == 2 and seconds[0][1] is e[0] and seconds[1][1] is e[1])
            if len(seconds) == 2:
                for (_, x, ys) in seconds:
                    want += [(x, y) for y in ys]
                got = [(l[1], l[2]) for l in log if l[0] == "value"]
                it.check("post:the-value-expression-is-evaluated-once-per-pair-in-nested-loop-order", len(got) == len(want) and all(a is c_ and b is d for (a, b), (c_, d) in zip(got, want)))
                if o.kind == "return" and cls_ == "NodeListComprehensionProduct":
                    items = o.value.fields["value"].items
                    rs = [l[3] for l in log if l[0] == "value"]
                    it.check("post:the-result-holds-exactly-those-values-in-that-order", items is not None and len(items) == len(rs) and all(a is b for a, b in zip(items, rs)))
        return post
    for cls_ in ("NodeListComprehensionProduct", "NodeSetComprehensionProduct"):
        U.append(Unit(f"nodes.py::{cls_}.evaluate", s_prod(cls_), p_prod(cls_), name=f"nodes.py::{cls_}.evaluate[nested-loop order, dependent second collection]",
                      bounded="2 elements in the first collection, 0..2 in each second one", prepare=K.install, replay=replay_prog))

    # getCollectionValue uses the same enumeration as NodeFor for lists and sets (wiring)
    def s_gcv(kind):
        def setup(it):
            marker = {}
            if kind == "list":
                coll = V.list_sym(it, "l")
            else:
                coll = V.set_sym(it, "s")

                def hook(it_, its, src, n):
                    marker["src"] = src
                    marker["out"] = PList(sym=z3.Const("sortedset", SEQ), kind="elem")
                    return marker["out"]
                w.hooks["sorted"] = hook
            return [coll, None], {}, {"coll": coll, "marker": marker}
        return setup

    def p_gcv(kind):
        def post(it, c, o):
            if kind == "list":
                it.check("post:list-enumerated-as-stored(index order)", o.kind == "return" and o.value is c["coll"].fields["value"])
            else:
                it.check("post:set-enumerated-through-sorted(host set)", o.kind == "return" and o.value is c["marker"].get("out")
                         and c["marker"].get("src") is c["coll"].fields["value"])
        return post
    for kind in ("list", "set"):
        U.append(Unit("nodes.py::getCollectionValue", s_gcv(kind), p_gcv(kind), name=f"nodes.py::getCollectionValue[{kind}]", allowed=()))
    return U


# ----------------------------------------------------------------------------- bounded program enumeration (real interpreter)

def _interp():
    import importlib
    import sys
    import os
    root = os.path.join(os.environ.get("VERIF_REPO", "/repo"), "src")
    if root not in sys.path:
        sys.path.insert(0, root)
    for m in [k for k in sys.modules if k == "ckl" or k.startswith("ckl.")]:
        del sys.modules[m]
    return importlib.import_module("ckl.interpreter"), importlib.import_module("ckl.errors")


def programs(tier):
    """(source, expected rendering) pairs: loops with exit statements at every statement position, every iterable kind,
    every comprehension form against its explicit loop."""
    out = []
    # (the default form over maps/objects is deliberately not compared: the loop defaults to values, the comprehension to
    #  entries/keys - the property lists the explicit keys/values/entries forms)
    colls = {"[3, 1, 2]": "[3, 1, 2]", "<<3, 1, 2>>": "[1, 2, 3]", "'cab'": "['c', 'a', 'b']", "[]": "[]", "<<>>": "[]", "''": "[]"}
    for c, exp in colls.items():
        out.append((f"def r = []; for x in {c} do append(r, x) end; r", exp))
        out.append((f"[x for x in {c}]", exp))
    m = "<<<2 => 'x', 1 => 'y'>>>"
    out += [(f"def r = []; for v in values {m} do append(r, v) end; r", "['y', 'x']"), (f"[v for v in values {m}]", "['y', 'x']"),
            (f"def r = []; for k in keys {m} do append(r, k) end; r", "[1, 2]"), (f"[k for k in keys {m}]", "[1, 2]"),
            (f"def r = []; for e in entries {m} do append(r, e) end; r", "[[1, 'y'], [2, 'x']]"), (f"[e for e in entries {m}]", "[[1, 'y'], [2, 'x']]"),
            (f"def r = []; for [k, v] in entries {m} do append(r, k + v) end; r", "['1y', '2x']"),
            (f"<<k for k in keys {m}>>", "<<1, 2>>"), (f"<<<k => v for [k, v] in entries {m}>>>" if False else f"<<<e[0] => e[1] for e in entries {m}>>>", "<<<1 => 'y', 2 => 'x'>>>"),
            ("[x * y for x in [1, 2] for y in [10, 20]]", "[10, 20, 20, 40]"), ("[[x, y] for x in [1, 2] also for y in [10, 20]]", "[[1, 10], [2, 20]]"),
            ("[[x, y] for x in [1, 2, 3] also for y in [10]]", "[[1, 10], [2, NULL], [3, NULL]]"),
            ("[x for x in [1, 2, 3, 4] if x % 2 == 0]", "[2, 4]"), ("<<x % 2 for x in [1, 2, 3]>>", "<<0, 1>>"),
            ("def r = []; for x in [1, 2] do for y in [10, 20] do append(r, x * y) end end; r", "[10, 20, 20, 40]")]
    # every comprehension form == its explicit loop also in what it evaluates: the condition first, the value expression only
    # for elements whose condition is TRUE (observable by side effects and by errors of the value expression)
    pre = "def t = []; def c(x) do append(t, 'c' + string(x)); x != 0 end; def v(x) do append(t, 'v' + string(x)); 6 / x end; "
    tr = "['c1', 'v1', 'c0', 'c2', 'v2']"
    out += [(pre + "[[v(x) for x in [1, 0, 2] if c(x)], t]", f"[[6, 3], {tr}]"),
            (pre + "def r = []; for x in [1, 0, 2] do if c(x) then append(r, v(x)) end; [r, t]", f"[[6, 3], {tr}]"),
            (pre + "[<<v(x) for x in [1, 0, 2] if c(x)>>, t]", f"[<<3, 6>>, {tr}]"),
            (pre + "[<<<x => v(x) for x in [1, 0, 2] if c(x)>>>, t]", f"[<<<1 => 6, 2 => 3>>>, {tr}]"),
            (pre + "[[v(x) + y for x in [1, 0, 2] also for y in [10, 20, 30] if c(x)], t]", f"[[16, 33], {tr}]"),
            (pre + "[[v(x) + y for x in [1, 0] for y in [10, 20] if c(x)], t]", "[[16, 26], ['c1', 'v1', 'c1', 'v1', 'c0', 'c0']]"),
            (pre + "[<<v(x) + y for x in [1, 0] for y in [10, 20] if c(x)>>, t]", "[<<16, 26>>, ['c1', 'v1', 'c1', 'v1', 'c0', 'c0']]"),
            (pre + "[<<v(x) + y for x in [1, 0, 2] also for y in [10, 20, 30] if c(x)>>, t]", f"[<<16, 33>>, {tr}]"),
            # the product form is two nested loops: the second list is evaluated per element of the first and may refer to it
            ("[x * y for x in [1, 2] for y in [x, 10]]", "[1, 10, 4, 20]"), ("def r = []; for x in [1, 2] do for y in [x, 10] do append(r, x * y) end end; r", "[1, 10, 4, 20]"),
            ("<<x * y for x in [1, 2] for y in [x, 10]>>", "<<1, 4, 10, 20>>"), ("[[x, y] for x in [] for y in undefined_name_q]", "[]"),
            ("def n = 0; def mk() do n += 1; [n] end; [[x, y] for x in [1, 2, 3] for y in mk()]; n", "3"),
            ("[y for x in [[1, 2], [3]] for y in x]", "[1, 2, 3]"),
            # a set or map that was iterated before and then changed in place is enumerated as it is now
            ("def s = <<1, 2, 3>>; def r = []; for e in s do append(r, e) end; remove(s, 2); append(s, 5); [[e for e in s], r, string(s)]", "[[1, 3, 5], [1, 2, 3], '<<1, 3, 5>>']"),
            ("def s = <<3, 1>>; [e for e in s]; append(s, 2); remove(s, 3); append(s, 0); def r = []; for e in s do append(r, e) end; r", "[0, 1, 2]"),
            ("def m = <<<2 => 'b', 1 => 'a'>>>; [k for k in keys m]; remove(m, 2); m[0] = 'z'; [[k for k in keys m], [v for v in values m]]", "[[0, 1], ['z', 'a']]"),
            ("[1 / x for x in [1, 0, 2] if x != 0]", "[1, 0]"), ("<<1 / x for x in <<0, 1>> if x != 0>>", "<<1>>"),
            ("<<<x => 1 / x for x in [0, 1] if x != 0>>>", "<<<1 => 1>>>"),
            ("do [1 / x for x in [1, 0, 2] if x >= 0] catch all 'err' end", "'err'")]
    # exits at every statement position of a 3-statement body in nested loops
    for exit_stmt in ("break", "continue", "return 99"):
        for pos in range(3):
            body = ["append(r, i * 10 + j)", "append(r, -1)", "append(r, -2)"]
            body.insert(pos, f"if j == 1 then {exit_stmt}")
            src = "def r = []; def f() do for i in [0, 1] do for j in [0, 1, 2] do " + "; ".join(body) + " end; append(r, 100 + i) end; 7 end; [f(), r]"
            # python oracle
            r, res = [], 7
            done = False
            for i in (0, 1):
                if done:
                    break
                for j in (0, 1, 2):
                    stmts = list(body)
                    stop = None
                    for s_ in stmts:
                        if s_.startswith("if j == 1"):
                            if j == 1:
                                stop = exit_stmt
                                break
                        elif "i * 10" in s_:
                            r.append(i * 10 + j)
                        elif "-1" in s_:
                            r.append(-1)
                        else:
                            r.append(-2)
                    if stop == "break":
                        break
                    if stop == "return 99":
                        res, done = 99, True
                        break
                if not done:
                    r.append(100 + i)
            out.append((src, f"[{res}, [{', '.join(map(str, r))}]]"))
    # every exit kind at every element position of every iterable kind, followed by statements after the loop
    iterables = [("[10, 20, 30]", ["10", "20", "30"]), ("<<30, 10, 20>>", ["10", "20", "30"]), ("'abc'", ["'a'", "'b'", "'c'"]),
                 ("<<<2 => 'y', 1 => 'x', 3 => 'z'>>>", ["'x'", "'y'", "'z'"]), ("keys <<<2 => 'y', 1 => 'x', 3 => 'z'>>>", ["1", "2", "3"]),
                 ("values <<<2 => 'y', 1 => 'x', 3 => 'z'>>>", ["'x'", "'y'", "'z'"]),
                 ("entries <<<2 => 'y', 1 => 'x', 3 => 'z'>>>", ["[1, 'x']", "[2, 'y']", "[3, 'z']"]),
                 ("keys <*a = 1, b = 2, c = 3*>", ["'a'", "'b'", "'c'"]), ("values <*a = 1, b = 2, c = 3*>", ["1", "2", "3"]), ("<*a = 1, b = 2, c = 3*>", ["1", "2", "3"])]
    for coll, elems in iterables:
        for exit_stmt in ("break", "continue", "return 99"):
            for pos in range(len(elems)):
                src = (f"def r = []; def f() do for outer in [1, 2] do for x in {coll} do append(r, x); if x == {elems[pos]} then {exit_stmt}; append(r, 'after-if') end; "
                       f"append(r, 'after-loop') end; 7 end; [f(), r]")
                r, res, done = [], "7", False
                for _outer in (1, 2):
                    for i, e in enumerate(elems):
                        r.append(e)
                        if i == pos:
                            if exit_stmt == "break":
                                break
                            if exit_stmt == "continue":
                                continue
                            res, done = "99", True
                            break
                        r.append("'after-if'")
                    if done:
                        break
                    r.append("'after-loop'")
                out.append((src, f"[{res}, [{', '.join(r)}]]"))
    # while: continue/break in the iteration that makes the condition false; the condition is re-tested before every iteration
    for limit in range(0, 6):
        for exit_stmt in ("break", "continue"):
            src = (f"def seen = []; def tests = 0; def i = 0; while (do tests += 1; i < {limit} end) do i += 1; if i % 2 == 1 then {exit_stmt}; append(seen, i) end; [seen, tests, i]")
            seen, tests, i = [], 0, 0
            while True:
                tests += 1
                if not i < limit:
                    break
                i += 1
                if i % 2 == 1:
                    if exit_stmt == "break":
                        break
                    continue
                seen.append(i)
            out.append((src, f"[[{', '.join(map(str, seen))}], {tests}, {i}]"))
    out += [("def n = 0; while n < 5 do n += 1; if n == 3 then break end; n", "3"),
            ("def n = 0; def c = 0; while n < 5 do n += 1; if n % 2 == 0 then continue; c += 1 end; [n, c]", "[5, 3]"),
            ("def t = 0; while (do t += 1; t < 4 end) do 0 end; t", "4"),
            ("if FALSE then 1 elif TRUE then 2 elif TRUE then 3 else 4", "2"), ("if FALSE then 1", "TRUE"),
            ("def c = 0; def t() do c += 1; TRUE end; if t() then 1 elif t() then 2; c", "1"),
            ("def f() do for x in [1, 2, 3] do if x == 2 then return x end; 0 end; f()", "2"),
            ("def f() do def g() do return 1 end; g(); 2 end; f()", "2"),
            ("def f() do break end; do f() catch all 'err' end", "'err'"), ("do continue catch all 'err' end" if False else "def g() do continue end; do g() catch all 'err' end", "'err'")]
    return out


def bounded(tier, seed):
    import time
    t0 = time.time()
    interp, errors = _interp()
    fails, ev = [], 0
    for src, exp in programs(tier):
        ev += 1
        try:
            obs = str(interp.Interpreter(True, True).interpret(src, "-"))
        except Exception as e:
            obs = repr(e)
        if obs != exp:
            fails.append({"id": "bounded:control-flow-program", "input": src, "observed": obs, "expected": exp})
    return [BoundedResult("control-flow programs on the real interpreter (every iterable kind, every comprehension form vs. its loop, exits at every statement position)",
                          f"{ev} programs", ev, ev, fails[:3], [{"src": "[v for v in values <<<2 => 'x', 1 => 'y'>>>]"}],
                          "covers the for/comprehension branches that are outside the proof part", time.time() - t0)]


def replay_prog(fail):
    for b in bounded("quick", 0):
        if b.failures:
            f = dict(b.failures[0])
            f["reproduced"] = True
            return f
    return {"reproduced": False}
