#!/bin/sh
# runs every built check (quick tier by default) and prints one line each
cd "$(dirname "$0")/.."
for p in $(python3 -c "import json;print(' '.join(c['property_id'] for c in json.load(open('MANIFEST.json'))['checks']))"); do
  ./check $p --tier ${1:-quick} 2>&1 | grep -E "tier=|VIOLATION|UNDECIDED|CRASH|VACUITY|KNOWN" | cut -c1-260 | head -14
done
