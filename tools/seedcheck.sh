#!/bin/bash
# usage: tools/seedcheck.sh <seed-dir> <Cxx> [checks...]
#   validates a seeded change (patch.diff + demo.py in <seed-dir>) on a scratch copy of /repo HEAD (+ working tree) and
#   runs the given checks (default: Cxx) against the changed copy.  The scratch copy lives under /var/tmp and is removed.
S="$(cd "$1" && pwd)"; P="$2"; shift 2
[ -f "$S/patch.diff" ] || { echo "no patch in $S"; exit 9; }
D=$(mktemp -d /var/tmp/seedchk.XXXXXX)
trap 'cd /; rm -rf "$D"' EXIT
(cd /repo && git ls-files -z | xargs -0 tar -c) | tar -x -C "$D"
mkdir -p "$D/_seed"; cp "$S"/* "$D/_seed/"
cd "$D"
PYTHONPATH=src timeout 600 /venv/bin/python _seed/demo.py > clean.out 2>&1; C=$?
git init -q . 2>/dev/null
if ! git apply --check "$S/patch.diff" 2>/dev/null; then
  if ! patch -p1 --dry-run < "$S/patch.diff" >/dev/null 2>&1; then echo "$S: PATCH DOES NOT APPLY to the current tree"; exit 8; fi
  patch -p1 -s < "$S/patch.diff"
else
  git apply "$S/patch.diff"
fi
# the repository is installed in /venv in editable mode (pointing at /repo/src): the copy must come first on the path
T=$(PYTHONPATH="$D/src" /venv/bin/python -m pytest -q -p no:cacheprovider 2>&1 | tail -1)
PYTHONPATH=src timeout 600 /venv/bin/python _seed/demo.py > mut.out 2>&1; M=$?
echo "$S: demo clean exit=$C, demo changed exit=$M, tests: $T"
for c in ${@:-$P}; do
  VERIF_REPO="$D" /verif/check $c --no-evidence 2>&1 | grep -E "^VIOLATION|tier=|CRASH|VACUITY|UNDECIDED|failed obligation" | sed "s/^/   [$c] /" | cut -c1-260
done
