#!/bin/sh
# usage: tools/mutcheck.sh <prop> <file-relative-to-src/ckl> <sed-expression>   (scratch copy under /var/tmp, removed afterwards)
P="$1"; F="$2"; E="$3"
D=$(mktemp -d /var/tmp/mut.XXXXXX)
cp -r "${VERIF_REPO:-/repo}/src" "$D/src"
sed -i "$E" "$D/src/ckl/$F"
if cmp -s "$D/src/ckl/$F" "${VERIF_REPO:-/repo}/src/ckl/$F"; then echo "MUTATION DID NOT APPLY"; rm -rf "$D"; exit 9; fi
VERIF_REPO="$D" "$(dirname "$0")/../check" "$P" --no-evidence 2>&1 | grep -E "VIOLATION|UNDECIDED|tier=|CRASH|VACUITY" | cut -c1-250 | head -8
rm -rf "$D"
