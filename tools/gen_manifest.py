#!/usr/bin/env python3
"""Regenerates MANIFEST.json from the per-property metadata in contracts/*.py (MANIFEST_ENTRY dicts)."""
import importlib, json, os, sys
HERE = os.path.dirname(os.path.dirname(os.path.abspath(__file__)))
sys.path.insert(0, HERE)
props = [json.loads(l) for l in open(os.path.join(HERE, "properties.jsonl"))]
NA = json.load(open(os.path.join(HERE, "tools", "not_applicable.json"))) if os.path.exists(os.path.join(HERE, "tools", "not_applicable.json")) else {}
checks, na, built = [], [], []
for p in props:
    pid = p["id"]
    path = os.path.join(HERE, "contracts", pid.lower() + ".py")
    entry = None
    if os.path.exists(path):
        src = open(path).read()
        ns = {}
        # metadata only: evaluate the MANIFEST_ENTRY literal without importing z3
        import ast
        for node in ast.parse(src).body:
            if isinstance(node, ast.Assign) and getattr(node.targets[0], "id", "") == "MANIFEST_ENTRY":
                entry = ast.literal_eval(node.value)
    if entry is None:
        na.append({"property_id": pid, "reason": NA.get(pid, "check not built yet in this session (DESIGN.md section 7 build order); will be claimed once its contracts verify")})
        continue
    built.append(pid)
    checks.append({"property_id": pid, "quick_cmd": f"./check {pid} --tier quick", "thorough_cmd": f"./check {pid} --tier thorough",
                   "evidence_file": f"/verif/evidence/{pid}.json", "replay_cmd_template": f"./check {pid} --tier quick",
                   "engine": "pyvc",
                   "level_claimed": {"category": entry["category"], "text": entry["text"], "design_ref": f"DESIGN.md section 3 ({pid})"},
                   "level_note": entry["note"], "technique": entry["technique"]})
m = {"version": 1,
     "setup_cmd": "python3-vt -c \"import sys; sys.path.insert(0, '/verif'); import z3, pyvc.world, contracts.common; contracts.common.selfcheck_specs(); print('pyvc ready, z3', z3.get_version_string())\"",
     "hooks": {"guard": "CKL_VERIF", "enable": "none needed: contracts are sidecar files under /verif/contracts; the engine re-reads /repo/src/ckl/*.py on every run (VERIF_REPO overrides the path)",
               "baseline_off_cmd": "cd /repo && /venv/bin/python -m pytest -ra -q -p no:cacheprovider --timeout=900 --continue-on-collection-errors",
               "source_commits": [], "add_only": True},
     "engines": [{"name": "pyvc", "path": "/verif/pyvc", "serves_properties": built,
                  "kind_free_text": "contract-based deductive verification: VC generator (symbolic executor over the real Python AST of /repo) + z3/cvc5; bounded runtime-contract stand-ins on the real code where stated"}],
     "checks": checks, "notes": "see DESIGN.md; fixes to /repo are the commits whose message starts with 'fix:' and are listed in known_findings.json",
     "not_applicable": na}
json.dump(m, open(os.path.join(HERE, "MANIFEST.json"), "w"), indent=1)
print("built:", built)
