#!/usr/bin/env python3
"""Prints the as-built tables of DESIGN.md section 10 from evidence/*.json and seeded/*/meta.json (so the numbers in the
document are the ones the machinery measured)."""
import json
import os
import glob
ROOT = os.path.dirname(os.path.dirname(os.path.abspath(__file__)))
man = json.load(open(os.path.join(ROOT, "MANIFEST.json")))
lev = {c["property_id"]: c for c in man["checks"]}
print("| id | level | proof units / obligations discharged | symbolic-bounded units | bounded stand-ins (evaluations) | quick wall |")
print("|----|-------|--------------------------------------|------------------------|---------------------------------|------------|")
for f in sorted(glob.glob(os.path.join(ROOT, "evidence", "C*.json"))):
    e = json.load(open(f))
    c = e["coverage"]
    fns = c.get("functions_under_contract", [])
    proved = [x for x in fns if not x.get("bounded")]
    sb = [x for x in fns if x.get("bounded")]
    bs = c.get("bounded_stand_ins", [])
    print(f"| {e['property_id']} | {e['level']} | {len(proved)} / {c['discharged']} of {c['obligations']} | {len(sb)} | {len(bs)} ({sum(b.get('evaluations', 0) for b in bs)}) | {e['wall_s']:.0f} s |")
print()
print("| seeded change | what it changes | caught by (first failing obligations) | failing input replayed |")
print("|---|---|---|---|")
for d in sorted(glob.glob(os.path.join(ROOT, "seeded", "*"))):
    m = json.load(open(os.path.join(d, "meta.json")))
    obs = "; ".join(o.replace("|", "\\|")[:110] for o in m.get("failed_obligations", [])[:2]) or "; ".join(m.get("check_result", []))[:200]
    more = m.get("failed_obligations_total", 0) - 2
    if more > 0:
        obs += f" (+{more} more)"
    print(f"| {m['id']} | {(m.get('change') or '')[:150].replace('|', '/')} | {obs} | {'yes' if m.get('with_failing_input_replayed') else 'no (obligation only)'} |")
