#!/usr/bin/env python3
"""Runs every seeded change under /verif/seeded against the check of its property (scratch copies under /var/tmp, removed)
and records the outcome in seeded/<id>/meta.json.  usage: tools/seedrun.py [ids...] [-j N]"""
import json
import os
import re
import subprocess
import sys
from concurrent.futures import ThreadPoolExecutor

ROOT = os.path.dirname(os.path.dirname(os.path.abspath(__file__)))


def run(sid):
    d = os.path.join(ROOT, "seeded", sid)
    prop = sid.split("-")[0]
    if os.path.exists(os.path.join(d, "meta.json")) and json.load(open(os.path.join(d, "meta.json"))).get("status", "").startswith("neutralised"):
        return sid, True, 0, {"skipped": "neutralised, see meta.json"}
    agent = json.load(open(os.path.join(d, "meta.agent.json")))
    p = subprocess.run([os.path.join(ROOT, "tools", "seedcheck.sh"), d, prop], capture_output=True, text=True)
    out = "\n".join(l for l in p.stdout.splitlines() if not l.startswith("WARNING"))
    m = re.search(r"demo clean exit=(\d+), demo changed exit=(\d+), tests: (.*)", out)
    viol = [l for l in out.splitlines() if "VIOLATION" in l]
    summary = [l.strip() for l in out.splitlines() if "tier=" in l]
    failed = []
    for l in out.splitlines():
        if "failed obligation:" in l:
            ob = l.split("failed obligation:", 1)[1].split(" :: ")[0].strip()
            if ob not in failed:
                failed.append(ob)
    meta = {
        "id": sid,
        "breaks_property": prop,
        "change": agent.get("summary"),
        "needs_to_manifest": agent.get("needs_to_manifest"),
        "files": agent.get("files"),
        "origin": "written by a fresh sub-agent that saw only the property text and a scratch worktree of /repo; never committed to /repo",
        "validated": {
            "demo_passes_on_unchanged_tree": bool(m and m.group(1) == "0"),
            "demo_fails_with_change": bool(m and m.group(2) != "0"),
            "repository_tests_with_change": m.group(3) if m else out[-200:],
        },
        "what_was_run": f"tools/seedcheck.sh seeded/{sid} {prop}  (scratch copy of /repo's tracked files + patch.diff; demo.py before/after; pytest; ./check {prop} with VERIF_REPO=<copy>)",
        "check_result": summary,
        "failed_obligations": failed[:6],
        "failed_obligations_total": len(failed),
        "violation_lines": len(viol),
        "with_failing_input_replayed": sum(1 for l in viol if "no-failing-input-found" not in l),
        "caught": bool(viol),
    }
    if os.path.exists(os.path.join(d, "patch.orig.diff")):
        meta["patch_note"] = ("patch.diff is the sub-agent's change re-expressed against the current tree (later repository fixes touched the same "
                              "lines); patch.orig.diff is the change as delivered")
    if os.path.exists(os.path.join(d, "demo.orig.py")):
        meta["demo_note"] = "demo.py locates a line of a bundled module by its text; the text was updated after a repository fix changed that line (demo.orig.py: as delivered)"
    json.dump(meta, open(os.path.join(d, "meta.json"), "w"), indent=1)
    return sid, meta["caught"], meta["with_failing_input_replayed"], meta["validated"]


if __name__ == "__main__":
    args = [a for a in sys.argv[1:] if not a.startswith("-")]
    j = 3
    if "-j" in sys.argv:
        j = int(sys.argv[sys.argv.index("-j") + 1])
        args = [a for a in args if a != str(j)]
    ids = args or sorted(os.listdir(os.path.join(ROOT, "seeded")))
    with ThreadPoolExecutor(j) as ex:
        for sid, caught, rep, val in ex.map(run, ids):
            print(f"{sid}: caught={caught} replayed-input={rep} valid={all(bool(v) for v in val.values())}", flush=True)
