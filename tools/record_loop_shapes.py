#!/usr/bin/env python3
"""Records, for every function of /repo/src/ckl that some contract puts loop contracts on, the sequence of its loops
(kind in source order).  Loop contracts are keyed by ordinal; when a function's loop structure no longer matches the
recorded one the unit is reported as undecided (contract does not fit the code any more) instead of letting invariants
meant for one loop fail on another.  Run after writing or changing loop contracts:  python3-vt tools/record_loop_shapes.py"""
import ast
import glob
import json
import os
ROOT = os.path.dirname(os.path.dirname(os.path.abspath(__file__)))
REPO = os.environ.get("VERIF_REPO", "/repo")
out = {}
for f in sorted(glob.glob(os.path.join(REPO, "src", "ckl", "*.py"))):
    tree = ast.parse(open(f).read())

    def visit(node, prefix):
        for c in ast.iter_child_nodes(node):
            if isinstance(c, ast.ClassDef):
                visit(c, prefix + c.name + ".")
            elif isinstance(c, ast.FunctionDef):
                loops = []

                def walk(n):
                    for ch in ast.iter_child_nodes(n):
                        if isinstance(ch, (ast.For, ast.While)):
                            head = ast.unparse(ch.test) if isinstance(ch, ast.While) else ast.unparse(ch.target) + " in " + ast.unparse(ch.iter)
                            loops.append([type(ch).__name__, head])
                        if not isinstance(ch, (ast.FunctionDef, ast.Lambda, ast.ClassDef)):
                            walk(ch)
                walk(c)
                if loops:
                    out[os.path.basename(f) + "::" + prefix + c.name] = loops
    visit(tree, "")
json.dump(out, open(os.path.join(ROOT, "contracts", "loop_shapes.json"), "w"), indent=0, sort_keys=True)
print(len(out), "functions with loops recorded")
