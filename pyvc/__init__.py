"""pyvc - verification-condition generator over the real Python source of /repo.

The engine re-reads $VERIF_REPO/src/ckl/*.py with `ast` on every run, symbolically
executes the functions placed under contract and discharges every obligation with z3.
"""
