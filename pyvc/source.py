"""Loading of the real source of the repository (no copy, no translation)."""
import ast
import hashlib
import os


def repo_root():
    return os.environ.get("VERIF_REPO", "/repo")


class SourceModule:
    def __init__(self, name, path):
        self.name = name
        self.path = path
        with open(path, encoding="utf-8") as f:
            self.text = f.read()
        self.tree = ast.parse(self.text, filename=path)
        self.functions = {}
        self.classes = {}
        for node in self.tree.body:
            if isinstance(node, ast.FunctionDef):
                self.functions[node.name] = node
            elif isinstance(node, ast.ClassDef):
                self.classes[node.name] = node


class Repo:
    """All python modules of the package `ckl`, parsed from the working tree."""

    def __init__(self, root=None):
        self.root = root or repo_root()
        self.pkgdir = os.path.join(self.root, "src", "ckl")
        self.modules = {}
        for fn in sorted(os.listdir(self.pkgdir)):
            if fn.endswith(".py") and fn != "__init__.py":
                name = "ckl." + fn[:-3]
                self.modules[name] = SourceModule(name, os.path.join(self.pkgdir, fn))

    def module(self, short):
        if short.endswith(".py"):
            short = short[:-3]
        if not short.startswith("ckl."):
            short = "ckl." + short
        return self.modules[short]

    def find(self, target):
        """target: 'file.py::Class.method' or 'file.py::function' -> (module, classdef|None, funcdef)"""
        file, _, qual = target.partition("::")
        mod = self.module(file)
        if "." in qual:
            cname, mname = qual.split(".", 1)
            cls = mod.classes.get(cname)
            if cls is None:
                raise KeyError(target)
            for node in cls.body:
                if isinstance(node, ast.FunctionDef) and node.name == mname:
                    return mod, cls, node
            raise KeyError(target)
        if qual not in mod.functions:
            raise KeyError(target)
        return mod, None, mod.functions[qual]

    def exists(self, target):
        try:
            self.find(target)
            return True
        except KeyError:
            return False

    def sha(self, target):
        _, _, fn = self.find(target)
        return hashlib.sha256(ast.unparse(fn).encode()).hexdigest()

    def module_text(self, relpath):
        """text of a non-python resource, e.g. modules/list.ckl"""
        with open(os.path.join(self.pkgdir, relpath), encoding="utf-8") as f:
            return f.read()


def anchor(node, limit=70):
    """Stable anchor of a statement/expression: its unparsed text (no line numbers)."""
    try:
        text = ast.unparse(node)
    except Exception:  # pragma: no cover
        text = type(node).__name__
    text = " ".join(text.split())
    if len(text) > limit:
        text = text[:limit] + "..."
    return text
