"""Symbolic value model of the engine (see DESIGN.md section 2.4)."""
import itertools
import z3

_counter = itertools.count()


class Sym:
    __slots__ = ("z",)

    def __init__(self, z):
        self.z = z

    def __repr__(self):
        return f"{type(self).__name__}({self.z})"


class SInt(Sym):
    __slots__ = ()


class SBool(Sym):
    __slots__ = ()


class SFloat(Sym):
    """An inexact real (IEEE double idealised as rnd(real), DESIGN 2.4).
    `intz` is a z3 Int term when the value is known to be that integer exactly."""
    __slots__ = ("intz",)

    def __init__(self, z, intz=None):
        self.z = z
        self.intz = intz


class SStr(Sym):
    """z3 String; `code` is set when the string is known to be one character (code point term)."""
    __slots__ = ("code", "opaque", "digits_only")

    def __init__(self, z, code=None, opaque=False):
        self.z = z
        self.code = code
        self.opaque = opaque      # text the engine deliberately knows nothing about (rendered values, messages)
        self.digits_only = False  # known to consist of decimal digits (a numeral made by a host formatting function)


class SElem(Sym):
    """Opaque element (abstract object identified by an integer id term)."""
    __slots__ = ("sort",)

    def __init__(self, z, sort="elem"):
        self.z = z
        self.sort = sort


class SChar(SStr):
    __slots__ = ()

    def __init__(self, code):
        SStr.__init__(self, z3.StrFromCode(code), code)


# --------------------------------------------------------------------------- heap objects

class HeapObj:
    pass


class Obj(HeapObj):
    def __init__(self, cls, fields=None, label=None):
        self.cls = cls
        self.fields = fields if fields is not None else {}
        self.label = label
        self.fresh = True     # allocated during the call (False for inputs / globals)
        self.uid = next(_counter)

    def __repr__(self):
        return f"<{self.cls.name if self.cls else '?'}#{self.label or self.uid}>"


class PList(HeapObj):
    """Host list. Either concrete spine (items) or symbolic z3 Seq (sym, with elem kind)."""

    def __init__(self, items=None, sym=None, kind="elem", label=None):
        self.items = items if sym is None else None
        if sym is None and items is None:
            self.items = []
        self.sym = sym
        self.kind = kind      # how elements of a symbolic spine are wrapped: 'elem' | 'int' | 'str'
        self.label = label
        self.fresh = True
        self.uid = next(_counter)

    def is_sym(self):
        return self.sym is not None

    def __repr__(self):
        return f"PList({self.items if self.sym is None else self.sym})"


class PTuple(tuple):
    pass


class PDict(HeapObj):
    """Host dict, insertion ordered list of [key, value]."""

    def __init__(self, entries=None, label=None):
        self.entries = entries if entries is not None else []
        self.label = label
        self.fresh = True
        self.uid = next(_counter)
        # symbolic mode (arbitrary finite map keyed by strings / element ids)
        self.sym_dom = None
        self.sym_val = None
        self.key_kind = None

    def is_sym(self):
        return self.sym_dom is not None

    def __repr__(self):
        return f"PDict({self.entries})"


class PSet(HeapObj):
    def __init__(self, items=None, label=None):
        self.items = items if items is not None else []
        self.label = label
        self.fresh = True
        self.uid = next(_counter)
        self.sym_dom = None

    def __repr__(self):
        return f"PSet({self.items})"


class PyClass:
    def __init__(self, name, module, bases, node=None, builtin=False):
        self.name = name
        self.module = module
        self.bases = bases
        self.node = node
        self.methods = {}
        self.attrs = {}
        self.builtin = builtin
        self.total_ordering = False
        self.mro = self._mro()

    def _mro(self):
        out = [self]
        for b in self.bases:
            for c in b.mro:
                if c not in out:
                    out.append(c)
        return out

    def lookup(self, name):
        for c in self.mro:
            if name in c.methods:
                return c.methods[name]
            if name in c.attrs:
                return c.attrs[name]
        return None

    def defining_class(self, name):
        for c in self.mro:
            if name in c.methods or name in c.attrs:
                return c
        return None

    def issubclass(self, other):
        return other in self.mro

    def __repr__(self):
        return f"<class {self.name}>"


class PyFunc:
    def __init__(self, node, module, cls=None, kind="function"):
        self.node = node
        self.module = module
        self.cls = cls
        self.kind = kind  # function | classmethod | staticmethod
        self.name = getattr(node, "name", "<lambda>")
        self.closure = None

    @property
    def qualname(self):
        return (self.cls.name + "." if self.cls else "") + self.name

    def __repr__(self):
        return f"<func {self.qualname}>"


class BoundMethod:
    def __init__(self, func, selfobj):
        self.func = func
        self.self = selfobj

    def __repr__(self):
        return f"<bound {self.func} of {self.self}>"


class Builtin:
    def __init__(self, name, impl):
        self.name = name
        self.impl = impl

    def __repr__(self):
        return f"<builtin {self.name}>"


class ModuleRef:
    def __init__(self, name, ns=None, external=False):
        self.name = name
        self.ns = ns if ns is not None else {}
        self.external = external

    def __repr__(self):
        return f"<module {self.name}>"


class SuperProxy:
    def __init__(self, cls, obj):
        self.cls = cls
        self.obj = obj


# --------------------------------------------------------------------------- z3 helpers

def fresh_name(prefix):
    return f"{prefix}!{next(_counter)}"


def is_intlike(v):
    return isinstance(v, (int, SInt, SBool)) and not isinstance(v, float)


def is_floatlike(v):
    return isinstance(v, (float, SFloat))


def is_numlike(v):
    return is_intlike(v) or is_floatlike(v)


def is_strlike(v):
    return isinstance(v, (str, SStr))


def is_concrete(v):
    return not isinstance(v, Sym)


def zi(v):
    if isinstance(v, bool):
        return z3.IntVal(1 if v else 0)
    if isinstance(v, int):
        return z3.IntVal(v)
    if isinstance(v, SInt):
        return v.z
    if isinstance(v, SBool):
        return z3.If(v.z, z3.IntVal(1), z3.IntVal(0))
    raise TypeError(f"not an int: {v!r}")


def zr(v):
    if isinstance(v, float):
        if v != v or v in (float("inf"), float("-inf")):
            raise TypeError("nan/inf excluded")
        return _real_of_float(v)
    if isinstance(v, SFloat):
        return v.z
    return z3.ToReal(zi(v))


def _real_of_float(v):
    num, den = v.as_integer_ratio()
    return z3.RealVal(num) / z3.RealVal(den)


def zb(v):
    if isinstance(v, bool):
        return z3.BoolVal(v)
    if isinstance(v, SBool):
        return v.z
    raise TypeError(f"not a bool: {v!r}")


def zs(v):
    if isinstance(v, str):
        return z3.StringVal(v)
    if isinstance(v, SStr):
        return v.z
    raise TypeError(f"not a str: {v!r}")


def mk_int(z):
    z = z3.simplify(z)
    if z3.is_int_value(z):
        return z.as_long()
    return SInt(z)


def mk_bool(z):
    z = z3.simplify(z)
    if z3.is_true(z):
        return True
    if z3.is_false(z):
        return False
    return SBool(z)


def mk_str(z):
    z = z3.simplify(z)
    if z3.is_string_value(z):
        return z.as_string() if not _has_escape(z) else _decode(z)
    return SStr(z)


def _has_escape(z):
    return "\\u{" in z.as_string()


def _decode(z):
    import re
    s = z.as_string()
    return re.sub(r"\\u\{([0-9a-fA-F]+)\}", lambda m: chr(int(m.group(1), 16)), s)


def mk_float(z):
    z = z3.simplify(z)
    return SFloat(z)
