"""Symbolic interpreter over the real AST of the repository (DESIGN.md 2.3/2.4)."""
import ast
import z3

from .values import (
    Sym, SInt, SBool, SFloat, SStr, SElem, SChar, Obj, PList, PDict, PSet, PyClass, PyFunc,
    BoundMethod, Builtin, ModuleRef, SuperProxy, HeapObj,
    zi, zr, zb, zs, mk_int, mk_bool, mk_str, mk_float, is_intlike, is_floatlike, is_numlike, is_strlike,
    fresh_name,
)
from .path import Infeasible, PathEnd, OutOfSubset, WouldFork
from .source import anchor


class PyRaise(Exception):
    """A Python-level exception travelling through the interpreted program."""

    def __init__(self, exc):
        self.exc = exc


class _Return(Exception):
    def __init__(self, value):
        self.value = value


class _Break(Exception):
    pass


class _Continue(Exception):
    pass


class Frame:
    def __init__(self, func, module, locals_):
        self.func = func
        self.module = module
        self.locals = locals_
        self.loop_ordinals = None


class Loop:
    """Loop contract: invariant, extra havoc targets, variant."""

    def __init__(self, inv, modifies=(), decreases=None, name=None, lemmas=None, at_end=None, no_variant=False,
                 havoc_as=None, at_start=None):
        self.at_start = at_start         # ghost code at the start of the arbitrary iteration (snapshots for at_end)
        self.havoc_as = havoc_as or {}   # local name -> factory(it) for object-valued loop-carried locals
        self.inv = inv
        self.modifies = list(modifies)
        self.decreases = decreases
        self.name = name
        self.lemmas = lemmas   # instances of separately proved lemmas, assumed before inv:step
        self.at_end = at_end   # ghost code executed at the end of an iteration (before inv:step), e.g. ghost counters
        self.no_variant = no_variant   # loops that need not terminate (a user program's while loop)


class LoopState:
    def __init__(self, interp, frame, k=None, entry=None):
        self.interp = interp
        self.frame = frame
        self.k = k
        self.entry = entry or {}

    def __getitem__(self, name):
        return self.frame.locals[name]

    def get(self, name, default=None):
        return self.frame.locals.get(name, default)

    def old(self, name):
        return self.entry[name]


_MISSING = object()
RND = z3.Function("rnd", z3.RealSort(), z3.RealSort())
TWO53 = 2 ** 53


class Interp:
    def __init__(self, world, path, config=None):
        self.world = world
        self.path = path
        self.config = config or {}
        self.depth = 0
        self.max_depth = self.config.get("max_depth", 60)
        self.max_unroll = self.config.get("max_unroll", 64)
        self.loops = self.config.get("loops", {})            # qualname -> {ordinal: Loop}
        self.abstractions = self.config.get("abstractions", {})  # qualname -> handler
        self.repr_mode = self.config.get("repr_mode", "opaque")
        self.target = self.config.get("target", "?")
        self.trace = []            # ghost event trace
        self.writes = []           # heap writes to non-fresh objects (frame obligations)
        self.global_overlay = {}
        self.effects = []
        self.nfresh = 0
        self.ghost = {}

    # ------------------------------------------------------------------ fresh symbols (deterministic names per path)
    def fresh(self, prefix):
        self.nfresh += 1
        return f"{prefix}~{self.nfresh}"

    def fresh_int(self, prefix="i"):
        return SInt(z3.Int(self.fresh(prefix)))

    def fresh_bool(self, prefix="b"):
        return SBool(z3.Bool(self.fresh(prefix)))

    def fresh_str(self, prefix="s"):
        return SStr(z3.String(self.fresh(prefix)))

    def fresh_float(self, prefix="r"):
        return SFloat(z3.Real(self.fresh(prefix)))

    def fresh_elem(self, prefix="e", sort="elem"):
        return SElem(z3.Int(self.fresh(prefix)), sort)

    # ------------------------------------------------------------------ obligations
    def check(self, kind, goal, node=None, detail="", assume=True, auxiliary=False):
        name = f"{self.target}#{kind}"
        if node is not None:
            name += "@" + anchor(node)
        return self.path.prove(name, goal, detail, assume=assume, auxiliary=auxiliary)

    def assume(self, c):
        self.path.assume(c)

    def unsupported(self, what, node=None):
        where = f" at `{anchor(node)}`" if node is not None else ""
        raise OutOfSubset(f"{what}{where}")

    # ------------------------------------------------------------------ exceptions
    def make_exc(self, clsname, msg=""):
        cls = self.world.builtin_class(clsname)
        return Obj(cls, {"args": (msg,), "msg": msg})

    def throw(self, clsname, msg="", node=None):
        e = self.make_exc(clsname, msg)
        e.fields["_origin"] = anchor(node) if node is not None else ""
        raise PyRaise(e)

    def dunder_or_typeerror(self, obj, dunders, node, msg):
        """a TypeError for an operation the object's class does not support -- unless the class (in the repository) defines the
        special method that would implement it: those protocols are not dispatched by the engine (out of subset)"""
        if isinstance(obj, Obj) and obj.cls is not None:
            for d in dunders:
                if obj.cls.lookup(d) is not None:
                    self.unsupported(f"{obj.cls.name}.{d} (special-method protocol not modelled)", node)
        self.guard(False, "TypeError", node, msg)

    def guard(self, ok, clsname, node=None, msg=""):
        """Primitive precondition: when `ok` can be false the host exception `clsname` is raised on that path."""
        if isinstance(ok, bool):
            if not ok:
                self.throw(clsname, msg, node)
            return
        if isinstance(ok, SBool):
            ok = ok.z
        if not self.path.branch(ok):
            self.throw(clsname, msg, node)

    # ------------------------------------------------------------------ truthiness
    def truth(self, v):
        if isinstance(v, bool):
            return v
        if isinstance(v, SBool):
            return self.path.branch(v.z)
        if v is None:
            return False
        if isinstance(v, int):
            return v != 0
        if isinstance(v, float):
            return v != 0
        if isinstance(v, SInt):
            return self.path.branch(v.z != 0)
        if isinstance(v, SFloat):
            return self.path.branch(v.z != 0)
        if isinstance(v, str):
            return len(v) > 0
        if isinstance(v, SStr):
            return self.path.branch(z3.Length(v.z) > 0)
        if isinstance(v, tuple):
            return len(v) > 0
        if isinstance(v, PList):
            if v.is_sym():
                return self.path.branch(z3.Length(v.sym) > 0)
            return len(v.items) > 0
        if isinstance(v, PDict):
            if v.is_sym():
                self.unsupported("truthiness of symbolic dict")
            return len(v.entries) > 0
        if isinstance(v, PSet):
            return len(v.items) > 0
        if isinstance(v, Obj):
            m = v.cls.lookup("__bool__")
            if m is not None:
                return self.truth(self.call(BoundMethod(m, v), [], {}))
            m = v.cls.lookup("__len__")
            if m is not None:
                return self.truth(self.call(BoundMethod(m, v), [], {}))
            return True
        if isinstance(v, SElem):
            return True
        return True

    # ------------------------------------------------------------------ statements
    def exec_block(self, stmts, frame):
        for s in stmts:
            self.exec_stmt(s, frame)

    def exec_stmt(self, node, frame):
        m = getattr(self, "s_" + type(node).__name__, None)
        if m is None:
            self.unsupported("statement " + type(node).__name__, node)
        return m(node, frame)

    def s_Expr(self, node, frame):
        self.eval(node.value, frame)

    def s_Pass(self, node, frame):
        pass

    def s_Global(self, node, frame):
        frame.globals_decl = getattr(frame, "globals_decl", set()) | set(node.names)

    def s_Import(self, node, frame):
        for a in node.names:
            name = a.asname or a.name.split(".")[0]
            frame.locals[name] = self.world.import_module(a.name.split(".")[0] if not a.asname else a.name)

    def s_ImportFrom(self, node, frame):
        mod = self.world.import_module(node.module)
        for a in node.names:
            frame.locals[a.asname or a.name] = self.getattr(mod, a.name, node)

    def s_Return(self, node, frame):
        raise _Return(self.eval(node.value, frame) if node.value is not None else None)

    def s_Break(self, node, frame):
        raise _Break()

    def s_Continue(self, node, frame):
        raise _Continue()

    def s_Assign(self, node, frame):
        v = self.eval(node.value, frame)
        for t in node.targets:
            self.assign(t, v, frame)

    def s_AugAssign(self, node, frame):
        cur = self.eval(_load(node.target), frame)
        v = self.eval(node.value, frame)
        if isinstance(node.op, ast.Add) and isinstance(cur, PList):
            self.list_extend(cur, v, node)
            return
        self.assign(node.target, self.binop(node.op, cur, v, node), frame)

    def s_Delete(self, node, frame):
        for t in node.targets:
            if isinstance(t, ast.Subscript):
                cont = self.eval(t.value, frame)
                idx = self.eval(t.slice, frame)
                self.delitem(cont, idx, node)
            elif isinstance(t, ast.Name):
                del frame.locals[t.id]
            else:
                self.unsupported("del target", node)

    def s_If(self, node, frame):
        if self.truth(self.eval(node.test, frame)):
            self.exec_block(node.body, frame)
        else:
            self.exec_block(node.orelse, frame)

    def s_Raise(self, node, frame):
        if node.exc is None:
            cur = getattr(frame, "handling", None)
            if cur is None:
                self.throw("RuntimeError", "No active exception to reraise", node)
            raise PyRaise(cur)
        e = self.eval(node.exc, frame)
        if isinstance(e, PyClass):
            e = self.call(e, [], {}, node)
        if not isinstance(e, Obj):
            self.throw("TypeError", "exceptions must derive from BaseException", node)
        e.fields.setdefault("_origin", anchor(node))
        raise PyRaise(e)

    def s_Try(self, node, frame):
        pending = None
        try:
            try:
                self.exec_block(node.body, frame)
            except PyRaise as pr:
                handled = False
                for h in node.handlers:
                    if self.exc_matches(pr.exc, h, frame):
                        handled = True
                        if h.name:
                            frame.locals[h.name] = pr.exc
                        saved = getattr(frame, "handling", None)
                        frame.handling = pr.exc
                        try:
                            self.exec_block(h.body, frame)
                        finally:
                            frame.handling = saved
                        break
                if not handled:
                    raise
            else:
                self.exec_block(node.orelse, frame)
        except (PyRaise, _Return, _Break, _Continue) as e:
            pending = e
        # Python semantics: finally runs on every exit (engine-internal aborts propagate without it)
        self.exec_block(node.finalbody, frame)
        if pending is not None:
            raise pending

    def exc_matches(self, exc, handler, frame):
        if handler.type is None:
            return True
        t = self.eval(handler.type, frame)
        classes = list(t) if isinstance(t, tuple) else [t]
        for c in classes:
            if isinstance(c, PyClass) and exc.cls.issubclass(c):
                return True
        return False

    def s_With(self, node, frame):
        for item in node.items:
            v = self.eval(item.context_expr, frame)
            if isinstance(v, Obj) and v.cls.lookup("__exit__") is not None and not getattr(v.cls, "builtin", False):
                # a context manager written in the repository can swallow or replace exceptions: not modelled
                self.unsupported("with-statement over a user-defined context manager", node)
            if item.optional_vars is not None:
                self.assign(item.optional_vars, v, frame)
        self.exec_block(node.body, frame)

    def s_FunctionDef(self, node, frame):
        f = self.world._decorated(PyFunc(node, frame.module), node)
        f.closure = frame
        frame.locals[node.name] = f

    # ---- loops
    def loop_spec(self, node, frame):
        fn = frame.func
        if fn is None:
            return None, None
        specs = self.loops.get(fn.qualname) or self.loops.get(fn.name)
        ords = _loop_ordinals(fn.node)
        o = ords.get(id(node))
        spec = specs.get(o) if specs is not None else None
        if specs and not _check_loop_shape(fn):
            # the function no longer has the loops the contracts were written for: a contract is applied only to a loop whose
            # header is literally the recorded one (and unique); other loops are unrolled (decides loop-free rewrites and loops
            # over concrete data, is undecided otherwise)
            spec = None
            head = ast.unparse(node.test) if isinstance(node, ast.While) else ast.unparse(node.target) + " in " + ast.unparse(node.iter)
            cands = [i for i, kh in enumerate(fn._shape_recorded) if kh[1] == head and kh[0] == type(node).__name__]
            if len(cands) == 1:
                spec = specs.get(cands[0])
        self._default_spec = False
        if spec is None:
            dl = self.config.get("default_loop")
            if dl is not None:
                spec = dl(self, fn, o, node, frame)
                self._default_spec = spec is not None
        return spec, o

    def s_While(self, node, frame):
        spec, o = self.loop_spec(node, frame)
        if spec is not None:
            return self.loop_with_invariant(node, frame, spec, o)
        count = 0
        while True:
            if not self.truth(self.eval(node.test, frame)):
                self.exec_block(node.orelse, frame)
                return
            try:
                self.exec_block(node.body, frame)
            except _Break:
                return
            except _Continue:
                pass
            count += 1
            if count > self.max_unroll:
                if self.config.get("unroll_overflow_is_nontermination"):
                    # units over a small concrete heap: a deterministic walk that revisits more states than the heap has
                    # objects never ends
                    self.path.fail(f"{self.target}#termination:loop-runs-more-than-{self.max_unroll}-iterations-on-a-finite-heap@{anchor(node.test)}",
                                   detail="the loop does not terminate on this heap")
                    raise PathEnd()
                hint = getattr(frame.func, "_shape_ok", True) if frame.func is not None else True
                self.unsupported(f"while loop without invariant exceeds {self.max_unroll} iterations" + ("" if hint is True else "; " + str(hint)), node.test)

    def s_For(self, node, frame):
        spec, o = self.loop_spec(node, frame)
        is_default = self._default_spec
        it = self.eval(node.iter, frame)
        if is_default and not (isinstance(it, PList) and it.is_sym() or isinstance(it, SStr)
                               or isinstance(it, RangeVal) and not all(isinstance(x, int) for x in (it.start, it.stop, it.step))):
            spec = None      # the default loop contract is for symbolic iteration spaces; concrete ones are unrolled
        if spec is not None:
            return self.loop_with_invariant(node, frame, spec, o, it)
        items = self.iterate(it, node)
        count = 0
        for x in items:
            self.assign(node.target, x, frame)
            try:
                self.exec_block(node.body, frame)
            except _Break:
                return
            except _Continue:
                pass
            count += 1
            if count > self.max_unroll * 40:
                self.unsupported("for loop too long", node)
        self.exec_block(node.orelse, frame)

    def iterate(self, it, node=None):
        """Concrete-spine iteration. Symbolic spines need a loop contract."""
        if isinstance(it, RangeVal):
            if all(isinstance(x, int) for x in (it.start, it.stop, it.step)):
                return list(range(it.start, it.stop, it.step))
            # symbolic bounds without contract: lazily unrolled
            return self._sym_range_iter(it, node)
        if isinstance(it, PList):
            if it.is_sym():
                return self._sym_list_iter(it, node)
            return _LiveListIter(it)
        if isinstance(it, (tuple, list)):
            return list(it)
        if isinstance(it, str):
            return list(it)
        if isinstance(it, SStr):
            return self._sym_str_iter(it, node)
        if isinstance(it, PDict):
            if it.is_sym():
                self.unsupported("iteration over symbolic dict", node)
            return _GuardedIter(self, it, self.world.order(self, [k for k, _ in it.entries], it), node)
        if isinstance(it, PSet):
            return _GuardedIter(self, it, self.world.order(self, list(it.items), it), node)
        if isinstance(it, DictView):
            if it.d.is_sym():
                self.unsupported("iteration over symbolic dict", node)
            ents = self.world.order(self, list(it.d.entries), it.d)
            if it.kind == "keys":
                return _GuardedIter(self, it.d, [k for k, _ in ents], node)
            if it.kind == "values":
                return _GuardedIter(self, it.d, [v for _, v in ents], node)
            return _GuardedIter(self, it.d, [(k, v) for k, v in ents], node)
        if type(it).__name__ == "IterVal":
            return it.rest()
        if isinstance(it, GenVal):
            return it.items
        if isinstance(it, Obj):
            self.dunder_or_typeerror(it, ("__iter__", "__getitem__"), node, f"'{it.cls.name}' object is not iterable")
        if it is None or isinstance(it, (int, SInt, SBool, bool, float, SFloat)):
            self.guard(False, "TypeError", node, "object is not iterable")
        if isinstance(it, BoundMethod) or isinstance(it, (PyFunc, Builtin)):
            self.guard(False, "TypeError", node, "'method' object is not iterable")
        self.unsupported(f"iteration over {type(it).__name__}", node)

    def _sym_range_iter(self, r, node):
        if r.step != 1:
            self.unsupported("symbolic range with step", node)
        i = r.start
        n = 0
        while True:
            if not self.truth(self.compare(ast.Lt(), i, r.stop, node)):
                return
            yield i
            i = self.binop(ast.Add(), i, 1, node)
            n += 1
            if n > self.max_unroll:
                self.unsupported(f"symbolic range loop without invariant exceeds {self.max_unroll} iterations", node)

    def _sym_list_iter(self, lst, node):
        n = 0
        while True:
            if not self.path.branch(z3.Length(lst.sym) > n):
                return
            yield self.wrap_elem(lst, lst.sym[n])
            n += 1
            if n > self.max_unroll:
                self.unsupported("symbolic list loop without invariant", node)

    def _sym_str_iter(self, s, node):
        n = 0
        while True:
            if not self.path.branch(z3.Length(s.z) > n):
                return
            ch = z3.SubString(s.z, n, 1)
            yield SStr(ch, code=z3.StrToCode(ch))
            n += 1
            if n > self.max_unroll:
                self.unsupported("symbolic string loop without invariant", node)

    def wrap_elem(self, lst, z):
        ek = self.world.elem_kinds.get(lst.kind)
        if ek is not None:
            return ek[0](self, z3.simplify(z))
        if lst.kind == "int":
            return mk_int(z)
        if lst.kind == "str":
            return mk_str(z)
        return SElem(z3.simplify(z), lst.kind)

    def unwrap_elem(self, lst, v, node=None):
        ek = self.world.elem_kinds.get(lst.kind)
        if ek is not None:
            r = ek[1](self, v)
            if r is None:
                self.unsupported(f"storing {_tn(v)} into symbolic list of {lst.kind}", node)
            return r
        if lst.kind == "int" and is_intlike(v):
            return zi(v)
        if lst.kind == "str" and is_strlike(v):
            return zs(v)
        if isinstance(v, SElem):
            return v.z
        self.unsupported(f"storing {type(v).__name__} into symbolic list of {lst.kind}", node)

    # ---- loops with contracts
    def loop_with_invariant(self, node, frame, spec, ordinal, it=None):
        fn = frame.func.qualname
        lname = f"loop{ordinal}"
        is_for = isinstance(node, ast.For)
        # iteration domain for `for`
        lo = hi = None
        seq = None
        step = 1
        if is_for:
            if isinstance(it, RangeVal):
                if it.step not in (1, -1):
                    self.unsupported("range step in contracted loop", node)
                lo, hi, step = it.start, it.stop, it.step
            elif isinstance(it, PList) and it.is_sym():
                lo, hi, seq = 0, mk_int(z3.Length(it.sym)), it
            elif isinstance(it, PList):
                lo, hi, seq = 0, len(it.items), it
            elif isinstance(it, SStr):
                lo, hi, seq = 0, mk_int(z3.Length(it.z)), it
            else:
                self.unsupported("contracted for-loop over " + type(it).__name__, node)
        entry = dict(frame.locals)
        # ghost state at loop entry stays available to the invariant (it is not havocked)
        self.ghost["entry:" + lname] = {k_: v_ for k_, v_ in self.ghost.items() if not k_.startswith("entry:")}
        st0 = LoopState(self, frame, k=lo, entry=entry)
        # in a function whose loops are no longer the recorded ones a (header-matched) loop contract is scaffolding that may
        # not fit any more: its invariants failing leaves the unit undecided, only postconditions can be violated
        aux = not _check_loop_shape(frame.func)
        if not self.check(f"inv:init:{lname}", _conj(spec.inv(st0)), None, auxiliary=aux) and aux:
            self.unsupported(f"the loop contract of {fn} {lname} was written for an earlier shape of the function and does not hold on entry", node)
        # havoc
        assigned = _assigned_names(node.body) | (_target_names(node.target) if is_for else set())
        mode = self.path.choose(2)
        for name in sorted(assigned):
            if name in spec.havoc_as:
                frame.locals[name] = spec.havoc_as[name](self)
            elif name in frame.locals:
                if isinstance(frame.locals[name], Obj):
                    # an object-valued loop-carried local without a declared abstraction: unknown afterwards
                    frame.locals[name] = Obj(self.world.havoc_class(), {}, label="havoc:" + name)
                else:
                    frame.locals[name] = self.havoc_like(frame.locals[name], name)
        for pathexpr in spec.modifies:
            if pathexpr.startswith("ghost:"):
                self.havoc_ghost(pathexpr[6:])
            else:
                self.havoc_path(pathexpr, frame, node)
        k = None
        if is_for:
            k = self.fresh_int("k")
            self.assume(zi(lo) <= k.z if step == 1 else zi(lo) >= k.z)
        st = LoopState(self, frame, k=k, entry=entry)
        if mode == 0:
            # ---- one arbitrary iteration
            if is_for:
                self.assume(k.z < zi(hi) if step == 1 else k.z > zi(hi))
                self.assume(_conj(spec.inv(st)))
                if seq is None:
                    x = k
                elif isinstance(seq, SStr):
                    x = mk_str(z3.SubString(seq.z, k.z, 1))
                elif seq.is_sym():
                    x = self.wrap_elem(seq, seq.sym[k.z])
                else:
                    self.unsupported("contracted loop over concrete list", node)
                self.assign(node.target, x, frame)
                v0 = None
            else:
                self.assume(_conj(spec.inv(st)))
                if not self.truth(self.eval(node.test, frame)):
                    raise PathEnd()
                v0 = spec.decreases(st) if spec.decreases else None
            self.path.results.cover(f"{self.target}#cover:{lname}:body")
            if spec.at_start is not None:
                spec.at_start(st)
            try:
                self.exec_block(node.body, frame)
            except _Continue:
                pass
            except _Break:
                return  # leaves the loop with the state at the break
            if is_for:
                st1 = LoopState(self, frame, k=mk_int(k.z + step), entry=entry)
            else:
                st1 = LoopState(self, frame, k=None, entry=entry)
            if spec.at_end is not None:
                spec.at_end(st1)
            if spec.lemmas is not None:
                for fact in spec.lemmas(st1):
                    self.path.assume(fact, check=False)
            if not self.check(f"inv:step:{lname}", _conj(spec.inv(st1)), None, auxiliary=aux) and aux:
                self.unsupported(f"the loop contract of {fn} {lname} was written for an earlier shape of the function and is not preserved", node)
            if not is_for and not spec.no_variant:
                if spec.decreases is None:
                    self.path.fail(f"{self.target}#variant:{lname}", "no variant given")
                else:
                    v1 = spec.decreases(st1)
                    self.check(f"variant:{lname}", z3.And(zi(v0) >= 0, zi(v1) < zi(v0)), None)
            raise PathEnd()
        # ---- exit path
        if is_for:
            # k = max(lo, hi) (step 1) / min(lo, hi) (step -1)
            nonempty = zi(lo) < zi(hi) if step == 1 else zi(lo) > zi(hi)
            self.assume(k.z == z3.If(nonempty, zi(hi), zi(lo)))
            self.assume(_conj(spec.inv(st)))
            # python leaves the loop variable at the last value
            if seq is None and isinstance(node.target, ast.Name):
                if self.path.branch(nonempty):
                    frame.locals[node.target.id] = mk_int(k.z - step)
                elif node.target.id in entry:
                    frame.locals[node.target.id] = entry[node.target.id]
                else:
                    frame.locals.pop(node.target.id, None)
        else:
            self.assume(_conj(spec.inv(st)))
            if self.truth(self.eval(node.test, frame)):
                raise PathEnd()
        self.exec_block(node.orelse, frame)

    def havoc_like(self, v, name):
        if isinstance(v, (bool, SBool)):
            return self.fresh_bool(name)
        if isinstance(v, (int, SInt)):
            return self.fresh_int(name)
        if isinstance(v, (float, SFloat)):
            return self.fresh_float(name)
        if isinstance(v, (str, SStr)):
            return self.fresh_str(name)
        if isinstance(v, SElem):
            return self.fresh_elem(name, v.sort)
        if v is None:
            return None
        # heap references: the reference itself is kept (objects are havocked through spec.modifies)
        return v

    def havoc_ghost(self, name):
        cur = self.ghost.get(name)
        if isinstance(cur, z3.ExprRef) and z3.is_seq(cur):
            self.ghost[name] = z3.Const(self.fresh("g_" + name), cur.sort())
        elif isinstance(cur, z3.ExprRef):
            self.ghost[name] = z3.Const(self.fresh("g_" + name), cur.sort())
        elif isinstance(cur, int):
            self.ghost[name] = z3.Int(self.fresh("g_" + name))
        else:
            self.unsupported("havoc of ghost " + name)

    def havoc_reachable(self, frame, loop_node=None, local_kinds=None):
        """havoc every host list / dict reachable from the locals the loop body may mutate (loops that build up nodes).

        Frame inference (syntactic, conservative): a local can only be mutated by the body when the body rebinds it,
        stores through it (x.a = .., x[i] = ..), calls a method on it (x.m(..), x.a.m(..)) or passes it (or something
        reached from it) to a call.  Locals that are only read (compared, tested for membership, indexed) keep their value.
        `local_kinds` gives the element kind of lists held directly by a local (checked: the list is empty or of that kind
        at loop entry; a store of another kind in the body is out of subset)."""
        seen = set()
        local_kinds = local_kinds or {}
        names = None if loop_node is None else _maybe_mutated_names(loop_node)

        def visit(v, depth, kind="any"):
            if id(v) in seen or depth > 3:
                return
            seen.add(id(v))
            if isinstance(v, PList):
                if getattr(v, "glob", False):
                    return
                if kind == "str":
                    if v.is_sym() and v.kind != "str" or not v.is_sym() and not all(is_strlike(x) for x in v.items):
                        self.unsupported("declared element kind does not hold at loop entry")
                    v.items = None
                    v.sym = z3.Const(self.fresh("seq"), z3.SeqSort(z3.StringSort()))
                    v.kind = "str"
                    return
                if kind != "any":
                    # a declared element kind: what is in the list at loop entry must be storable as that kind
                    if v.is_sym() and v.kind != kind:
                        self.unsupported("declared element kind does not hold at loop entry")
                    if not v.is_sym():
                        for x in v.items:
                            v2 = PList([], kind=kind)
                            self.unwrap_elem(v2, x)
                v.items = None
                v.sym = z3.Const(self.fresh("seq"), z3.SeqSort(z3.IntSort()))
                v.kind = kind
            elif isinstance(v, PDict):
                if getattr(v, "glob", False) or v.is_sym():
                    return
                v.entries = []
                v.sym_dom = z3.Array(self.fresh("dom"), z3.StringSort(), z3.BoolSort())
                v.sym_val = z3.Array(self.fresh("val"), z3.StringSort(), z3.IntSort())
                v.key_kind = "str"
                v.val_sort = "any"
            elif isinstance(v, Obj) and not getattr(v, "glob", False):
                for fname, x in list(v.fields.items()):
                    visit(x, depth + 1, local_kinds.get("." + fname, "any"))
        for name, v in list(frame.locals.items()):
            if names is not None and name not in names:
                continue
            visit(v, 0, local_kinds.get(name, "any"))

    def havoc_path(self, pathexpr, frame, loop_node=None):
        if pathexpr == "*reachable*":
            return self.havoc_reachable(frame, loop_node, self.config.get("local_kinds"))
        pathexpr, _, newkind = pathexpr.partition(":")
        node_ = ast.parse(pathexpr, mode="eval").body
        if isinstance(node_, ast.Attribute):
            owner = self.eval(node_.value, frame)
            if isinstance(owner, Obj) and not isinstance(owner.fields.get(node_.attr), HeapObj):
                owner.fields[node_.attr] = self.havoc_like(owner.fields.get(node_.attr), node_.attr)
                return
        v = self.eval(ast.parse(pathexpr, mode="eval").body, frame)
        if isinstance(v, PList):
            if newkind:
                v.kind = newkind
            kind = v.kind
            sort = {"int": z3.IntSort(), "str": z3.StringSort()}.get(kind, z3.IntSort())
            v.items = None
            v.sym = z3.Const(self.fresh("seq"), z3.SeqSort(sort))
        else:
            self.unsupported("havoc of " + type(v).__name__)

    # ------------------------------------------------------------------ assignment
    def assign(self, target, v, frame):
        if isinstance(target, ast.Name):
            if target.id in getattr(frame, "globals_decl", ()):
                self.world.set_global(self, frame.module, target.id, v)
            else:
                frame.locals[target.id] = v
        elif isinstance(target, ast.Attribute):
            obj = self.eval(target.value, frame)
            self.setattr(obj, target.attr, v, target)
        elif isinstance(target, ast.Subscript):
            cont = self.eval(target.value, frame)
            idx = self.eval(target.slice, frame)
            self.setitem(cont, idx, v, target)
        elif isinstance(target, (ast.Tuple, ast.List)):
            items = list(self.iterate(v, target)) if not isinstance(v, tuple) else list(v)
            if len(items) != len(target.elts):
                self.throw("ValueError", "unpack arity", target)
            for t, x in zip(target.elts, items):
                self.assign(t, x, frame)
        else:
            self.unsupported("assignment target", target)

    def setattr(self, obj, name, v, node=None):
        if isinstance(obj, Obj):
            if not obj.fresh:
                self.writes.append((obj, name, node))
            if getattr(obj, "glob", False):
                self.global_overlay[(id(obj), name)] = v
                return
            obj.fields[name] = v
            return
        if isinstance(obj, ModuleRef):
            self.world.set_global(self, obj, name, v)
            return
        if isinstance(obj, SElem) and name in ("info", "name"):
            return      # documentation / display name of an abstract value: not modelled
        self.unsupported(f"setattr on {type(obj).__name__}", node)

    # ------------------------------------------------------------------ expressions
    def eval(self, node, frame):
        m = getattr(self, "e_" + type(node).__name__, None)
        if m is None:
            self.unsupported("expression " + type(node).__name__, node)
        return m(node, frame)

    def e_Constant(self, node, frame):
        return node.value

    def e_Name(self, node, frame):
        name = node.id
        f = frame
        while f is not None:
            if name in f.locals:
                return f.locals[name]
            f = getattr(f, "closure_parent", None)
        return self.world.lookup_global(self, frame.module, name, node)

    def e_Attribute(self, node, frame):
        obj = self.eval(node.value, frame)
        return self.getattr(obj, node.attr, node)

    def e_JoinedStr(self, node, frame):
        parts = []
        for p in node.values:
            if isinstance(p, ast.Constant):
                parts.append(p.value)
            else:
                v = self.eval(p.value, frame)
                if p.format_spec is not None:
                    spec = self.eval(p.format_spec, frame)
                    if spec == "x" and is_intlike(v):
                        # lower-case hexadecimal numeral of an int: an uninterpreted text with the facts the callers rely on
                        hx = z3.Function("hex_numeral", z3.IntSort(), z3.StringSort())(zi(v))
                        self.path.assume(z3.Length(hx) >= 1, check=False)
                        parts.append(SStr(hx))
                        continue
                    self.unsupported(f"format specification {spec!r}", node)
                if p.conversion == 114:
                    parts.append(self.py_repr(v, node))
                else:
                    parts.append(self.py_str(v, node))
        if all(isinstance(p, str) for p in parts):
            return "".join(parts)
        out = z3.StringVal("")
        for p in parts:
            out = z3.Concat(out, zs(p))
        return mk_str(out)

    def e_BoolOp(self, node, frame):
        is_and = isinstance(node.op, ast.And)
        v = self.eval(node.values[0], frame)
        if self.config.get("merge_boolops") and isinstance(v, SBool) and all(_pure_expr(e) for e in node.values[1:]):
            # `a and b` with side-effect-free b that evaluates without forking or raising: the value And(a, b), one
            # path instead of one per way of being false (falls back to sequential evaluation otherwise)
            self.path.nofork += 1
            try:
                rest = [self.eval(e, frame) for e in node.values[1:]]
            except (WouldFork, PyRaise, OutOfSubset):
                rest = None
            finally:
                self.path.nofork -= 1
            if rest is not None and all(isinstance(r, (bool, SBool)) for r in rest):
                parts = [v.z] + [zb(r) for r in rest]
                return mk_bool(z3.And(*parts) if is_and else z3.Or(*parts))
        for e in node.values[1:]:
            if bool(self.truth(v)) != is_and:
                return v
            v = self.eval(e, frame)
        return v

    def e_UnaryOp(self, node, frame):
        v = self.eval(node.operand, frame)
        if isinstance(node.op, ast.Not):
            if isinstance(v, SBool):
                return mk_bool(z3.Not(v.z))
            return not self.truth(v)
        if isinstance(node.op, ast.USub):
            if isinstance(v, (int, float)) and not isinstance(v, bool):
                return -v
            if is_intlike(v):
                return mk_int(-zi(v))
            if is_floatlike(v):
                return mk_float(-zr(v))
            self.throw("TypeError", "bad operand type for unary -", node)
        if isinstance(node.op, ast.Invert):
            if is_intlike(v):
                return mk_int(-zi(v) - 1)
            self.throw("TypeError", "bad operand type for unary ~", node)
        if isinstance(node.op, ast.UAdd):
            return v
        self.unsupported("unary op", node)

    def e_BinOp(self, node, frame):
        a = self.eval(node.left, frame)
        b = self.eval(node.right, frame)
        return self.binop(node.op, a, b, node)

    def e_Compare(self, node, frame):
        left = self.eval(node.left, frame)
        result = True
        for op, rnode in zip(node.ops, node.comparators):
            right = self.eval(rnode, frame)
            r = self.compare(op, left, right, node)
            if len(node.ops) == 1:
                return r
            if not self.truth(r):
                return r
            result = r
            left = right
        return result

    def e_IfExp(self, node, frame):
        if self.truth(self.eval(node.test, frame)):
            return self.eval(node.body, frame)
        return self.eval(node.orelse, frame)

    def e_List(self, node, frame):
        items = []
        for e in node.elts:
            if isinstance(e, ast.Starred):
                items.extend(self.iterate(self.eval(e.value, frame), node))
            else:
                items.append(self.eval(e, frame))
        return PList(items)

    def e_Tuple(self, node, frame):
        return tuple(self.eval(e, frame) for e in node.elts)

    def e_Dict(self, node, frame):
        d = PDict()
        for k, v in zip(node.keys, node.values):
            self.dict_set(d, self.eval(k, frame), self.eval(v, frame), node)
        return d

    def e_Set(self, node, frame):
        s = PSet()
        for e in node.elts:
            self.set_add(s, self.eval(e, frame), node)
        return s

    def _comp(self, node, frame, emit):
        sub = Frame(frame.func, frame.module, {})
        sub.closure_parent = frame

        def rec(i):
            if i == len(node.generators):
                emit(sub)
                return
            g = node.generators[i]
            for x in self.iterate(self.eval(g.iter, sub), node):
                self.assign(g.target, x, sub)
                if all(self.truth(self.eval(c, sub)) for c in g.ifs):
                    rec(i + 1)
        rec(0)

    def e_ListComp(self, node, frame):
        out = []
        self._comp(node, frame, lambda sub: out.append(self.eval(node.elt, sub)))
        return PList(out)

    def e_GeneratorExp(self, node, frame):
        out = []
        self._comp(node, frame, lambda sub: out.append(self.eval(node.elt, sub)))
        return GenVal(out)

    def e_DictComp(self, node, frame):
        d = PDict()
        self._comp(node, frame, lambda sub: self.dict_set(d, self.eval(node.key, sub), self.eval(node.value, sub), node))
        return d

    def e_Lambda(self, node, frame):
        f = PyFunc(node, frame.module)
        f.closure = frame
        return f

    def e_Subscript(self, node, frame):
        cont = self.eval(node.value, frame)
        if isinstance(node.slice, ast.Slice):
            lo = self.eval(node.slice.lower, frame) if node.slice.lower is not None else None
            hi = self.eval(node.slice.upper, frame) if node.slice.upper is not None else None
            if node.slice.step is not None:
                self.unsupported("slice step", node)
            return self.getslice(cont, lo, hi, node)
        idx = self.eval(node.slice, frame)
        return self.getitem(cont, idx, node)

    def e_Call(self, node, frame):
        # super() needs the frame
        if isinstance(node.func, ast.Name) and node.func.id == "super" and not node.args:
            cls = frame.func.cls
            return SuperProxy(cls, frame.locals.get("self", frame.locals.get("cls")))
        fn = self.eval(node.func, frame)
        args = []
        for a in node.args:
            if isinstance(a, ast.Starred):
                args.extend(self.iterate(self.eval(a.value, frame), node))
            else:
                args.append(self.eval(a, frame))
        kwargs = {}
        for k in node.keywords:
            if k.arg is None:
                self.unsupported("**kwargs", node)
            kwargs[k.arg] = self.eval(k.value, frame)
        return self.call(fn, args, kwargs, node)

    # ------------------------------------------------------------------ calls
    def call(self, fn, args, kwargs=None, node=None):
        kwargs = kwargs or {}
        if isinstance(fn, BoundMethod):
            h = self.abstractions.get(fn.func.qualname)
            if h is not None:
                return h(self, [fn.self] + list(args), kwargs, node)
            return self.call_func(fn.func, [fn.self] + list(args), kwargs, node)
        if isinstance(fn, PyFunc):
            h = self.abstractions.get(fn.qualname)
            if h is not None:
                return h(self, list(args), kwargs, node)
            return self.call_func(fn, list(args), kwargs, node)
        if isinstance(fn, Builtin):
            if kwargs and (fn.name.split(".")[0] in ("str", "list", "dict", "set", "tuple", "bytes") or self.world.builtins.get(fn.name) is fn) \
                    and fn.name not in ("sorted", "int", "dict", "print", "open", "str.encode", "bytes.decode"):
                # a keyword argument changes what a host function does; the models take positional arguments only
                self.unsupported(f"keyword arguments {sorted(kwargs)} of host function {fn.name}", node)
            return fn.impl(self, list(args), kwargs, node)
        if isinstance(fn, BoundMethod2):
            return fn.builtin.impl(self, [fn.obj] + list(args), kwargs, node)
        if isinstance(fn, PyClass):
            return self.instantiate(fn, list(args), kwargs, node)
        if isinstance(fn, Obj):
            m = fn.cls.lookup("__call__")
            if m is not None:
                return self.call(BoundMethod(m, fn), args, kwargs, node)
        if isinstance(fn, AbstractCallable):
            return fn.handler(self, list(args), kwargs, node)
        self.dunder_or_typeerror(fn, ("__call__",), node, f"'{type(fn).__name__}' object is not callable")

    def instantiate(self, cls, args, kwargs, node):
        if getattr(cls, "unknown_decorator", None):
            self.unsupported(f"instantiation of {cls.name}, decorated with @{cls.unknown_decorator}", node)
        h = self.abstractions.get(cls.name)
        if h is not None:
            return h(self, list(args), kwargs, node)
        if cls.builtin:
            return self.world.instantiate_builtin(self, cls, args, kwargs, node)
        obj = Obj(cls)
        init = cls.lookup("__init__")
        if isinstance(init, PyFunc):
            self.call_func(init, [obj] + args, kwargs, node)
        elif init is None and (args or kwargs):
            if cls.mro[-1].builtin and cls.mro[-1].name != "object":
                obj.fields["args"] = tuple(args)
            else:
                self.guard(False, "TypeError", node, "takes no arguments")
        elif isinstance(init, Builtin):
            init.impl(self, [obj] + args, kwargs, node)
        return obj

    def mark_shared(self, v, seen=None):
        seen = seen if seen is not None else set()
        if id(v) in seen or not isinstance(v, HeapObj):
            return
        seen.add(id(v))
        v.fresh = False
        v.shared = True
        if isinstance(v, Obj):
            for x in v.fields.values():
                self.mark_shared(x, seen)
        elif isinstance(v, PList) and v.items is not None:
            for x in v.items:
                self.mark_shared(x, seen)
        elif isinstance(v, PDict) and not v.is_sym():
            for k_, x in v.entries:
                self.mark_shared(x, seen)

    def call_func(self, fn, args, kwargs, node=None):
        if self.depth >= self.max_depth:
            # host recursion limit stand-in: unbounded recursion is reported as RecursionError
            self.throw("RecursionError", "maximum recursion depth exceeded", node)
        if getattr(fn, "unknown_decorator", None):
            self.unsupported(f"call of {fn.qualname}, decorated with @{fn.unknown_decorator}", node)
        if getattr(fn, "memoized", False) and not getattr(self, "_in_memo", False):
            # functools.lru_cache / cache: the object returned is handed to every caller with equal arguments, before and
            # after this call -- it is not this call's own allocation
            self._in_memo = True
            try:
                r = self.call_func(fn, args, kwargs, node)
            finally:
                self._in_memo = False
            self.mark_shared(r)
            return r
        fnode = fn.node
        a = fnode.args
        locals_ = {}
        params = [p.arg for p in a.posonlyargs + a.args]
        if fn.kind == "classmethod" and not (args and isinstance(args[0], PyClass)):
            args = [fn.cls] + list(args)
        if len(args) > len(params) and a.vararg is None:
            self.guard(False, "TypeError", node, f"{fn.name}() takes {len(params)} positional arguments but {len(args)} were given")
        for name, v in zip(params, args):
            locals_[name] = v
        if a.vararg is not None:
            locals_[a.vararg.arg] = tuple(args[len(params):])
        for k, v in kwargs.items():
            if k in locals_:
                self.guard(False, "TypeError", node, f"multiple values for argument {k}")
            if k not in params and k not in [p.arg for p in a.kwonlyargs]:
                self.guard(False, "TypeError", node, f"unexpected keyword argument {k}")
            locals_[k] = v
        frame = Frame(fn, fn.module, locals_)
        if fn.closure is not None:
            frame.closure_parent = fn.closure
        ndef = len(a.defaults)
        for i, name in enumerate(params):
            if name not in locals_:
                j = i - (len(params) - ndef)
                if j >= 0:
                    locals_[name] = self.eval(a.defaults[j], frame)
                else:
                    self.guard(False, "TypeError", node, f"{fn.name}() missing required argument '{name}'")
        for p, d in zip(a.kwonlyargs, a.kw_defaults):
            if p.arg not in locals_:
                if d is None:
                    self.guard(False, "TypeError", node, "missing kwonly arg")
                locals_[p.arg] = self.eval(d, frame)
        self.depth += 1
        try:
            if isinstance(fnode, ast.Lambda):
                return self.eval(fnode.body, frame)
            try:
                self.exec_block(fnode.body, frame)
            except _Return as r:
                return r.value
            return None
        finally:
            self.depth -= 1

    # ------------------------------------------------------------------ attributes
    def getattr(self, obj, name, node=None):
        if isinstance(obj, Obj):
            if getattr(obj, "glob", False):
                ov = self.global_overlay.get((id(obj), name), _MISSING)
                if ov is not _MISSING:
                    return ov
            if name in obj.fields:
                return obj.fields[name]
            if "__opaque__" in obj.fields:
                r = self.world.opaque_check(self, obj, name, node)
                if r is not None:
                    return r
            m = obj.cls.lookup(name)
            if m is None:
                if name == "__class__":
                    return obj.cls
                return self.world.missing_attr(self, obj, name, node)
            if isinstance(m, PyFunc):
                if m.kind == "staticmethod":
                    return m
                if m.kind == "classmethod":
                    return BoundMethod(m, obj.cls)
                return BoundMethod(m, obj)
            if isinstance(m, Builtin):
                return BoundMethod2(m, obj)
            return m
        if isinstance(obj, SuperProxy):
            mro = obj.obj.cls.mro if isinstance(obj.obj, Obj) else obj.obj.mro
            i = mro.index(obj.cls)
            for c in mro[i + 1:]:
                if name in c.methods:
                    m = c.methods[name]
                    if isinstance(m, PyFunc):
                        return BoundMethod(m, obj.obj)
                    return BoundMethod2(m, obj.obj)
            if name == "__init__":
                return Builtin("object.__init__", lambda it, a, k, n: None)
            self.throw("AttributeError", name, node)
        if isinstance(obj, ModuleRef):
            if obj.external:
                return self.world.external_attr(self, obj, name, node)
            return self.world.lookup_global(self, obj, name, node)
        if isinstance(obj, PyClass):
            m = obj.lookup(name)
            if m is None:
                if name == "__name__":
                    return obj.name
                self.throw("AttributeError", f"type object '{obj.name}' has no attribute '{name}'", node)
            if isinstance(m, PyFunc) and m.kind == "classmethod":
                return BoundMethod(m, obj)
            return m
        return self.world.builtin_attr(self, obj, name, node)

    # ------------------------------------------------------------------ operators
    def rnd(self, exact, pivots=()):
        """IEEE round-to-nearest idealised: facts assumed about rnd(x) (DESIGN 2.4).
        pivots: integer terms known to be exactly representable (|p| <= 2^53): rounding is monotone
        with respect to representable numbers, so rnd(x) never crosses p or p+1."""
        exact = z3.simplify(exact)
        if z3.is_rational_value(exact):
            num, den = exact.numerator_as_long(), exact.denominator_as_long()
            f = num / den
            if float(f).as_integer_ratio() == (num, den) or (den == 1 and abs(num) <= TWO53):
                return exact
        r = RND(exact)
        err = z3.If(exact >= 0, exact, -exact) / z3.RealVal(TWO53)
        self.path.assume(z3.And(r - exact <= err, exact - r <= err), check=False)
        self.path.assume(z3.Implies(exact >= 0, r >= 0), check=False)
        self.path.assume(z3.Implies(exact <= 0, r <= 0), check=False)
        for p in pivots:
            for q in (z3.ToReal(p), z3.ToReal(p) + 1):
                self.path.assume(z3.And(z3.Implies(exact >= q, r >= q), z3.Implies(exact <= q, r <= q)), check=False)
        return r

    def binop(self, op, a, b, node=None):
        # concrete fast path
        if _native(a) and _native(b):
            try:
                return _PYOPS[type(op)](a, b)
            except ZeroDivisionError:
                self.throw("ZeroDivisionError", "division by zero", node)
            except OverflowError:
                self.throw("OverflowError", "overflow", node)
            except TypeError as e:
                self.throw("TypeError", str(e), node)
            except ValueError as e:
                self.throw("ValueError", str(e), node)
        t = type(op)
        if t is ast.Add:
            if isinstance(a, PList) and isinstance(b, PList):
                return self.list_concat(a, b, node)
            if isinstance(a, tuple) and isinstance(b, tuple):
                return a + b
            if is_strlike(a) and is_strlike(b):
                return mk_str(z3.Concat(zs(a), zs(b)))
        if t is ast.Mult:
            if is_strlike(a) and is_intlike(b) or is_intlike(a) and is_strlike(b):
                s, n = (a, b) if is_strlike(a) else (b, a)
                if isinstance(n, int):
                    out = z3.StringVal("")
                    for _ in range(max(n, 0)):
                        out = z3.Concat(out, zs(s))
                    return mk_str(out)
                # CPython: a repetition count that does not fit an index raises OverflowError, a huge result MemoryError
                self.guard(mk_bool(zi(n) < 2 ** 63), "OverflowError", node, "cannot fit 'int' into an index-sized integer")
                if self.path.choose(2) == 1:
                    self.path.assume(zi(n) > 2 ** 20)     # only a huge result can exhaust memory
                    self.throw("MemoryError", "", node)
                f = z3.Function("str_repeat", z3.StringSort(), z3.IntSort(), z3.StringSort())
                r = f(zs(s), zi(n))
                self.path.assume(z3.Implies(zi(n) <= 0, r == z3.StringVal("")), check=False)
                self.path.assume(z3.Implies(zi(n) == 1, r == zs(s)), check=False)
                return mk_str(r)
            if isinstance(a, PList) and is_intlike(b):
                if isinstance(b, int) and not a.is_sym():
                    return PList(list(a.items) * b)
                self.guard(mk_bool(zi(b) < 2 ** 63), "OverflowError", node, "cannot fit 'int' into an index-sized integer")
                if self.path.choose(2) == 1:
                    self.path.assume(zi(b) > 2 ** 20)     # only a huge result can exhaust memory
                    self.throw("MemoryError", "", node)
                if not a.is_sym() and len(a.items) == 0:
                    return PList([])
                if not a.is_sym() and any(isinstance(x, HeapObj) for x in a.items):
                    r = PList(sym=z3.Const(self.fresh("rep"), z3.SeqSort(z3.IntSort())), kind="any")
                    self.path.assume(z3.Implies(zi(b) <= 0, z3.Length(r.sym) == 0), check=False)
                    return r
                sa = self.list_seq(a, a.kind, node)
                r = PList(sym=z3.Const(self.fresh("rep"), sa.sort()), kind=a.kind)
                self.path.assume(z3.Implies(zi(b) <= 0, z3.Length(r.sym) == 0), check=False)
                self.path.assume(z3.Implies(zi(b) == 1, r.sym == sa), check=False)
                return r
        if t is ast.BitOr and isinstance(a, PSet) and isinstance(b, PSet):
            out = PSet(list(a.items))
            for x in b.items:
                self.set_add(out, x, node)
            return out
        if t is ast.Mod and is_strlike(a):
            return self.fresh_str("fmt")
        if is_numlike(a) and is_numlike(b):
            if is_intlike(a) and is_intlike(b):
                return self.int_binop(t, a, b, node)
            return self.float_binop(t, a, b, node)
        ops = ("__add__", "__radd__", "__sub__", "__rsub__", "__mul__", "__rmul__", "__truediv__", "__floordiv__", "__mod__", "__pow__", "__and__", "__or__",
               "__xor__", "__lshift__", "__rshift__", "__matmul__", "__rtruediv__", "__rfloordiv__", "__rmod__", "__rpow__")
        for o_ in (a, b):
            if isinstance(o_, Obj) and o_.cls is not None and any(o_.cls.lookup(d) is not None for d in ops):
                self.unsupported(f"arithmetic special methods of {o_.cls.name} are not modelled", node)
        self.guard(False, "TypeError", node,
                   f"unsupported operand type(s) for {t.__name__}: {_tn(a)} and {_tn(b)}")

    def int_binop(self, t, a, b, node):
        x, y = zi(a), zi(b)
        if t is ast.Add:
            return mk_int(x + y)
        if t is ast.Sub:
            return mk_int(x - y)
        if t is ast.Mult:
            return mk_int(x * y)
        if t in (ast.FloorDiv, ast.Mod):
            self.guard(mk_bool(y != 0), "ZeroDivisionError", node, "integer division or modulo by zero")
            q = z3.If(y > 0, x / y, (-x) / (-y))
            return mk_int(q) if t is ast.FloorDiv else mk_int(x - y * q)
        if t is ast.Div:
            self.guard(mk_bool(y != 0), "ZeroDivisionError", node, "division by zero")
            return mk_float(self.rnd(z3.ToReal(x) / z3.ToReal(y)))
        if t is ast.Pow:
            if isinstance(b, int) and 0 <= b <= 8:
                out = z3.IntVal(1)
                for _ in range(b):
                    out = out * x
                return mk_int(out)
            if self.path.branch(y >= 0):
                return mk_int(self.world.PYPOW(x, y))
            return self.fresh_float("pow")
        if t in (ast.LShift, ast.RShift):
            self.guard(mk_bool(y >= 0), "ValueError", node, "negative shift count")
            if isinstance(b, int):
                p = z3.IntVal(2 ** b)
            else:
                p = self.world.POW2(y)
                self.path.assume(p >= 1, check=False)
            if t is ast.LShift:
                return mk_int(x * p)
            return mk_int(z3.If(p > 0, x / p, x))
        if t is ast.BitAnd:
            # x & (2^m - 1) == x mod 2^m for every Python int x (infinite two's complement)
            for p, q in ((a, b), (b, a)):
                if isinstance(q, int) and not isinstance(q, bool) and q >= 0 and (q + 1) & q == 0:
                    return mk_int(zi(p) % (q + 1))
            return mk_int(self.world.bitop("and", x, y, self))
        if t is ast.BitOr:
            # x | y == x + y when the low j bits of x are zero and 0 <= y < 2^j (disjoint bits)
            for p, q in ((x, y), (y, x)):
                for j in range(0, 65):
                    m = 2 ** j
                    if not self.path.feasible(z3.Not(z3.And(q >= 0, q < m))):
                        if not self.path.feasible(p % m != 0):
                            return mk_int(p + q)
                        break
            return mk_int(self.world.bitop("or", x, y, self))
        if t is ast.BitXor:
            return mk_int(self.world.bitop("xor", x, y, self))
        self.unsupported("int op " + t.__name__, node)

    def int_term(self, v):
        """z3 Int term when `v` is a float/int known to hold exactly that integer."""
        if is_intlike(v):
            return zi(v)
        if isinstance(v, float) and v == int(v) and abs(v) <= TWO53:
            return z3.IntVal(int(v))
        if isinstance(v, SFloat):
            return v.intz
        return None

    def exact_int_float(self, ei):
        """float holding the integer ei exactly, if the path condition implies |ei| <= 2^53"""
        ei = z3.simplify(ei)
        if z3.is_int_value(ei):
            ok = abs(ei.as_long()) <= TWO53
        else:
            ok = self.path.branch(z3.And(ei <= TWO53, ei >= -TWO53))
        if ok:
            return SFloat(z3.ToReal(ei), intz=ei)
        return None

    def float_binop(self, t, a, b, node):
        if t in (ast.Add, ast.Sub, ast.Mult):
            ia, ib = self.int_term(a), self.int_term(b)
            if ia is not None and ib is not None:
                ei = ia + ib if t is ast.Add else (ia - ib if t is ast.Sub else ia * ib)
                r = self.exact_int_float(ei)
                if r is not None:
                    return r
        for v in (a, b):
            if isinstance(v, SInt):
                # CPython converts the int operand to a double first: OverflowError beyond the double range
                lim = z3.IntVal(2 ** 1024)
                self.guard(mk_bool(z3.And(v.z < lim, v.z > -lim)), "OverflowError", node, "int too large to convert to float")
        # x + 0, 0 + x and x - 0 are exact (IEEE; the sign of a zero is not modelled)
        if t in (ast.Add, ast.Sub) and isinstance(b, (int, float)) and not isinstance(b, bool) and b == 0 and is_floatlike(a):
            return a if not isinstance(a, float) else float(a)
        if t is ast.Add and isinstance(a, (int, float)) and not isinstance(a, bool) and a == 0 and is_floatlike(b):
            return b if not isinstance(b, float) else float(b)
        x, y = zr(a), zr(b)
        piv = [p for p in (self.int_term(a), self.int_term(b)) if p is not None]
        piv = [p for p in piv if not self.path.feasible(z3.Not(z3.And(p <= TWO53, p >= -TWO53)))]
        if t is ast.Add:
            return mk_float(self.rnd(x + y, piv))
        if t is ast.Sub:
            return mk_float(self.rnd(x - y, piv))
        if t is ast.Mult:
            return mk_float(self.rnd(x * y))
        if t is ast.Div:
            self.guard(mk_bool(y != 0), "ZeroDivisionError", node, "float division by zero")
            return mk_float(self.rnd(x / y))
        if t is ast.Mod:
            self.guard(mk_bool(y != 0), "ZeroDivisionError", node, "float modulo")
            r = self.fresh_float("fmod")
            self.path.assume(z3.If(y > 0, z3.And(r.z >= 0, r.z < y), z3.And(r.z <= 0, r.z > y)), check=False)
            return r
        if t is ast.FloorDiv:
            self.guard(mk_bool(y != 0), "ZeroDivisionError", node, "float floor division")
            return self.fresh_float("ffloordiv")
        if t is ast.Pow:
            return self.fresh_float("fpow")
        self.guard(False, "TypeError", node, f"unsupported operand type(s) for {t.__name__}: float")

    # ---- comparison
    def compare(self, op, a, b, node=None):
        t = type(op)
        if t is ast.Is:
            return self.identical(a, b)
        if t is ast.IsNot:
            return self.neg(self.identical(a, b))
        if t is ast.In:
            return self.contains(b, a, node)
        if t is ast.NotIn:
            return self.neg(self.contains(b, a, node))
        if t is ast.Eq:
            return self.eq(a, b, node)
        if t is ast.NotEq:
            return self.neg(self.eq(a, b, node))
        return self.order(t, a, b, node)

    def neg(self, v):
        if isinstance(v, SBool):
            return mk_bool(z3.Not(v.z))
        return not self.truth(v)

    def identical(self, a, b):
        if a is b:
            return True
        if a is None or b is None:
            return False
        if isinstance(a, (HeapObj, PyClass, PyFunc)) or isinstance(b, (HeapObj, PyClass, PyFunc)):
            return False
        if isinstance(a, bool) and isinstance(b, bool):
            return a == b
        h = self.world.hooks.get("elem_identical")
        if h is not None and (isinstance(a, SElem) or isinstance(b, SElem)):
            r = h(self, a, b)
            if r is not None:
                return r
        if isinstance(a, SElem) and isinstance(b, SElem):
            # ids of opaque elements denote values modulo the language's equality: the same object is an equal
            # value, but equal values need not be the same object
            same = self.fresh_bool("same_object")
            self.path.assume(z3.Implies(same.z, a.z == b.z), check=False)
            return same
        if isinstance(a, (SBool, bool)) and isinstance(b, (SBool, bool)):
            return mk_bool(zb(a) == zb(b))
        if _native(a) and _native(b):
            return a is b
        return False

    def eq(self, a, b, node=None):
        if _native(a) and _native(b) and not isinstance(a, tuple):
            return a == b
        if isinstance(a, Obj):
            m = a.cls.lookup("__eq__")
            if isinstance(m, PyFunc):
                return self.call(BoundMethod(m, a), [b], {}, node)
            if isinstance(b, Obj):
                m2 = b.cls.lookup("__eq__")
                if isinstance(m2, PyFunc):
                    return self.call(BoundMethod(m2, b), [a], {}, node)
            r = self.world.builtin_eq(self, a, b, node)
            if r is not None:
                return r
            return a is b
        if isinstance(b, Obj):
            m2 = b.cls.lookup("__eq__")
            if isinstance(m2, PyFunc):
                return self.call(BoundMethod(m2, b), [a], {}, node)
            return False
        if a is None or b is None:
            return a is b
        if is_numlike(a) and is_numlike(b):
            if is_intlike(a) and is_intlike(b):
                return mk_bool(zi(a) == zi(b))
            return mk_bool(zr(a) == zr(b))
        if is_strlike(a) and is_strlike(b):
            if isinstance(a, SStr) and a.code is not None and isinstance(b, str):
                return mk_bool(a.code == ord(b)) if len(b) == 1 else False
            if isinstance(b, SStr) and b.code is not None and isinstance(a, str):
                return mk_bool(b.code == ord(a)) if len(a) == 1 else False
            return mk_bool(zs(a) == zs(b))
        if isinstance(a, SElem) and isinstance(b, SElem):
            return self.world.elem_eq(self, a, b)
        if isinstance(a, tuple) and isinstance(b, tuple):
            if len(a) != len(b):
                return False
            for x, y in zip(a, b):
                if not self.truth(self.eq(x, y, node)):
                    return False
            return True
        if isinstance(a, PList) and isinstance(b, PList):
            return self.list_eq(a, b, node)
        if isinstance(a, PDict) and isinstance(b, PDict):
            return self.dict_eq(a, b, node)
        if isinstance(a, PSet) and isinstance(b, PSet):
            return self.set_eq(a, b, node)
        if isinstance(a, (PyClass, PyFunc, ModuleRef, Builtin)) or isinstance(b, (PyClass, PyFunc, ModuleRef, Builtin)):
            return a is b
        return False

    def order(self, t, a, b, node):
        if is_numlike(a) and is_numlike(b):
            if is_intlike(a) and is_intlike(b):
                x, y = zi(a), zi(b)
            else:
                x, y = zr(a), zr(b)
            return mk_bool(_ZCMP[t](x, y))
        if is_strlike(a) and is_strlike(b):
            if _native(a) and _native(b):
                return _PYCMP[t](a, b)
            if getattr(a, "opaque", False) or getattr(b, "opaque", False):
                return self.fresh_bool("opaque_cmp")
            x, y = zs(a), zs(b)
            if t is ast.Lt:
                return mk_bool(x < y)
            if t is ast.LtE:
                return mk_bool(x <= y)
            if t is ast.Gt:
                return mk_bool(y < x)
            return mk_bool(y <= x)
        if isinstance(a, Obj) or isinstance(b, Obj):
            return self.world.obj_order(self, t, a, b, node)
        if isinstance(a, PList) and isinstance(b, PList):
            return self.list_order(t, a, b, node)
        if isinstance(a, tuple) and isinstance(b, tuple):
            return self.list_order(t, PList(list(a)), PList(list(b)), node)
        if isinstance(a, SElem) and isinstance(b, SElem):
            return self.world.elem_order(self, t, a, b)
        self.guard(False, "TypeError", node, f"'{_OPSYM[t]}' not supported between instances of {_tn(a)} and {_tn(b)}")

    # ---- containers
    def contains(self, cont, x, node=None):
        if is_strlike(cont):
            if not is_strlike(x):
                self.guard(False, "TypeError", node, "'in <string>' requires string as left operand")
            if isinstance(cont, str) and isinstance(x, SStr) and x.code is not None:
                return mk_bool(z3.Or([x.code == ord(c) for c in cont])) if cont else False
            if _native(cont) and _native(x):
                return x in cont
            return mk_bool(z3.Contains(zs(cont), zs(x)))
        if isinstance(cont, (tuple, list)):
            cont = PList(list(cont))
        if isinstance(cont, PList):
            if cont.is_sym():
                if cont.kind in ("int", "str"):
                    return mk_bool(z3.Contains(cont.sym, z3.Unit(self.unwrap_elem(cont, x, node))))
                self.unsupported("membership in symbolic list", node)
            for item in cont.items:
                if self.truth(self.py_member_eq(item, x, node)):
                    return True
            return False
        if isinstance(cont, PDict):
            return self.dict_has(cont, x, node)
        if isinstance(cont, DictView):
            if cont.kind == "keys":
                return self.dict_has(cont.d, x, node)
            self.unsupported("membership in dict view", node)
        if isinstance(cont, PSet):
            return self.set_has(cont, x, node)
        if isinstance(cont, RangeVal):
            return mk_bool(z3.And(zi(cont.start) <= zi(x), zi(x) < zi(cont.stop)))
        if isinstance(cont, Obj):
            m = cont.cls.lookup("__contains__")
            if m is not None:
                return self.call(BoundMethod(m, cont), [x], {}, node)
        self.dunder_or_typeerror(cont, ("__contains__", "__iter__", "__getitem__"), node, f"argument of type {_tn(cont)} is not iterable")

    def py_member_eq(self, item, x, node):
        """`x is item or x == item` as used by list/dict/set membership."""
        if isinstance(item, SElem) and isinstance(x, SElem):
            return self.eq(item, x, node)
        idt = self.identical(item, x)
        if idt is True:
            return True
        return self.eq(item, x, node)

    def key_eq(self, k1, k2, node):
        """dict/set key match: hash equality is assumed to follow from __eq__ (C06 proves lawfulness)."""
        if isinstance(k1, Obj) or isinstance(k2, Obj):
            self.world.note_hash_use(self, k1, k2, node)
        return self.py_member_eq(k1, k2, node)

    def check_hashable(self, k, node):
        if isinstance(k, (PList, PDict, PSet)):
            self.guard(False, "TypeError", node, "unhashable type")
        if isinstance(k, Obj):
            self.world.check_hashable(self, k, node)

    def dict_find(self, d, key, node):
        lazy = getattr(d, "lazy", None)
        if lazy is not None:
            lazy(self, key)
        self.check_hashable(key, node)
        for ent in d.entries:
            if self.truth(self.key_eq(ent[0], key, node)):
                return ent
        return None

    def dict_has(self, d, key, node=None):
        if d.is_sym():
            return mk_bool(z3.Select(d.sym_dom, self.world.key_term(self, d, key, node)))
        return self.dict_find(d, key, node) is not None

    def dict_get(self, d, key, node=None):
        if d.is_sym():
            kt = self.world.key_term(self, d, key, node)
            self.guard(mk_bool(z3.Select(d.sym_dom, kt)), "KeyError", node)
            return SElem(z3.Select(d.sym_val, kt), getattr(d, "val_sort", "val"))
        ent = self.dict_find(d, key, node)
        if ent is None:
            self.throw("KeyError", "key", node)
        return ent[1]

    def dict_set(self, d, key, value, node=None):
        if not d.fresh:
            self.writes.append((d, "[]", node))
        if d.is_sym():
            kt = self.world.key_term(self, d, key, node)
            d.sym_dom = z3.Store(d.sym_dom, kt, True)
            if not isinstance(value, SElem):
                value = self.world.value_as_elem(self, value, node)
            d.sym_val = z3.Store(d.sym_val, kt, value.z)
            return
        ent = self.dict_find(d, key, node)
        if ent is None:
            d.entries.append([key, value])
        else:
            ent[1] = value

    def dict_del(self, d, key, node=None):
        if not d.fresh:
            self.writes.append((d, "del", node))
        if d.is_sym():
            kt = self.world.key_term(self, d, key, node)
            self.guard(mk_bool(z3.Select(d.sym_dom, kt)), "KeyError", node)
            d.sym_dom = z3.Store(d.sym_dom, kt, False)
            return
        ent = self.dict_find(d, key, node)
        if ent is None:
            self.throw("KeyError", "key", node)
        d.entries.remove(ent)

    def set_has(self, s, x, node=None):
        self.check_hashable(x, node)
        if s.sym_dom is not None:
            return mk_bool(z3.Select(s.sym_dom, self.world.key_term(self, s, x, node)))
        for item in s.items:
            if self.truth(self.key_eq(item, x, node)):
                return True
        return False

    def set_add(self, s, x, node=None):
        if not s.fresh:
            self.writes.append((s, "add", node))
        if s.sym_dom is not None:
            self.check_hashable(x, node)
            s.sym_dom = z3.Store(s.sym_dom, self.world.key_term(self, s, x, node), True)
            return
        if not self.set_has(s, x, node):
            s.items.append(x)

    def set_remove(self, s, x, node=None):
        if not s.fresh:
            self.writes.append((s, "remove", node))
        self.check_hashable(x, node)
        if s.sym_dom is not None:
            kt = self.world.key_term(self, s, x, node)
            self.guard(mk_bool(z3.Select(s.sym_dom, kt)), "KeyError", node)
            s.sym_dom = z3.Store(s.sym_dom, kt, False)
            return
        for i, item in enumerate(s.items):
            if self.truth(self.key_eq(item, x, node)):
                del s.items[i]
                return
        self.throw("KeyError", "element", node)

    def list_len(self, lst):
        if lst.is_sym():
            return mk_int(z3.Length(lst.sym))
        return len(lst.items)

    def list_concat(self, a, b, node):
        if not a.is_sym() and not b.is_sym():
            return PList(list(a.items) + list(b.items))
        return PList(sym=z3.Concat(self.list_seq(a, b.kind if b.is_sym() else a.kind, node),
                                   self.list_seq(b, a.kind if a.is_sym() else b.kind, node)),
                     kind=a.kind if a.is_sym() else b.kind)

    def list_seq(self, lst, kind, node=None):
        """z3 Seq term of a list."""
        if lst.is_sym():
            return lst.sym
        sort = {"int": z3.IntSort(), "str": z3.StringSort()}.get(kind, z3.IntSort())
        tmp = PList(sym=z3.Empty(z3.SeqSort(sort)), kind=kind)
        out = z3.Empty(z3.SeqSort(sort))
        for x in lst.items:
            out = z3.Concat(out, z3.Unit(self.unwrap_elem(tmp, x, node)))
        return z3.simplify(out)

    def list_extend(self, lst, other, node):
        if not lst.fresh:
            self.writes.append((lst, "extend", node))
        if isinstance(other, PList) and (lst.is_sym() or other.is_sym()):
            new = self.list_concat(lst, other, node)
            lst.items, lst.sym, lst.kind = new.items, new.sym, new.kind
            return
        for x in self.iterate(other, node):
            lst.items.append(x)

    def list_append(self, lst, x, node=None):
        if not lst.fresh:
            self.writes.append((lst, "append", node))
        if lst.is_sym():
            lst.sym = z3.Concat(lst.sym, z3.Unit(self.unwrap_elem(lst, x, node)))
        else:
            lst.items.append(x)

    def norm_index(self, i, n, node, what="list index out of range"):
        """Python index rule: -n <= i < n else IndexError. Returns the non-negative index."""
        if not is_intlike(i):
            self.guard(False, "TypeError", node, "indices must be integers")
        if isinstance(i, int) and isinstance(n, int):
            if not (-n <= i < n):
                self.throw("IndexError", what, node)
            return i if i >= 0 else i + n
        zi_, zn = zi(i), zi(n)
        self.guard(mk_bool(z3.And(zi_ >= -zn, zi_ < zn)), "IndexError", node, what)
        return mk_int(z3.If(zi_ >= 0, zi_, zi_ + zn))

    def getitem(self, cont, idx, node=None):
        if isinstance(cont, PList):
            n = self.list_len(cont)
            j = self.norm_index(idx, n, node)
            if cont.is_sym():
                return self.wrap_elem(cont, cont.sym[zi(j)])
            if isinstance(j, int):
                return cont.items[j]
            if all(is_intlike(x) and not isinstance(x, (bool, SBool)) for x in cont.items):
                e = zi(cont.items[-1])
                for p in range(len(cont.items) - 2, -1, -1):
                    e = z3.If(zi(j) == p, zi(cont.items[p]), e)
                return mk_int(e)
            # symbolic index into concrete spine: fork over positions
            k = self.path.choose(len(cont.items), [zi(j) == p for p in range(len(cont.items))])
            return cont.items[k]
        if isinstance(cont, tuple):
            j = self.norm_index(idx, len(cont), node, "tuple index out of range")
            if isinstance(j, int):
                return cont[j]
            k = self.path.choose(len(cont), [zi(j) == p for p in range(len(cont))])
            return cont[k]
        if isinstance(cont, SStr) and cont.code is not None:
            self.norm_index(idx, 1, node, "string index out of range")
            return cont
        if is_strlike(cont):
            if isinstance(cont, str) and isinstance(idx, int):
                try:
                    return cont[idx]
                except IndexError:
                    self.throw("IndexError", "string index out of range", node)
            n = mk_int(z3.Length(zs(cont)))
            j = self.norm_index(idx, n, node, "string index out of range")
            return mk_str(z3.SubString(zs(cont), zi(j), 1))
        if isinstance(cont, PDict):
            return self.dict_get(cont, idx, node)
        if isinstance(cont, Obj):
            m = cont.cls.lookup("__getitem__")
            if m is not None:
                return self.call(BoundMethod(m, cont) if isinstance(m, PyFunc) else BoundMethod2(m, cont), [idx], {}, node)
        if isinstance(cont, ScriptAbs):
            return cont.getitem(self, idx, node)
        self.dunder_or_typeerror(cont, ("__getitem__", "__class_getitem__"), node, f"{_tn(cont)} object is not subscriptable")

    def setitem(self, cont, idx, v, node=None):
        if isinstance(cont, PList):
            if not cont.fresh:
                self.writes.append((cont, "[]=", node))
            n = self.list_len(cont)
            j = self.norm_index(idx, n, node, "list assignment index out of range")
            if cont.is_sym():
                s = cont.sym
                e = z3.Unit(self.unwrap_elem(cont, v, node))
                cont.sym = z3.Concat(z3.SubSeq(s, 0, zi(j)), e, z3.SubSeq(s, zi(j) + 1, z3.Length(s) - zi(j) - 1))
                return
            if isinstance(j, int):
                cont.items[j] = v
                return
            k = self.path.choose(len(cont.items), [zi(j) == p for p in range(len(cont.items))])
            cont.items[k] = v
            return
        if isinstance(cont, PDict):
            return self.dict_set(cont, idx, v, node)
        self.dunder_or_typeerror(cont, ("__setitem__",), node, f"{_tn(cont)} object does not support item assignment")

    def delitem(self, cont, idx, node=None):
        if isinstance(cont, PList):
            if not cont.fresh:
                self.writes.append((cont, "del", node))
            n = self.list_len(cont)
            j = self.norm_index(idx, n, node, "list assignment index out of range")
            if cont.is_sym():
                s = cont.sym
                cont.sym = z3.Concat(z3.SubSeq(s, 0, zi(j)), z3.SubSeq(s, zi(j) + 1, z3.Length(s) - zi(j) - 1))
                return
            if isinstance(j, int):
                del cont.items[j]
                return
            k = self.path.choose(len(cont.items), [zi(j) == p for p in range(len(cont.items))])
            del cont.items[k]
            return
        if isinstance(cont, PDict):
            return self.dict_del(cont, idx, node)
        self.guard(False, "TypeError", node, "object doesn't support item deletion")

    def slice_bounds(self, lo, hi, n):
        """CPython slice normalisation (negative -> +len, clamp to [0,len])."""
        zn = zi(n)

        def norm(x, default):
            if x is None:
                return default
            zx = zi(x)
            return z3.If(zx < 0, z3.If(zx + zn < 0, z3.IntVal(0), zx + zn), z3.If(zx > zn, zn, zx))
        a = norm(lo, z3.IntVal(0))
        b = norm(hi, zn)
        return z3.simplify(a), z3.simplify(b)

    def getslice(self, cont, lo, hi, node=None):
        for x in (lo, hi):
            if x is not None and not is_intlike(x):
                self.guard(False, "TypeError", node, "slice indices must be integers")
        if isinstance(cont, str) and all(x is None or isinstance(x, int) for x in (lo, hi)):
            return cont[lo:hi]
        if is_strlike(cont):
            s = zs(cont)
            a, b = self.slice_bounds(lo, hi, mk_int(z3.Length(s)))
            return mk_str(z3.If(a < b, z3.SubString(s, a, b - a), z3.StringVal("")))
        if isinstance(cont, tuple):
            cont = PList(list(cont))
        if isinstance(cont, PList):
            if not cont.is_sym() and all(x is None or isinstance(x, int) for x in (lo, hi)):
                return PList(cont.items[lo:hi])
            s = self.list_seq(cont, cont.kind, node)
            a, b = self.slice_bounds(lo, hi, mk_int(z3.Length(s)))
            return PList(sym=z3.If(a < b, z3.SubSeq(s, a, b - a), z3.Empty(s.sort())), kind=cont.kind)
        self.dunder_or_typeerror(cont, ("__getitem__", "__class_getitem__"), node, f"{_tn(cont)} object is not subscriptable")

    def list_eq(self, a, b, node):
        if a.is_sym() or b.is_sym():
            kind = a.kind if a.is_sym() else b.kind
            return mk_bool(self.list_seq(a, kind, node) == self.list_seq(b, kind, node))
        if len(a.items) != len(b.items):
            return False
        for x, y in zip(a.items, b.items):
            if not self.truth(self.py_member_eq(x, y, node)):
                return False
        return True

    def list_order(self, t, a, b, node):
        if a.is_sym() or b.is_sym():
            self.unsupported("ordering of symbolic lists", node)
        for x, y in zip(a.items, b.items):
            if not self.truth(self.py_member_eq(x, y, node)):
                return self.order(t, x, y, node)
        return _PYCMP[t](len(a.items), len(b.items))

    def dict_eq(self, a, b, node):
        if a.is_sym() and b.is_sym():
            k = z3.Const(self.fresh("k"), a.sym_dom.domain())
            return mk_bool(z3.And(a.sym_dom == b.sym_dom,
                                  z3.ForAll([k], z3.Implies(z3.Select(a.sym_dom, k),
                                                            z3.Select(a.sym_val, k) == z3.Select(b.sym_val, k)))))
        if a.is_sym() or b.is_sym():
            self.unsupported("equality of symbolic dicts", node)
        if len(a.entries) != len(b.entries):
            return False
        for k, v in a.entries:
            ent = self.dict_find(b, k, node)
            if ent is None:
                return False
            if not self.truth(self.py_member_eq(v, ent[1], node)):
                return False
        return True

    def set_eq(self, a, b, node):
        if a.sym_dom is not None and b.sym_dom is not None:
            return mk_bool(a.sym_dom == b.sym_dom)
        if a.sym_dom is not None or b.sym_dom is not None:
            self.unsupported("equality of symbolic and concrete set", node)
        if len(a.items) != len(b.items):
            return False
        for x in a.items:
            if not self.set_has(b, x, node):
                return False
        return True

    # ------------------------------------------------------------------ str()/repr()
    def py_str(self, v, node=None):
        if isinstance(v, str):
            return v
        if isinstance(v, SStr):
            return v
        if isinstance(v, bool) or v is None or isinstance(v, (int, float)):
            return str(v)
        if isinstance(v, SInt):
            return mk_str(z3.If(v.z >= 0, z3.IntToStr(v.z), z3.Concat(z3.StringVal("-"), z3.IntToStr(-v.z))))
        if isinstance(v, SBool):
            return mk_str(z3.If(v.z, z3.StringVal("True"), z3.StringVal("False")))
        if isinstance(v, SFloat):
            return SStr(self.world.FLOATREPR(v.z))
        if isinstance(v, Obj):
            return self.world.obj_str(self, v, node, "__str__")
        return self.world.opaque_str(self, v, node)

    def py_repr(self, v, node=None):
        if isinstance(v, str):
            return repr(v)
        if isinstance(v, SStr):
            return SStr(self.world.STRREPR(v.z))
        if isinstance(v, Obj):
            return self.world.obj_str(self, v, node, "__repr__")
        return self.py_str(v, node)


# ---------------------------------------------------------------------- helper value types

class RangeVal:
    def __init__(self, start, stop, step=1):
        self.start, self.stop, self.step = start, stop, step


class DictView:
    def __init__(self, d, kind):
        self.d = d
        self.kind = kind


class GenVal:
    def __init__(self, items):
        self.items = items


class BoundMethod2:
    """builtin method bound to an object"""

    def __init__(self, builtin, obj):
        self.builtin = builtin
        self.obj = obj


class AbstractCallable:
    def __init__(self, name, handler):
        self.name = name
        self.handler = handler


class ScriptAbs:
    """Abstract source text for the lexer step: indexing yields the current symbolic character."""

    def __init__(self, length, getter):
        self.length = length
        self.getter = getter

    def getitem(self, interp, idx, node):
        return self.getter(interp, idx, node)


class _GuardedIter:
    """Iteration over a host dict / dict view / set: CPython raises RuntimeError when the container changes size while it
    is being iterated (checked when the next element is asked for)."""

    def __init__(self, interp, container, items, node):
        self.interp, self.container, self.items, self.node = interp, container, items, node
        self.n0 = self._size()

    def _size(self):
        c = self.container
        return len(c.entries) if isinstance(c, PDict) else len(c.items)

    def __len__(self):
        return len(self.items)

    def __iter__(self):
        for x in self.items:
            if self._size() != self.n0:
                self.interp.throw("RuntimeError", "dictionary changed size during iteration" if isinstance(self.container, PDict)
                                  else "Set changed size during iteration", self.node)
            yield x
        if self._size() != self.n0 and self.items:
            self.interp.throw("RuntimeError", "container changed size during iteration", self.node)


class _LiveListIter:
    """Iterates a concrete-spine list the way CPython does (by index, seeing appends)."""

    def __init__(self, lst):
        self.lst = lst

    def __iter__(self):
        i = 0
        while self.lst.items is not None and i < len(self.lst.items):
            yield self.lst.items[i]
            i += 1


def _native(v):
    return v is None or isinstance(v, (int, float, str, bool, tuple)) and not isinstance(v, Sym)


def _tn(v):
    if isinstance(v, Obj):
        return v.cls.name
    return {SInt: "int", SBool: "bool", SStr: "str", SChar: "str", SFloat: "float", PList: "list", PDict: "dict",
            PSet: "set", type(None): "NoneType"}.get(type(v), type(v).__name__)


def _load(target):
    import copy
    t = copy.copy(target)
    t.ctx = ast.Load()
    return t


def _conj(x):
    if isinstance(x, (list, tuple)):
        return z3.And([_zb(c) for c in x]) if x else z3.BoolVal(True)
    return _zb(x)


def _zb(c):
    if isinstance(c, bool):
        return z3.BoolVal(c)
    if isinstance(c, SBool):
        return c.z
    return c


def _assigned_names(stmts):
    out = set()
    for s in stmts:
        for n in ast.walk(s):
            if isinstance(n, ast.Name) and isinstance(n.ctx, ast.Store):
                out.add(n.id)
            elif isinstance(n, ast.AugAssign) and isinstance(n.target, ast.Name):
                out.add(n.target.id)
    return out


def _pure_expr(e):
    """syntactically free of calls and of anything that binds or mutates"""
    for n in ast.walk(e):
        if not isinstance(n, (ast.Name, ast.Attribute, ast.Constant, ast.Compare, ast.BoolOp, ast.UnaryOp, ast.Load, ast.And, ast.Or, ast.Not,
                              ast.Eq, ast.NotEq, ast.Is, ast.IsNot, ast.cmpop, ast.boolop, ast.unaryop)):
            return False
    return True


def _maybe_mutated_names(loop_node):
    out = _assigned_names(loop_node.body)
    if isinstance(loop_node, ast.For):
        out |= _target_names(loop_node.target)

    def base(e):
        while isinstance(e, (ast.Attribute, ast.Subscript, ast.Starred)):
            e = e.value
        return e.id if isinstance(e, ast.Name) else None
    nodes = list(loop_node.body) + ([loop_node.test] if isinstance(loop_node, ast.While) else [loop_node.iter])
    for s_ in nodes:
        for n in ast.walk(s_):
            if isinstance(n, ast.Call):
                if isinstance(n.func, ast.Attribute):
                    b = base(n.func.value)
                    if b:
                        out.add(b)
                for a in list(n.args) + [k.value for k in n.keywords]:
                    for m in ast.walk(a):
                        if isinstance(m, ast.Name):
                            out.add(m.id)
            elif isinstance(n, (ast.Attribute, ast.Subscript)) and isinstance(n.ctx, (ast.Store, ast.Del)):
                b = base(n)
                if b:
                    out.add(b)
    return out


def _target_names(t):
    return {n.id for n in ast.walk(t) if isinstance(n, ast.Name)}


_ORD_CACHE = {}


_SHAPES = None


def _check_loop_shape(fn):
    """loop contracts are keyed by ordinal: they only mean something while the function still has the loops they were
    written for (contracts/loop_shapes.json, recorded by tools/record_loop_shapes.py)"""
    global _SHAPES
    if _SHAPES is None:
        import json
        import os
        path = os.path.join(os.path.dirname(os.path.dirname(os.path.abspath(__file__))), "contracts", "loop_shapes.json")
        _SHAPES = json.load(open(path)) if os.path.exists(path) else {}
    if getattr(fn, "_shape_ok", None) is not None:
        return fn._shape_ok is True
    key = fn.module.name.split(".")[-1] + ".py::" + fn.qualname
    want = _SHAPES.get(key)
    kinds = []

    def walk(n):
        for c in ast.iter_child_nodes(n):
            if isinstance(c, (ast.For, ast.While)):
                kinds.append(type(c).__name__)
            if not isinstance(c, (ast.FunctionDef, ast.Lambda, ast.ClassDef)):
                walk(c)
    walk(fn.node)
    fn._shape_recorded = want or []
    want = [kh[0] for kh in want] if want is not None else None
    if want is not None and want != kinds:
        fn._shape_ok = (f"the loops of {key} changed since its loop contracts were written (recorded {want}, found {kinds}): "
                        f"the contracts are keyed by loop ordinal and do not fit this code")
        return False
    fn._shape_ok = True
    return True


def _loop_ordinals(fnode):
    key = id(fnode)
    if key in _ORD_CACHE:
        return _ORD_CACHE[key][1]
    out = {}

    def visit(n):
        for c in ast.iter_child_nodes(n):
            if isinstance(c, (ast.For, ast.While)):
                out[id(c)] = len(out)
            if isinstance(c, (ast.FunctionDef, ast.Lambda, ast.ClassDef)):
                continue
            visit(c)
    visit(fnode)
    _ORD_CACHE[key] = (fnode, out)
    return out


import operator as _op

_PYOPS = {
    ast.Add: _op.add, ast.Sub: _op.sub, ast.Mult: _op.mul, ast.Div: _op.truediv, ast.FloorDiv: _op.floordiv,
    ast.Mod: _op.mod, ast.Pow: _op.pow, ast.LShift: _op.lshift, ast.RShift: _op.rshift, ast.BitAnd: _op.and_,
    ast.BitOr: _op.or_, ast.BitXor: _op.xor,
}
_PYCMP = {ast.Lt: _op.lt, ast.LtE: _op.le, ast.Gt: _op.gt, ast.GtE: _op.ge}
_ZCMP = {ast.Lt: lambda x, y: x < y, ast.LtE: lambda x, y: x <= y, ast.Gt: lambda x, y: x > y,
         ast.GtE: lambda x, y: x >= y}
_OPSYM = {ast.Lt: "<", ast.LtE: "<=", ast.Gt: ">", ast.GtE: ">="}
