"""Property-level driver: runs the proof units and bounded stand-ins of one property, applies the
known-findings file, replays counterexamples on the real code, writes evidence, prints verdict lines."""
import importlib
import json
import os
import sys
import time
import hashlib

from .verify import run_units
from .source import Repo, repo_root

VERIF = os.path.dirname(os.path.dirname(os.path.abspath(__file__)))


def load_known():
    p = os.path.join(VERIF, "known_findings.json")
    if not os.path.exists(p):
        return {"known": [], "fixed": []}
    with open(p) as f:
        return json.load(f)


def known_match(known, prop, name, witness=None):
    """A known finding is identified by property + obligation name (+ optional witness substring)."""
    for k in known.get("known", []):
        if k.get("property") != prop:
            continue
        if k.get("obligation") and k["obligation"] != name:
            continue
        if k.get("witness") and witness is not None and k["witness"] not in witness:
            continue
        return k
    return None


class BoundedResult:
    """Outcome of one bounded stand-in (runtime contract on the real code over a stated domain)."""

    def __init__(self, name, bound, evaluations=0, distinct=0, failures=None, samples=None, note="", wall=0.0):
        self.name = name
        self.bound = bound
        self.evaluations = evaluations
        self.distinct = distinct
        self.failures = failures or []      # list of dict(input=..., observed=..., expected=..., id=...)
        self.samples = samples or []
        self.note = note
        self.wall = wall

    def as_dict(self):
        return {"name": self.name, "bound": self.bound, "evaluations": self.evaluations,
                "distinct_cases": self.distinct, "failures": len(self.failures), "samples": self.samples[:5],
                "note": self.note, "wall_s": round(self.wall, 2)}


def main(argv=None):
    import argparse
    ap = argparse.ArgumentParser()
    ap.add_argument("prop")
    ap.add_argument("--tier", default=os.environ.get("VERIF_TIER", "quick"))
    ap.add_argument("--procs", type=int, default=int(os.environ.get("VERIF_PROCS", "16")))
    ap.add_argument("--only", default=None, help="substring filter on unit names (debugging)")
    ap.add_argument("--no-bounded", action="store_true")
    ap.add_argument("--no-evidence", action="store_true")
    ap.add_argument("--verbose", "-v", action="store_true")
    args = ap.parse_args(argv)
    prop = args.prop.upper()
    tier = args.tier if args.tier in ("quick", "thorough") else "quick"
    seed = int(os.environ.get("VERIF_SEED", "0") or 0)
    try:
        rc = run_property(prop, tier, seed, args)
    except SystemExit:
        raise
    except Exception:
        import traceback
        traceback.print_exc()
        print(f"CHECKER-CRASH property={prop}")
        sys.exit(3)
    sys.exit(rc)


def run_property(prop, tier, seed, args):
    t0 = time.time()
    modname = f"contracts.{prop.lower()}"
    mod = importlib.import_module(modname)
    repo = Repo()
    timeout_ms = 10000 if tier == "quick" else 60000
    budget_s = getattr(mod, "UNIT_BUDGET_S", 240) * (1 if tier == "quick" else 3)
    from .world import World
    w = World(repo)
    all_units = mod.units(w)
    indices = [i for i, u in enumerate(all_units)
               if (args.only is None or args.only in u.name)
               and (tier == "thorough" or not getattr(u, "thorough_only", False))]
    units, results = run_units(modname, indices, timeout_ms, budget_s, args.procs)
    # vacuity: every unit must reach a function exit under satisfiable assumptions (there the postcondition `False` would
    # fail), or already fail an obligation
    canary_idx = [i for i in indices if all_units[i].canary]
    canary_bad = []
    vacuity_unconfirmed = []
    ncanary_ok = 0
    for i, c in zip(indices, results):
        if i not in canary_idx:
            continue
        hit = c.get("exit_sat") or any(a["sat"] > 0 for k, a in c["obs"].items())
        if c["status"] == "ok" and not hit and not c.get("exit_unknown"):
            canary_bad.append(all_units[i].name)       # every exit reached has a contradictory path condition (or none was reached)
        elif hit:
            ncanary_ok += 1
        elif c.get("exit_unknown"):
            vacuity_unconfirmed.append(all_units[i].name)

    known = load_known()
    failures, undecided = [], []
    nobl = ndis = 0
    functions = []
    samples = []
    solver_ms = 0.0
    backends = set()
    proved_units = bounded_units = 0
    for i, r in zip(indices, results):
        u = all_units[i]
        solver_ms += r["solver_ms"]
        if r["status"] != "ok":
            undecided.append((u.name, r["status"], "; ".join(r["errors"])[:600]))
        uo = ud = 0
        for name, a in sorted(r["obs"].items()):
            uo += 1
            backends.update(a["backend"])
            if a["sat"] == 0 and a["unknown"] == 0:
                ud += 1
            elif a["sat"] > 0:
                failures.append({"unit": u.name, "index": i, "obligation": name, "detail": a["fail"]["detail"],
                                 "model": a["fail"]["model"], "bounded": u.bounded})
            else:
                undecided.append((u.name, "solver-unknown", name + " " + str(a.get("unk", ""))))
        if uo == 0 and r["status"] == "ok":
            undecided.append((u.name, "vacuous", "unit generated zero obligations"))
        if u.bounded:
            bounded_units += 1
        else:
            proved_units += 1
            nobl += uo
            ndis += ud
        sha = None
        if u.target and "::" in u.target and repo.exists(u.target):
            sha = repo.sha(u.target)
        functions.append({"unit": u.name, "target": u.target, "sha256": sha, "paths": r["paths"],
                          "obligations": uo, "discharged": ud, "solver_ms": round(r["solver_ms"], 1),
                          "status": r["status"], "bounded": u.bounded, "wall_s": round(r["wall"], 2)})
        for name, a in list(sorted(r["obs"].items()))[:2]:
            if len(samples) < 12:
                samples.append({"obligation": name, "instances": a["instances"],
                                "status": "unsat(discharged)" if a["sat"] == 0 and a["unknown"] == 0 else "NOT discharged"})

    # bounded stand-ins on the real code
    bounded = []
    if hasattr(mod, "bounded") and not args.no_bounded and args.only is None:
        try:
            bres = list(mod.bounded(tier, seed))
        except Exception as e:   # the real code could not even be driven (e.g. the interpreter fails to start on this tree)
            import traceback
            tb = traceback.format_exc().strip().splitlines()
            bres = [BoundedResult("bounded stand-in could not run on this tree", "n/a", 1, 1,
                                  [{"id": "bounded:harness-could-not-drive-the-real-code", "input": "constructing/driving the interpreter of this tree",
                                    "observed": f"{type(e).__name__}: {e} ({tb[-3] if len(tb) > 2 else ''})", "expected": "the stand-in runs"}])]
        for b in bres:
            bounded.append(b)
            seen_ids = set()
            for f in b.failures:
                if f.get("id", b.name) in seen_ids:
                    continue
                seen_ids.add(f.get("id", b.name))
                failures.append({"unit": b.name, "index": None, "obligation": f.get("id", b.name),
                                 "detail": f"bounded stand-in: input={f.get('input')} observed={f.get('observed')} expected={f.get('expected')}",
                                 "model": {}, "bounded": b.bound, "replayed": f, "witness": str(f.get("input"))})

    # classify failures: known finding or violation (with replay)
    violations, known_lines = [], []
    known_obl = set()
    replay_cache = {}
    os.makedirs(os.path.join(VERIF, "replays"), exist_ok=True)
    for f in failures:
        wit = f.get("witness")
        k = known_match(known, prop, f["obligation"], wit)
        if k is not None:
            line = f"KNOWN-FINDING: property={prop} {k.get('what', f['obligation'])}"
            if line not in known_lines:
                known_lines.append(line)
            if f["index"] is not None:
                known_obl.add(f["obligation"])
            continue
        rep = f.get("replayed")
        if rep is None and f["index"] is not None and all_units[f["index"]].replay is not None:
            rfn = all_units[f["index"]].replay
            key = getattr(rfn, "__qualname__", "") + ":" + str(getattr(rfn, "__code__", None) and rfn.__code__.co_firstlineno)
            cacheable = getattr(rfn, "__closure__", None) is None     # plain functions replay a fixed domain: run once
            if cacheable and key in replay_cache:
                rep = replay_cache[key]
            else:
                try:
                    rep = rfn(f)
                except Exception as e:  # replay harness problems never hide the violation
                    rep = {"reproduced": False, "error": repr(e)}
                if cacheable:
                    replay_cache[key] = rep
        reproduced = bool(rep and rep.get("reproduced", True) and "input" in rep)
        h = hashlib.sha1((f["obligation"] + str(wit)).encode()).hexdigest()[:10]
        path = os.path.join(VERIF, "replays", f"{prop}-{h}.json")
        with open(path, "w") as fh:
            json.dump({"property": prop, "failed_obligation": f["obligation"], "unit": f["unit"],
                       "solver_detail": f["detail"], "solver_model": f["model"], "replay": rep,
                       "reproduced_on_real_code": reproduced, "repo": repo_root(),
                       "how_to_rerun": f"cd {VERIF} && ./check {prop} --only '{f['unit']}'"}, fh, indent=1, default=str)
        violations.append((f, path, reproduced))

    wall = time.time() - t0
    if not args.no_evidence and args.only is None:
        write_evidence(mod, prop, tier, seed, nobl, ndis, functions, samples, bounded, violations, known_lines,
                       undecided, solver_ms, backends, wall, ncanary_ok, canary_bad, sorted(known_obl), vacuity_unconfirmed)

    for line in known_lines:
        print(line)
    if args.verbose or undecided or violations:
        for fn in functions:
            if args.verbose or fn["status"] != "ok" or fn["obligations"] != fn["discharged"]:
                print(f"  unit {fn['unit']}: {fn['discharged']}/{fn['obligations']} discharged, {fn['paths']} paths, "
                      f"{fn['wall_s']}s, status={fn['status']}")
    print(f"{prop} tier={tier}: {ndis}/{nobl} proof obligations discharged in {proved_units} units "
          f"({bounded_units} symbolic-bounded units, {len(bounded)} bounded stand-ins), "
          f"{len(violations)} violations, {len(undecided)} undecided, {wall:.1f}s")
    if canary_bad:
        print(f"VACUITY property={prop} canary did not fail for: {canary_bad}")
        return 3
    if violations:
        for f, path, reproduced in violations:
            tail = "" if reproduced else " no-failing-input-found"
            print(f"  failed obligation: {f['obligation']} :: {f['detail'][:300]}")
            print(f"VIOLATION property={prop} replay={path}{tail}")
        for u in undecided:
            print(f"UNDECIDED property={prop} unit={u[0]} reason={u[1]} {u[2][:400]}")
        return 1
    if undecided:
        for u in undecided:
            print(f"UNDECIDED property={prop} unit={u[0]} reason={u[1]} {u[2][:400]}")
        return 2
    return 0


def write_evidence(mod, prop, tier, seed, nobl, ndis, functions, samples, bounded, violations, known_lines,
                   undecided, solver_ms, backends, wall, ncanary_ok, canary_bad, known_obl=(), vacuity_unconfirmed=()):
    level = getattr(mod, "LEVEL", "proof")
    cov = {
        # obligations that fail exactly as a listed known finding are reported separately (they are not discharged and
        # not claimed); `obligations` counts the ones this run set out to discharge
        "obligations": nobl - len(known_obl),
        "obligations_failing_as_listed_known_findings": list(known_obl),
        "discharged": ndis,
        "checker_cmd": f"./check {prop} --tier {tier}  (pyvc: VC generation from $VERIF_REPO/src/ckl/*.py via ast, z3 "
                       f"{_z3v()} per obligation per path, cvc5 1.0.3 for z3 unknowns)",
        "trusted_base": getattr(mod, "TRUSTED", []) + [
            "pyvc VC generator and its encoding of Python semantics (DESIGN.md 2.4)", "z3 / cvc5 soundness"],
        "back_ends": sorted(backends) or ["z3"],
        "solver_ms": round(solver_ms, 1),
        "functions_under_contract": functions,
        "samples": samples or [{"note": "no obligations"}],
        "bounded_stand_ins": [b.as_dict() for b in bounded],
        "evaluations": sum(b.evaluations for b in bounded) + sum(f["paths"] for f in functions),
        "distinct_nontrivial": max(2, sum(b.distinct for b in bounded) + nobl),
        "rule": "obligations are distinct by name <unit>#<kind>@<anchor>; bounded stand-ins count distinct inputs",
        "canaries_failed_as_expected": ncanary_ok,
        "canaries_vacuous": canary_bad,
        "vacuity_check_undecided_by_both_solvers": list(vacuity_unconfirmed),
        "known_findings_reported": known_lines,
        "undecided": [list(u) for u in undecided],
        "explanation": getattr(mod, "EXPLANATION", ""),
        "exhaustive": False,
    }
    ev = {"property_id": prop, "tier": tier, "seed": seed, "level": level, "coverage": cov,
          "assumptions": getattr(mod, "ASSUMPTIONS", []), "wall_s": round(wall, 2), "violations": len(violations)}
    os.makedirs(os.path.join(VERIF, "evidence"), exist_ok=True)
    with open(os.path.join(VERIF, "evidence", f"{prop}.json"), "w") as f:
        json.dump(ev, f, indent=1, default=str)


def _z3v():
    import z3
    return z3.get_version_string()
