"""Module loading from the real source, builtin / stdlib models (assumed contracts, DESIGN.md section 5)."""
import ast
import z3

from .values import (
    Sym, SInt, SBool, SFloat, SStr, SElem, SChar, Obj, PList, PDict, PSet, PyClass, PyFunc,
    BoundMethod, Builtin, ModuleRef, SuperProxy, HeapObj,
    zi, zr, zb, zs, mk_int, mk_bool, mk_str, mk_float, is_intlike, is_floatlike, is_numlike, is_strlike,
)
from .path import Path, Results, OutOfSubset
from .interp import (Interp, Frame, PyRaise, RangeVal, DictView, GenVal, BoundMethod2, AbstractCallable,
                     _native, _tn)
from .source import Repo, anchor

EXC_TREE = {
    "BaseException": None, "Exception": "BaseException", "ArithmeticError": "Exception",
    "ZeroDivisionError": "ArithmeticError", "OverflowError": "ArithmeticError", "LookupError": "Exception",
    "IndexError": "LookupError", "KeyError": "LookupError", "ValueError": "Exception", "TypeError": "Exception",
    "AttributeError": "Exception", "NameError": "Exception", "RuntimeError": "Exception",
    "RecursionError": "RuntimeError", "OSError": "Exception", "FileNotFoundError": "OSError",
    "UnicodeDecodeError": "ValueError", "re.error": "Exception", "StopIteration": "Exception",
    "NotImplementedError": "RuntimeError", "UnboundLocalError": "NameError", "JSONDecodeError": "ValueError",
    "PermissionError": "OSError", "FileExistsError": "OSError", "IsADirectoryError": "OSError",
    "NotADirectoryError": "OSError", "AssertionError": "Exception", "UnicodeEncodeError": "ValueError",
    "LookupErrorCodec": "LookupError", "KeyboardInterrupt": "BaseException", "EOFError": "Exception",
    "shutil.Error": "OSError", "subprocess.SubprocessError": "Exception", "MemoryError": "Exception",
}

EXTERNAL = {"math", "os", "re", "datetime", "json", "random", "shutil", "subprocess", "platform", "pkgutil",
            "functools", "sys", "os.path"}


class World:
    def __init__(self, repo=None):
        self.repo = repo or Repo()
        self.modules = {}
        self.builtin_classes = {}
        self.object_cls = PyClass("object", None, [], builtin=True)
        self.builtin_classes["object"] = self.object_cls
        for n in ("int", "float", "str", "bool", "list", "dict", "set", "tuple", "datetime", "type", "NoneType",
                  "Pattern", "file"):
            self.builtin_classes[n] = PyClass(n, None, [self.object_cls], builtin=True)
        self.builtin_classes["bool"] = PyClass("bool", None, [self.builtin_classes["int"]], builtin=True)
        for n in EXC_TREE:
            self.builtin_class(n)
        self.PYPOW = z3.Function("pypow", z3.IntSort(), z3.IntSort(), z3.IntSort())
        self.POW2 = z3.Function("pow2", z3.IntSort(), z3.IntSort())
        self.FLOATREPR = z3.Function("float_repr", z3.RealSort(), z3.StringSort())
        self.STRREPR = z3.Function("str_repr", z3.StringSort(), z3.StringSort())
        self.HNUM = z3.Function("hash_num", z3.RealSort(), z3.IntSort())
        # str hashes are randomised per process (PYTHONHASHSEED): a function of the process as well as of the text; a relational
        # unit runs the code under two values of it.ghost["process"]
        self.HSTR = z3.Function("hash_str", z3.IntSort(), z3.StringSort(), z3.IntSort())
        self.BITFN = {k: z3.Function("py_bit" + k, z3.IntSort(), z3.IntSort(), z3.IntSort())
                      for k in ("and", "or", "xor")}
        self.UPPER = z3.Function("str_upper", z3.StringSort(), z3.StringSort())
        self.LOWER = z3.Function("str_lower", z3.StringSort(), z3.StringSort())
        self.STRIP = z3.Function("str_strip", z3.StringSort(), z3.StringSort())
        self.INTPARSE = {}
        self.hooks = {}          # customisation points set by contracts
        self.elem_kinds = {}     # typed symbolic lists: kind -> (wrap(it, z), unwrap(it, v) -> z | None)
        self.builtin_classes["file"].methods["read"] = Builtin("file.read", lambda it, a, k, n: a[0].fields.get("_content", ""))
        self.builtin_classes["file"].methods["close"] = Builtin("file.close", lambda it, a, k, n: None)
        self.builtins = self._make_builtins()
        self._loading = set()
        self.boot = Interp(self, Path([], Results()), {"target": "<module-init>"})

    # ------------------------------------------------------------------ classes
    def builtin_class(self, name):
        c = self.builtin_classes.get(name)
        if c is None:
            parent = EXC_TREE.get(name, "Exception")
            bases = [self.builtin_class(parent)] if parent else [self.object_cls]
            c = PyClass(name, None, bases, builtin=True)
            self.builtin_classes[name] = c
        return c

    def is_exception_class(self, cls):
        return self.builtin_class("BaseException") in cls.mro

    # ------------------------------------------------------------------ modules
    def import_module(self, name):
        if name in EXTERNAL or name.split(".")[0] in EXTERNAL:
            m = self.modules.get(name)
            if m is None:
                m = ModuleRef(name, external=True)
                self.modules[name] = m
            return m
        if name == "ckl":
            return ModuleRef("ckl", {"__pkg__": True})
        if name not in self.repo.modules:
            # an unknown host module: opaque (calling into it is default-deny: effectful / out-of-subset)
            m = self.modules.get(name)
            if m is None:
                m = ModuleRef(name, external=True)
                self.modules[name] = m
            return m
        m = self.modules.get(name)
        if m is None:
            m = ModuleRef(name, {"__name__": name})
            self.modules[name] = m
            self._exec_module(m)
        return m

    def _exec_module(self, m):
        src = self.repo.modules[m.name]
        frame = Frame(None, m, m.ns)
        it = self.boot
        for node in src.tree.body:
            if isinstance(node, ast.ClassDef):
                m.ns[node.name] = self.make_class(node, m, frame)
            elif isinstance(node, ast.FunctionDef):
                m.ns[node.name] = self._decorated(PyFunc(node, m), node)
            elif isinstance(node, (ast.Import, ast.ImportFrom)):
                self._import_stmt(node, m)
            elif isinstance(node, (ast.Assign, ast.AugAssign, ast.Expr)):
                if isinstance(node, ast.Expr) and isinstance(node.value, ast.Constant):
                    continue
                try:
                    it.exec_stmt(node, frame)
                except OutOfSubset:
                    # module-level value the engine cannot compute (e.g. seed = random.random()): opaque
                    if isinstance(node, ast.Assign):
                        for t in node.targets:
                            if isinstance(t, ast.Name):
                                m.ns[t.id] = SElem(z3.Int("modinit." + m.name + "." + t.id), "modinit")
            elif isinstance(node, ast.If):
                continue  # `if __name__ == "__main__"`
            else:
                raise OutOfSubset(f"module-level statement {type(node).__name__} in {m.name}")
        for v in list(m.ns.values()):
            self._mark_global(v, set())

    def _mark_global(self, v, seen):
        if id(v) in seen:
            return
        seen.add(id(v))
        if isinstance(v, HeapObj):
            v.fresh = False
            v.glob = True
            if isinstance(v, Obj):
                for x in v.fields.values():
                    self._mark_global(x, seen)
            elif isinstance(v, PList) and v.items is not None:
                for x in v.items:
                    self._mark_global(x, seen)

    def _import_stmt(self, node, m):
        if isinstance(node, ast.Import):
            for a in node.names:
                if a.name.startswith("ckl."):
                    m.ns["ckl"] = ModuleRef("ckl", {"__pkg__": True})
                else:
                    m.ns[a.asname or a.name] = self.import_module(a.name)
        else:
            modname = node.module
            if modname in self._loading:
                raise OutOfSubset("circular import " + modname)
            if modname in self.repo.modules and modname not in self.modules:
                self._loading.add(modname)
                try:
                    self.import_module(modname)
                finally:
                    self._loading.discard(modname)
            mod = self.import_module(modname)
            for a in node.names:
                if mod.external:
                    m.ns[a.asname or a.name] = self.external_attr(self.boot, mod, a.name, node)
                else:
                    m.ns[a.asname or a.name] = mod.ns[a.name]

    def _decorated(self, fn, node):
        """decorators change what a name denotes: the transparent ones are modelled, a memoising one makes every result a
        shared object, any other makes calls to the function out of subset (never silently ignored)"""
        for d in node.decorator_list:
            dn = ast.unparse(d)
            base = dn.split("(")[0].split(".")[-1]
            if dn in ("classmethod", "staticmethod"):
                continue
            if base in ("lru_cache", "cache", "cached_property"):
                fn.memoized = True
            else:
                fn.unknown_decorator = dn
        return fn

    def make_class(self, node, m, frame):
        bases = []
        for b in node.bases:
            bv = self.boot.eval(b, frame)
            if not isinstance(bv, PyClass):
                raise OutOfSubset("class base " + ast.unparse(b))
            bases.append(bv)
        if not bases:
            bases = [self.object_cls]
        cls = PyClass(node.name, m, bases, node)
        for d in node.decorator_list:
            if ast.unparse(d).endswith("total_ordering"):
                cls.total_ordering = True
            else:
                cls.unknown_decorator = ast.unparse(d)
        for item in node.body:
            if isinstance(item, ast.FunctionDef):
                kind = "function"
                for d in item.decorator_list:
                    dn = ast.unparse(d)
                    if dn == "classmethod":
                        kind = "classmethod"
                    elif dn == "staticmethod":
                        kind = "staticmethod"
                cls.methods[item.name] = self._decorated(PyFunc(item, m, cls, kind), item)
            elif isinstance(item, ast.Assign):
                v = self.boot.eval(item.value, frame)
                for t in item.targets:
                    if isinstance(t, ast.Name):
                        cls.attrs[t.id] = v
            elif isinstance(item, (ast.Pass, ast.Expr)):
                pass
            else:
                raise OutOfSubset("class body statement " + type(item).__name__)
        return cls

    def lookup_global(self, interp, module, name, node=None):
        ov = interp.global_overlay.get((module.name, name), _MISSING)
        if ov is not _MISSING:
            return ov
        if name in module.ns:
            return module.ns[name]
        if module.ns.get("__pkg__"):
            return self.import_module("ckl." + name)
        if name in self.builtins:
            return self.builtins[name]
        if name in self.builtin_classes:
            return self.builtin_classes[name]
        import builtins as _b
        if hasattr(_b, name):
            # a builtin of the host language the engine has no model for: the unit leaves the subset (undecided) --
            # claiming a NameError here would be a false alarm on a harmless rewrite
            raise OutOfSubset(f"host builtin `{name}` is not modelled")
        interp.throw("NameError", f"name '{name}' is not defined", node)

    def set_global(self, interp, module, name, v):
        interp.global_overlay[(module.name, name)] = v
        interp.effects.append(("global-write", module.name + "." + name))

    def func(self, target):
        """PyFunc for 'file.py::Class.method' / 'file.py::function' from the real source."""
        file, _, qual = target.partition("::")
        short = file[:-3] if file.endswith(".py") else file
        m = self.import_module("ckl." + short)
        if "." in qual:
            cname, mname = qual.split(".", 1)
            cls = m.ns[cname]
            f = cls.methods.get(mname)
            if f is None:
                raise KeyError(target)
            return f
        f = m.ns.get(qual)
        if not isinstance(f, PyFunc):
            raise KeyError(target)
        return f

    def cls(self, modshort, name):
        return self.import_module("ckl." + modshort).ns[name]

    def glob(self, modshort, name):
        return self.import_module("ckl." + modshort).ns[name]

    # ------------------------------------------------------------------ hooks with defaults
    def havoc_class(self):
        c = self.builtin_classes.get("HavocObject")
        if c is None:
            c = PyClass("HavocObject", None, [self.object_cls], builtin=True)
            self.builtin_classes["HavocObject"] = c
        return c

    def opaque_check(self, interp, obj, name, node):
        """An opaque value stands for *any* kind: sound only while no concrete kind overrides what is used."""
        subs = self.__dict__.get("_value_subs")
        if subs is None:
            base = self.import_module("ckl.values").ns["Value"]
            subs = []
            for mn in ("ckl.values", "ckl.functions"):
                if mn in self.modules or mn == "ckl.values":
                    for v in self.import_module(mn).ns.values():
                        if isinstance(v, PyClass) and v is not base and v.issubclass(base):
                            subs.append(v)
            self._value_subs = subs
        if name == "type":
            # every concrete kind defines type(): for a value of unknown kind the name is an unknown string
            return Builtin("opaque.type", lambda it, a, k, n: it.fresh_str("typename"))
        if obj.cls.lookup(name) is None:
            raise OutOfSubset(f"kind split needed: attribute '{name}' read on an opaque value at `{anchor(node) if node is not None else ''}`")
        excluded = obj.fields["__opaque__"]
        for c in subs:
            if any(x.name in excluded for x in c.mro):
                continue
            if name in c.methods and c.issubclass(obj.cls) and c is not obj.cls:
                raise OutOfSubset(f"kind split needed: method '{name}' called on an opaque value at `{anchor(node) if node is not None else ''}`")

    def missing_attr(self, interp, obj, name, node):
        if obj.cls.name == "HavocObject":
            raise OutOfSubset(f"use of an object-valued local havocked by a loop without a declared abstraction (attribute {name})")
        h = self.hooks.get("missing_attr")
        if h:
            r = h(interp, obj, name, node)
            if r is not _MISSING:
                return r
        if obj.cls.lookup("__getattr__") is not None or obj.cls.lookup("__getattribute__") is not None:
            interp.unsupported(f"{obj.cls.name}.__getattr__ (attribute protocol not modelled)", node)
        # an object built by a harness (not by the code under contract) lacks a field that the class's own constructor sets: the
        # harness does not know the class any more - that is a contract that no longer fits (undecided), not an AttributeError of the code
        if not getattr(obj, "fresh", True) and self._ctor_sets(obj.cls, name):
            interp.unsupported(f"a harness-built {obj.cls.name} lacks the field `{name}` that {obj.cls.name}.__init__ sets (the harness predates it)", node)
        interp.throw("AttributeError", f"'{obj.cls.name}' object has no attribute '{name}'", node)

    def _ctor_sets(self, cls, name):
        import ast as _ast
        for c in getattr(cls, "mro", [cls]):
            init = getattr(c, "methods", {}).get("__init__")
            fn = getattr(init, "node", None)
            if fn is None:
                continue
            for n_ in _ast.walk(fn):
                if isinstance(n_, _ast.Attribute) and isinstance(n_.ctx, _ast.Store) and n_.attr == name and isinstance(n_.value, _ast.Name) and n_.value.id == "self":
                    return True
        return False

    def elem_eq(self, interp, a, b):
        h = self.hooks.get("elem_eq")
        if h:
            return h(interp, a, b)
        return mk_bool(a.z == b.z)

    def elem_order(self, interp, t, a, b):
        h = self.hooks.get("elem_order")
        if h:
            return h(interp, t, a, b)
        interp.unsupported("ordering of opaque elements")

    def order(self, interp, items, container):
        """Iteration order of a host set/dict. Default: insertion order (dict) / as stored (set).
        The C12 harness installs a hook that returns an arbitrary permutation."""
        h = self.hooks.get("iteration_order")
        if h:
            return h(interp, items, container)
        return items

    def note_hash_use(self, interp, k1, k2, node):
        pass

    def check_hashable(self, interp, k, node):
        h = self.hooks.get("check_hashable")
        if h:
            h(interp, k, node)

    def key_term(self, interp, d, key, node):
        if getattr(d, "key_kind", None) == "str":
            if not is_strlike(key):
                interp.unsupported("non-string key for symbolic string-keyed dict", node)
            return zs(key)
        if isinstance(key, SElem):
            return key.z
        interp.unsupported("key for symbolic dict", node)

    def value_as_elem(self, interp, value, node):
        h = self.hooks.get("value_as_elem")
        if h:
            return h(interp, value, node)
        interp.unsupported(f"storing {_tn(value)} in symbolic dict", node)

    def bitop(self, kind, x, y, interp):
        r = self.BITFN[kind](x, y)
        W = 2 ** 32
        rng = z3.And(x >= 0, x < W, y >= 0, y < W)
        interp.path.assume(z3.Implies(rng, z3.And(r >= 0, r < W)), check=False)
        return r

    def obj_str(self, interp, v, node, which):
        if self.is_exception_class(v.cls) and v.cls.builtin:
            return interp.fresh_str("excmsg")
        if interp.repr_mode == "named" and v.cls.name != "ValueDate":
            # one text constant per object: the same object renders to the same text every time it is asked
            return SStr(z3.String(f"repr<{v.label or v.uid}>"))
        if interp.repr_mode == "opaque" and v.cls.name != "ValueDate":      # (a date's text is a numeral the code computes with)
            r = interp.fresh_str("repr")
            r.opaque = True
            return r
        m = v.cls.lookup("__str__") if which == "__str__" else None
        if not isinstance(m, PyFunc):
            m = v.cls.lookup("__repr__")
        if isinstance(m, PyFunc):
            r = interp.call(BoundMethod(m, v), [], {}, node)
            if not is_strlike(r):
                interp.throw("TypeError", "__repr__ returned non-string", node)
            return r
        return interp.fresh_str("repr")

    def opaque_str(self, interp, v, node):
        if isinstance(v, SElem):
            return SStr(z3.Function("repr_of_" + v.sort, z3.IntSort(), z3.StringSort())(v.z))
        return interp.fresh_str("str")

    def builtin_eq(self, interp, a, b, node):
        """== on builtin-class objects (datetime)."""
        if a.cls.name == "datetime":
            if isinstance(b, Obj) and b.cls.name == "datetime":
                return mk_bool(dt_key(a) == dt_key(b))
            return False
        return None

    def obj_order(self, interp, t, a, b, node):
        if isinstance(a, Obj) and a.cls.name == "datetime" and isinstance(b, Obj) and b.cls.name == "datetime":
            x, y = dt_key(a), dt_key(b)
            return mk_bool({ast.Lt: x < y, ast.LtE: x <= y, ast.Gt: x > y, ast.GtE: x >= y}[t])
        if not (isinstance(a, Obj) and isinstance(b, Obj)):
            o = a if isinstance(a, Obj) else b
            if not o.cls.lookup("__lt__"):
                interp.guard(False, "TypeError", node, "'<' not supported")
        # rich comparison with functools.total_ordering (CPython 3.11 semantics)
        lt = a.cls.lookup("__lt__") if isinstance(a, Obj) else None
        if not isinstance(lt, PyFunc) or not a.cls.total_ordering:
            if isinstance(lt, PyFunc) and t is ast.Lt:
                return interp.call(BoundMethod(lt, a), [b], {}, node)
            if t is ast.Gt and isinstance(b, Obj) and isinstance(b.cls.lookup("__lt__"), PyFunc):
                return interp.call(BoundMethod(b.cls.lookup("__lt__"), b), [a], {}, node)
            interp.guard(False, "TypeError", node, "ordering not supported between instances")
        if t is ast.Lt:
            return interp.call(BoundMethod(lt, a), [b], {}, node)
        r = interp.call(BoundMethod(lt, a), [b], {}, node)
        if t is ast.GtE:        # _ge_from_lt: not op_result
            return interp.neg(r)
        if t is ast.Gt:         # _gt_from_lt: not op_result and self != other
            if interp.truth(r):
                return False
            return interp.neg(interp.eq(a, b, node))
        if t is ast.LtE:        # _le_from_lt: op_result or self == other
            if interp.truth(r):
                return True
            return interp.eq(a, b, node)
        interp.unsupported("comparison operator")

    # ------------------------------------------------------------------ builtin instantiate
    def instantiate_builtin(self, interp, cls, args, kwargs, node):
        if self.is_exception_class(cls):
            return Obj(cls, {"args": tuple(args), "msg": args[0] if args else ""})
        if cls.name == "object":
            return Obj(cls)
        fn = self.builtins.get(cls.name)
        if fn is not None:
            return fn.impl(interp, args, kwargs, node)
        interp.unsupported("instantiate builtin " + cls.name, node)

    # ------------------------------------------------------------------ builtin functions
    def _make_builtins(self):
        B = {}

        def reg(name):
            def deco(f):
                B[name] = Builtin(name, f)
                return f
            return deco

        @reg("len")
        def _len(it, a, k, n):
            v = a[0]
            if isinstance(v, (str, tuple)):
                return len(v)
            if isinstance(v, SStr):
                return 1 if v.code is not None else mk_int(z3.Length(v.z))
            if isinstance(v, PList):
                return it.list_len(v)
            if isinstance(v, PDict):
                if v.is_sym():
                    it.unsupported("len of symbolic dict", n)
                return len(v.entries)
            if isinstance(v, PSet):
                return len(v.items)
            if isinstance(v, DictView):
                return len(v.d.entries)
            if isinstance(v, Obj):
                m = v.cls.lookup("__len__")
                if m is not None:
                    return it.call(BoundMethod(m, v), [], {}, n)
            if hasattr(v, "length"):
                return v.length
            it.dunder_or_typeerror(v, ("__len__",), n, f"object of type {_tn(v)} has no len()")

        @reg("str")
        def _str(it, a, k, n):
            if not a:
                return ""
            return it.py_str(a[0], n)

        @reg("repr")
        def _repr(it, a, k, n):
            return it.py_repr(a[0], n)

        @reg("isinstance")
        def _isinstance(it, a, k, n):
            v, c = a
            classes = list(c) if isinstance(c, tuple) else [c]
            for cl in classes:
                if self._isinstance1(it, v, cl, n):
                    return True
            return False

        @reg("range")
        def _range(it, a, k, n):
            for x in a:
                if not is_intlike(x):
                    it.guard(False, "TypeError", n, f"'{_tn(x)}' object cannot be interpreted as an integer")
            if len(a) == 1:
                return RangeVal(0, a[0], 1)
            if len(a) == 2:
                return RangeVal(a[0], a[1], 1)
            if isinstance(a[2], int):
                if a[2] == 0:
                    it.throw("ValueError", "range() arg 3 must not be zero", n)
                return RangeVal(a[0], a[1], a[2])
            # symbolic step: zero is a ValueError (decided first), then the sign is split: +1 / -1 / other magnitudes
            it.guard(mk_bool(zi(a[2]) != 0), "ValueError", n, "range() arg 3 must not be zero")
            if it.path.branch(zi(a[2]) == 1):
                return RangeVal(a[0], a[1], 1)
            if it.path.branch(zi(a[2]) == -1):
                return RangeVal(a[0], a[1], -1)
            it.unsupported("range with a symbolic step other than 1 or -1", n)

        @reg("int")
        def _int(it, a, k, n):
            if not a:
                return 0
            v = a[0]
            base = a[1] if len(a) > 1 else k.get("base")
            if base is not None:
                if not is_strlike(v):
                    it.guard(False, "TypeError", n, "int() can't convert non-string with explicit base")
                return self.parse_int(it, v, base, n)
            if isinstance(v, (int, float)) and not isinstance(v, bool):
                try:
                    return int(v)
                except (OverflowError, ValueError) as e:
                    it.throw(type(e).__name__, str(e), n)
            if is_intlike(v):
                return mk_int(zi(v))
            if isinstance(v, SFloat):
                return mk_int(trunc_real(v.z))
            if is_strlike(v):
                return self.parse_int(it, v, 10, n)
            it.guard(False, "TypeError", n, f"int() argument must be a string or a number, not '{_tn(v)}'")

        @reg("float")
        def _float(it, a, k, n):
            v = a[0]
            if isinstance(v, (int, float)) and not isinstance(v, bool):
                try:
                    return float(v)
                except OverflowError as e:
                    it.throw("OverflowError", str(e), n)
            if is_intlike(v):
                # float(int): may overflow beyond 1.8e308
                lim = z3.IntVal(2 ** 1024)
                it.guard(mk_bool(z3.And(zi(v) < lim, zi(v) > -lim)), "OverflowError", n, "int too large to convert to float")
                r = it.exact_int_float(zi(v))
                if r is not None:
                    return r
                return mk_float(it.rnd(z3.ToReal(zi(v))))
            if isinstance(v, SFloat):
                return v
            if isinstance(v, str):
                try:
                    return float(v)
                except ValueError as e:
                    it.throw("ValueError", str(e), n)
            if isinstance(v, SStr):
                ok = it.fresh_bool("float_ok")
                # assumed contract of float(): digits '.' digits* is a valid literal
                DIG_ = z3.Range("0", "9")
                it.path.assume(z3.Implies(z3.InRe(v.z, z3.Concat(z3.Plus(DIG_), z3.Re(z3.StringVal(".")), z3.Star(DIG_))), ok.z), check=False)
                it.guard(ok, "ValueError", n, "could not convert string to float")
                return it.fresh_float("parsed")
            it.guard(False, "TypeError", n, "float() argument must be a string or a number")

        @reg("bool")
        def _bool(it, a, k, n):
            return it.truth(a[0]) if a else False

        @reg("hash")
        def _hash(it, a, k, n):
            return self.py_hash(it, a[0], n)

        @reg("abs")
        def _abs(it, a, k, n):
            v = a[0]
            if isinstance(v, (int, float)):
                return abs(v)
            if is_intlike(v):
                return mk_int(z3.If(zi(v) >= 0, zi(v), -zi(v)))
            if is_floatlike(v):
                return mk_float(z3.If(zr(v) >= 0, zr(v), -zr(v)))
            it.guard(False, "TypeError", n, "bad operand type for abs()")

        @reg("divmod")
        def _divmod(it, a, k, n):
            if len(a) != 2 or k or not (is_intlike(a[0]) and is_intlike(a[1])):
                it.unsupported("divmod() other than of two ints", n)
            return (it.binop(ast.FloorDiv(), a[0], a[1], n), it.binop(ast.Mod(), a[0], a[1], n))

        @reg("min")
        def _min(it, a, k, n):
            return self._minmax(it, a, n, True)

        @reg("max")
        def _max(it, a, k, n):
            return self._minmax(it, a, n, False)

        @reg("sorted")
        def _sorted(it, a, k, n):
            items = list(it.iterate(a[0], n))
            h = self.hooks.get("sorted")
            if h:
                if h.__code__.co_argcount >= 5:
                    return h(it, items, a[0], n, k)
                if k:
                    it.unsupported("sorted() with key= / reverse= under a contract that abstracts sorted()", n)
                return h(it, items, a[0], n)
            if k.get("key") is not None:
                # decorate - sort - undecorate (stable), as CPython does
                keys = [it.call(k["key"], [x], {}, n) for x in items]
                order = self.sort_items(it, [(kx, i) for i, kx in enumerate(keys)], n, by_first=True)
                items = [items[i] for _, i in order]
            else:
                items = self.sort_items(it, items, n)
            if k.get("reverse") is not None and it.truth(k["reverse"]):
                # reverse=True keeps the original order of equal elements: sort the reversed input, then reverse
                it.unsupported("sorted(reverse=True)", n)
            return PList(items)

        @reg("list")
        def _list(it, a, k, n):
            if not a:
                return PList([])
            if isinstance(a[0], PList) and a[0].is_sym():
                return PList(sym=a[0].sym, kind=a[0].kind)
            return PList(list(it.iterate(a[0], n)))

        @reg("format")
        def _format(it, a, k, n):
            # format(value, spec): some text (the callers under contract only pass numbers and fixed specs)
            if len(a) > 1 and not is_strlike(a[1]):
                it.guard(False, "TypeError", n, "format() argument 2 must be str")
            r = it.fresh_str("formatted")
            it.path.assume(z3.Length(r.z) >= 1, check=False)
            return r

        @reg("iter")
        def _iter(it, a, k, n):
            # an iterator over a concrete spine: a one-shot cursor (a list iterator sees later appends, as in CPython)
            src = a[0]
            if isinstance(src, IterVal):
                return src
            if isinstance(src, PList) and not src.is_sym():
                return IterVal(src, None)
            return IterVal(None, list(it.iterate(src, n)))

        @reg("next")
        def _next(it, a, k, n):
            iv = a[0]
            if isinstance(iv, CounterVal):
                # a process-wide counter: its state when the unit starts is unknown; successive values increase strictly
                cur = it.fresh_int("count")
                key = ("counter", id(iv))
                if it.ghost.get(key) is not None:         # (per path: the interpreter object is rebuilt for every path)
                    it.path.assume(cur.z > it.ghost[key].z, check=False)
                it.ghost[key] = cur
                return cur
            if not isinstance(iv, IterVal):
                it.guard(False, "TypeError", n, "object is not an iterator")
            r = iv.step()
            if r is IterVal.DONE:
                if len(a) > 1:
                    return a[1]
                it.throw("StopIteration", "", n)
            return r

        @reg("tuple")
        def _tuple(it, a, k, n):
            return tuple(it.iterate(a[0], n)) if a else ()

        @reg("set")
        def _set(it, a, k, n):
            s = PSet()
            if a:
                for x in it.iterate(a[0], n):
                    it.set_add(s, x, n)
            return s

        @reg("dict")
        def _dict(it, a, k, n):
            d = PDict()
            if a:
                src = a[0]
                if isinstance(src, PDict):
                    for kk, vv in src.entries:
                        d.entries.append([kk, vv])
                else:
                    for pair in it.iterate(src, n):
                        kk, vv = list(it.iterate(pair, n))
                        it.dict_set(d, kk, vv, n)
            for kk, vv in k.items():
                it.dict_set(d, kk, vv, n)
            return d

        @reg("enumerate")
        def _enumerate(it, a, k, n):
            return PList([(i, x) for i, x in enumerate(it.iterate(a[0], n))])

        @reg("zip")
        def _zip(it, a, k, n):
            return PList(list(zip(*[list(it.iterate(x, n)) for x in a])))

        @reg("sum")
        def _sum(it, a, k, n):
            total = a[1] if len(a) > 1 else 0
            for x in it.iterate(a[0], n):
                total = it.binop(ast.Add(), total, x, n)
            return total

        @reg("any")
        def _any(it, a, k, n):
            for x in it.iterate(a[0], n):
                if it.truth(x):
                    return True
            return False

        @reg("all")
        def _all(it, a, k, n):
            for x in it.iterate(a[0], n):
                if not it.truth(x):
                    return False
            return True

        @reg("chr")
        def _chr(it, a, k, n):
            v = a[0]
            if not is_intlike(v):
                it.guard(False, "TypeError", n, "an integer is required")
            if isinstance(v, int):
                try:
                    return chr(v)
                except (ValueError, OverflowError) as e:
                    it.throw(type(e).__name__, str(e), n)
            it.guard(mk_bool(z3.And(v.z >= 0, v.z < 0x110000)), "ValueError", n, "chr() arg not in range(0x110000)")
            return SChar(v.z)

        @reg("ord")
        def _ord(it, a, k, n):
            v = a[0]
            if not is_strlike(v):
                it.guard(False, "TypeError", n, "ord() expected string of length 1")
            if isinstance(v, str):
                try:
                    return ord(v)
                except TypeError as e:
                    it.throw("TypeError", str(e), n)
            if v.code is not None:
                return mk_int(v.code)
            it.guard(mk_bool(z3.Length(v.z) == 1), "TypeError", n, "ord() expected a character")
            return mk_int(z3.StrToCode(v.z))

        @reg("round")
        def _round(it, a, k, n):
            v = a[0]
            nd = a[1] if len(a) > 1 else None
            if isinstance(v, (int, float)) and (nd is None or isinstance(nd, int)):
                return round(v, nd) if nd is not None else round(v)
            if is_intlike(v):
                return v
            if nd is None and isinstance(v, SFloat) and v.intz is not None:
                return mk_int(v.intz)
            if nd is None:
                r = it.fresh_int("round")
                it.path.assume(z3.And(z3.ToReal(r.z) - zr(v) <= z3.RealVal("1/2"), zr(v) - z3.ToReal(r.z) <= z3.RealVal("1/2")), check=False)
                return r
            return it.fresh_float("round")

        @reg("print")
        def _print(it, a, k, n):
            it.effects.append(("print", n))
            return None

        @reg("type")
        def _type(it, a, k, n):
            v = a[0]
            if isinstance(v, Obj):
                return v.cls
            # host kinds: the very object the names `str`, `int`, ... denote, so that `type(x) == str` / `is int` hold
            nm = "bool" if isinstance(v, (bool, SBool)) else _tn(v)
            if nm in ("str", "int", "float", "bool", "list", "dict", "set", "tuple") and nm in self.builtins:
                return self.builtins[nm]
            return self.builtin_classes.get(nm, self.object_cls)

        @reg("open")
        def _open(it, a, k, n):
            it.effects.append(("open", n))
            h = self.hooks.get("open")
            if h:
                return h(it, a, k, n)
            # abstract file system: the file is there or it is not
            if it.path.choose(2) == 1:
                it.throw("FileNotFoundError", "No such file", n)
            return Obj(self.builtin_classes["file"], {"_content": it.fresh_str("filetext")})

        @reg("callable")
        def _callable(it, a, k, n):
            return isinstance(a[0], (PyFunc, BoundMethod, Builtin, PyClass, AbstractCallable))

        @reg("getattr")
        def _getattr(it, a, k, n):
            return it.getattr(a[0], a[1], n)

        @reg("hasattr")
        def _hasattr(it, a, k, n):
            try:
                it.getattr(a[0], a[1], n)
                return True
            except PyRaise:
                return False

        @reg("id")
        def _id(it, a, k, n):
            return getattr(a[0], "uid", 0)

        return B

    def _isinstance1(self, it, v, cl, n):
        if isinstance(cl, Builtin) and cl.name in self.builtin_classes:
            cl = self.builtin_classes[cl.name]
        if not isinstance(cl, PyClass):
            it.guard(False, "TypeError", n, "isinstance() arg 2 must be a type")
        if isinstance(v, Obj):
            return v.cls.issubclass(cl)
        name = cl.name
        if isinstance(v, (bool, SBool)):
            return name in ("bool", "int", "object")
        if isinstance(v, (int, SInt)):
            return name in ("int", "object")
        if isinstance(v, (float, SFloat)):
            return name in ("float", "object")
        if isinstance(v, (str, SStr)):
            return name in ("str", "object")
        if isinstance(v, PList):
            return name in ("list", "object")
        if isinstance(v, PDict):
            return name in ("dict", "object")
        if isinstance(v, PSet):
            return name in ("set", "object")
        if isinstance(v, tuple):
            return name in ("tuple", "object")
        if isinstance(v, SElem):
            h = self.hooks.get("elem_isinstance")
            if h:
                return h(it, v, cl, n)
            return name == "object"
        return name == "object"

    def _minmax(self, it, a, n, is_min):
        items = list(a) if len(a) > 1 else list(it.iterate(a[0], n))
        if not items:
            it.throw("ValueError", "min()/max() arg is an empty sequence", n)
        best = items[0]
        for x in items[1:]:
            if all(is_intlike(v) for v in (best, x)):
                c = zi(x) < zi(best) if is_min else zi(x) > zi(best)
                best = mk_int(z3.If(c, zi(x), zi(best)))
            else:
                c = it.compare(ast.Lt() if is_min else ast.Gt(), x, best, n)
                if it.truth(c):
                    best = x
        return best

    def sort_items(self, it, items, n, by_first=False):
        out = []
        for x in items:
            pos = len(out)
            # stable insertion: insert after the last element that is <= x, i.e. before first y with x < y
            for i, y in enumerate(out):
                if it.truth(it.compare(ast.Lt(), x[0] if by_first else x, y[0] if by_first else y, n)):
                    pos = i
                    break
            out.insert(pos, x)
        return out

    def parse_int(self, it, v, base, n):
        if isinstance(v, str) and isinstance(base, int):
            try:
                return int(v, base)
            except ValueError as e:
                it.throw("ValueError", str(e), n)
        if not isinstance(base, int):
            it.unsupported("symbolic base", n)
        if base == 10 and isinstance(v, SStr) and v.digits_only is not False and v.digits_only is not True:
            # a numeral produced by a host formatting function from a known number (strftime, zfill of it): int() reads that
            # number back - no string reasoning
            return mk_int(v.digits_only)
        key = base
        if key not in self.INTPARSE:
            self.INTPARSE[key] = (z3.Function(f"int_ok_{base}", z3.StringSort(), z3.BoolSort()),
                                  z3.Function(f"int_of_{base}", z3.StringSort(), z3.IntSort()))
        okf, valf = self.INTPARSE[key]
        s = zs(v)
        h = self.hooks.get("parse_int_facts")
        if h:
            h(it, s, base, okf, valf)
        if base == 10:
            # digits only => valid and equal to str.to_int (assumed contract of int())
            digits = z3.InRe(s, z3.Plus(z3.Range("0", "9")))
            it.path.assume(z3.Implies(digits, z3.And(okf(s), valf(s) == z3.StrToInt(s))), check=False)
        it.path.assume(z3.Implies(z3.Length(s) == 0, z3.Not(okf(s))), check=False)
        # assumed contract of int(): a numeral never contains a quote character
        it.path.assume(z3.Implies(okf(s), z3.And(z3.Not(z3.Contains(s, z3.StringVal('"'))), z3.Not(z3.Contains(s, z3.StringVal("'"))))), check=False)
        it.guard(mk_bool(okf(s)), "ValueError", n, f"invalid literal for int() with base {base}")
        return mk_int(valf(s))

    def py_hash(self, it, v, n):
        if isinstance(v, (PList, PDict, PSet)):
            it.guard(False, "TypeError", n, "unhashable type")
        if is_numlike(v):
            return mk_int(self.HNUM(zr(v)))
        if is_strlike(v):
            proc = it.ghost.get("process")
            return mk_int(self.HSTR(proc if proc is not None else z3.Int("process"), zs(v)))
        if v is None:
            return 0
        if isinstance(v, tuple):
            total = 0
            for x in v:
                total = it.binop(ast.Add(), it.binop(ast.Mult(), total, 31, n), self.py_hash(it, x, n), n)
            return total
        if isinstance(v, Obj):
            if v.cls.name == "datetime":
                return mk_int(self.HNUM(z3.ToReal(dt_key(v))))
            m = v.cls.lookup("__hash__")
            if isinstance(m, PyFunc):
                return it.call(BoundMethod(m, v), [], {}, n)
            if v.cls.lookup("__eq__") is not None and m is None:
                it.guard(False, "TypeError", n, "unhashable type")
            return v.uid
        if isinstance(v, SElem):
            h = self.hooks.get("elem_hash")
            if h:
                return h(it, v, n)
            return mk_int(z3.Function("hash_elem", z3.IntSort(), z3.IntSort())(v.z))
        it.unsupported("hash of " + _tn(v), n)

    # ------------------------------------------------------------------ attributes of builtin values
    def builtin_attr(self, it, obj, name, node):
        if is_strlike(obj):
            return self.str_method(it, obj, name, node)
        if isinstance(obj, PList):
            return self.list_method(it, obj, name, node)
        if isinstance(obj, PDict):
            return self.dict_method(it, obj, name, node)
        if isinstance(obj, PSet):
            return self.set_method(it, obj, name, node)
        if isinstance(obj, DictView):
            if name == "values" and obj.kind == "values":
                pass
            it.throw("AttributeError", f"'dict_{obj.kind}' object has no attribute '{name}'", node)
        if isinstance(obj, (PyFunc, Builtin)) and name == "__name__":
            return obj.name.split(".")[-1]
        if isinstance(obj, BoundMethod) or isinstance(obj, BoundMethod2) or isinstance(obj, (PyFunc, Builtin)):
            it.throw("AttributeError", f"'method' object has no attribute '{name}'", node)
        if obj is None:
            it.throw("AttributeError", f"'NoneType' object has no attribute '{name}'", node)
        if isinstance(obj, (int, float, bool, SInt, SFloat, SBool, tuple)):
            it.throw("AttributeError", f"'{_tn(obj)}' object has no attribute '{name}'", node)
        if isinstance(obj, SElem):
            h = self.hooks.get("elem_attr")
            if h:
                return h(it, obj, name, node)
        if isinstance(obj, BytesVal):
            if name == "decode":
                return Builtin("bytes.decode", lambda it_, a, k, n: obj.text)
        if hasattr(obj, "py_getattr"):
            return obj.py_getattr(it, name, node)
        it.unsupported(f"attribute {name} of {type(obj).__name__}", node)

    def str_method(self, it, s, name, node):
        def m(f):
            return Builtin("str." + name, f)
        conc = isinstance(s, str)
        if name == "startswith":
            def f(it, a, k, n):
                self._need_str(it, a[0], n)
                if conc and isinstance(a[0], str):
                    return s.startswith(a[0])
                return mk_bool(z3.PrefixOf(zs(a[0]), zs(s)))
            return m(f)
        if name == "endswith":
            def f(it, a, k, n):
                self._need_str(it, a[0], n)
                if conc and isinstance(a[0], str):
                    return s.endswith(a[0])
                return mk_bool(z3.SuffixOf(zs(a[0]), zs(s)))
            return m(f)
        if name in ("find", "rfind"):
            def f(it, a, k, n):
                self._need_str(it, a[0], n)
                for x in a[1:]:
                    if not is_intlike(x):
                        it.guard(False, "TypeError", n, "slice indices must be integers or None")
                if conc and all(_native(x) for x in a):
                    return getattr(s, name)(*a)
                return self.str_find(it, s, a, name == "rfind", n)
            return m(f)
        if name == "replace":
            def f(it, a, k, n):
                self._need_str(it, a[0], n)
                self._need_str(it, a[1], n)
                if conc and all(_native(x) for x in a):
                    return s.replace(*a)
                return mk_str(self.replace_all(zs(s), zs(a[0]), zs(a[1])))
            return m(f)
        if name == "zfill":
            def f(it, a, k, n):
                if len(a) != 1 or not is_intlike(a[0]):
                    it.guard(False, "TypeError", n, "zfill() takes exactly one int")
                if conc and isinstance(a[0], int):
                    return s.zfill(a[0])
                # a digit string (no sign to step over) padded on the left with zeros to the width; the int() model is told that
                # leading zeros do not change the number
                if getattr(s, "digits_only", False) is False:
                    it.unsupported("zfill() of a string that may start with a sign", n)
                z, wd = zs(s), zi(a[0])
                # (stated without string-theory terms, like the strftime numeral itself: an uninterpreted function with the facts
                #  that matter downstream - its length, and that int() reads the same number from it)
                r = ZFILL(z, wd)
                it.path.assume(z3.Length(r) >= wd, check=False)
                if 10 in self.INTPARSE:
                    okf, valf = self.INTPARSE[10]
                    # a digit string stays one, and leading zeros do not change the number int() reads
                    it.path.assume(z3.And(okf(r), valf(r) == valf(z)), check=False)
                out = mk_str(r)
                out.digits_only = s.digits_only      # the number it denotes, if known (leading zeros do not change it)
                return out
            return m(f)
        if name in ("upper", "lower", "strip"):
            def f(it, a, k, n):
                if conc:
                    return getattr(s, name)(*a)
                fn = {"upper": self.UPPER, "lower": self.LOWER, "strip": self.STRIP}[name]
                r = fn(zs(s))
                # assumed builtin contracts: idempotent; strip yields a substring
                it.path.assume(fn(r) == r, check=False)
                if name == "strip":
                    it.path.assume(z3.Contains(zs(s), r), check=False)
                else:
                    it.path.assume(z3.Length(r) >= 0, check=False)
                return mk_str(r)
            return m(f)
        if name == "join":
            def f(it, a, k, n):
                parts = list(it.iterate(a[0], n))
                for p in parts:
                    if not is_strlike(p):
                        it.guard(False, "TypeError", n, "sequence item: expected str instance")
                if conc and all(isinstance(p, str) for p in parts):
                    return s.join(parts)
                out = z3.StringVal("")
                for i, p in enumerate(parts):
                    if i:
                        out = z3.Concat(out, zs(s))
                    out = z3.Concat(out, zs(p))
                return mk_str(out)
            return m(f)
        if name == "split":
            def f(it, a, k, n):
                if conc and all(_native(x) for x in a):
                    return PList(s.split(*a))
                h = self.hooks.get("str_split")
                if h:
                    return h(it, s, a, n)
                it.unsupported("split of symbolic string", n)
            return m(f)
        if name in ("isdigit", "isalpha", "isalnum", "isspace", "isupper", "islower"):
            def f(it, a, k, n):
                if conc:
                    return getattr(s, name)()
                return it.fresh_bool(name)
            return m(f)
        if name == "encode":
            return m(lambda it, a, k, n: BytesVal(s))
        if name == "format":
            return m(lambda it, a, k, n: it.fresh_str("fmt"))
        if name == "value":
            it.throw("AttributeError", "'str' object has no attribute 'value'", node)
        it.throw("AttributeError", f"'str' object has no attribute '{name}'", node)

    def _need_str(self, it, v, n):
        if not is_strlike(v):
            it.guard(False, "TypeError", n, f"must be str, not {_tn(v)}")

    def replace_all(self, s, a, b):
        if hasattr(z3, "ReplaceAll"):
            pass
        # z3py lacks ReplaceAll in some versions: build through the C API name
        try:
            return z3.SeqRef(z3.Z3_mk_seq_replace_all(s.ctx_ref(), s.as_ast(), a.as_ast(), b.as_ast()), s.ctx)
        except Exception:
            f = z3.Function("str_replace_all", z3.StringSort(), z3.StringSort(), z3.StringSort(), z3.StringSort())
            return f(s, a, b)

    def str_find(self, it, s, a, reverse, n):
        """s.find(part[, lo[, hi]]) / rfind: assumed builtin contract, stated over z3 strings."""
        zs_ = zs(s)
        part = zs(a[0])
        ln = z3.Length(zs_)
        lo, hi = it.slice_bounds(a[1] if len(a) > 1 else None, a[2] if len(a) > 2 else None, mk_int(ln))
        if not reverse and len(a) <= 2:
            # find(part, lo) == IndexOf when lo within [0, len]; lo > len gives -1
            raw = a[1] if len(a) > 1 else 0
            r0 = z3.If(zi(raw) > ln, z3.IntVal(-1), z3.IndexOf(zs_, part, lo))
            r = it.fresh_int("find")
            plen = z3.Length(part)
            q = z3.Int(it.fresh("q"))
            occ = lambda p: z3.And(p >= lo, p + plen <= ln, z3.SubString(zs_, p, plen) == part)
            it.path.assume(r.z == r0, check=False)
            it.path.assume(z3.Or(z3.And(r.z == -1, z3.ForAll([q], z3.Not(occ(q)))),
                                 z3.And(occ(r.z), z3.ForAll([q], z3.Implies(z3.And(q < r.z, q >= lo), z3.Not(occ(q)))))),
                           check=False)
            return r
        # general case: result r characterised by first/last occurrence inside the window [lo, hi)
        r = it.fresh_int("rfind" if reverse else "find")
        plen = z3.Length(part)
        occ = lambda p: z3.And(p >= lo, p + plen <= hi, z3.SubString(zs_, p, plen) == part)
        q = z3.Int(it.fresh("q"))
        if reverse:
            extremal = z3.ForAll([q], z3.Implies(z3.And(q > r.z, q <= hi), z3.Not(occ(q))))
        else:
            extremal = z3.ForAll([q], z3.Implies(z3.And(q < r.z, q >= lo), z3.Not(occ(q))))
        none = z3.ForAll([q], z3.Not(occ(q)))
        it.path.assume(z3.Or(z3.And(r.z == -1, none), z3.And(occ(r.z), extremal)), check=False)
        return r

    def list_method(self, it, lst, name, node):
        def m(f):
            return Builtin("list." + name, f)
        if name == "append":
            return m(lambda it, a, k, n: it.list_append(lst, a[0], n))
        if name == "extend":
            return m(lambda it, a, k, n: it.list_extend(lst, a[0], n))
        if name == "pop":
            def f(it, a, k, n):
                ln = it.list_len(lst)
                idx = a[0] if a else -1
                j = it.norm_index(idx, ln, n, "pop index out of range")
                x = it.getitem(lst, j, n)
                it.delitem(lst, j, n)
                return x
            return m(f)
        if name == "insert":
            def f(it, a, k, n):
                if not lst.fresh:
                    it.writes.append((lst, "insert", n))
                idx, x = a
                if not is_intlike(idx):
                    it.guard(False, "TypeError", n, "integer required")
                if not lst.is_sym() and isinstance(idx, int):
                    lst.items.insert(idx, x)
                    return None
                if not lst.is_sym():
                    # symbolic position into a concrete spine: fork over the len+1 insertion points
                    ln = len(lst.items)
                    aa, _ = it.slice_bounds(idx, None, ln)
                    k2 = it.path.choose(ln + 1, [aa == p for p in range(ln + 1)])
                    lst.items.insert(k2, x)
                    return None
                s = it.list_seq(lst, lst.kind, n)
                aa, _ = it.slice_bounds(idx, None, mk_int(z3.Length(s)))
                tmp = lst if lst.is_sym() else PList(sym=s, kind=lst.kind)
                lst.sym = z3.Concat(z3.SubSeq(s, 0, aa), z3.Unit(it.unwrap_elem(tmp, x, n)), z3.SubSeq(s, aa, z3.Length(s) - aa))
                lst.items = None
                return None
            return m(f)
        if name == "remove":
            def f(it, a, k, n):
                if not lst.fresh:
                    it.writes.append((lst, "remove", n))
                if lst.is_sym():
                    if lst.kind == "elem" and "elem_eq" in self.hooks:
                        it.unsupported("list.remove on symbolic list with custom equality", n)
                    e = z3.Unit(it.unwrap_elem(lst, a[0], n))
                    it.guard(mk_bool(z3.Contains(lst.sym, e)), "ValueError", n, "list.remove(x): x not in list")
                    i = z3.IndexOf(lst.sym, e, 0)
                    s = lst.sym
                    lst.sym = z3.Concat(z3.SubSeq(s, 0, i), z3.SubSeq(s, i + 1, z3.Length(s) - i - 1))
                    return None
                for i, x in enumerate(lst.items):
                    if it.truth(it.py_member_eq(x, a[0], n)):
                        del lst.items[i]
                        return None
                it.throw("ValueError", "list.remove(x): x not in list", n)
            return m(f)
        if name == "index":
            def f(it, a, k, n):
                if lst.is_sym():
                    e = z3.Unit(it.unwrap_elem(lst, a[0], n))
                    it.guard(mk_bool(z3.Contains(lst.sym, e)), "ValueError", n, "not in list")
                    return mk_int(z3.IndexOf(lst.sym, e, 0))
                for i, x in enumerate(lst.items):
                    if it.truth(it.py_member_eq(x, a[0], n)):
                        return i
                it.throw("ValueError", "not in list", n)
            return m(f)
        if name == "copy":
            return m(lambda it, a, k, n: it.getslice(lst, None, None, n))
        if name in ("sort", "reverse"):
            def f(it, a, k, n):
                if not lst.fresh:
                    it.writes.append((lst, name, n))
                if lst.is_sym():
                    it.unsupported("sort/reverse of symbolic list", n)
                lst.items = self.sort_items(it, lst.items, n) if name == "sort" else lst.items[::-1]
            return m(f)
        if name == "value":
            it.throw("AttributeError", "'list' object has no attribute 'value'", node)
        it.throw("AttributeError", f"'list' object has no attribute '{name}'", node)

    def dict_method(self, it, d, name, node):
        def m(f):
            return Builtin("dict." + name, f)
        if name in ("items", "keys", "values"):
            return m(lambda it, a, k, n: DictView(d, name))
        if name == "get":
            def f(it, a, k, n):
                if d.is_sym():
                    kt = self.key_term(it, d, a[0], n)
                    if it.path.branch(z3.Select(d.sym_dom, kt)):
                        return SElem(z3.Select(d.sym_val, kt), getattr(d, "val_sort", "val"))
                    return a[1] if len(a) > 1 else None
                ent = it.dict_find(d, a[0], n)
                if ent is None:
                    return a[1] if len(a) > 1 else None
                return ent[1]
            return m(f)
        if name == "pop":
            def f(it, a, k, n):
                ent = it.dict_find(d, a[0], n)
                if ent is None:
                    if len(a) > 1:
                        return a[1]
                    it.throw("KeyError", "key", n)
                it.dict_del(d, a[0], n)
                return ent[1]
            return m(f)
        if name == "copy":
            return m(lambda it, a, k, n: PDict([list(e) for e in d.entries]))
        if name == "update":
            def f(it, a, k, n):
                for kk, vv in a[0].entries:
                    it.dict_set(d, kk, vv, n)
            return m(f)
        it.throw("AttributeError", f"'dict' object has no attribute '{name}'", node)

    def set_method(self, it, s, name, node):
        def m(f):
            return Builtin("set." + name, f)
        if name == "add":
            return m(lambda it, a, k, n: it.set_add(s, a[0], n))
        if name == "remove":
            return m(lambda it, a, k, n: it.set_remove(s, a[0], n))
        if name == "discard":
            def f(it, a, k, n):
                if it.set_has(s, a[0], n):
                    it.set_remove(s, a[0], n)
            return m(f)
        if name == "copy":
            return m(lambda it, a, k, n: PSet(list(s.items)))
        it.throw("AttributeError", f"'set' object has no attribute '{name}'", node)

    # ------------------------------------------------------------------ external modules
    def external_attr(self, it, mod, name, node):
        full = mod.name + "." + name
        h = self.hooks.get("external")
        if h:
            r = h(it, full, node)
            if r is not _MISSING:
                return r
        if mod.name == "math":
            return self.math_attr(it, name, node)
        if mod.name == "operator" and name in _OPERATOR:
            op = _OPERATOR[name]
            return Builtin("operator." + name, lambda it_, a, k, n: it_.binop(op(), a[0], a[1], n))
        if mod.name == "datetime":
            if name == "datetime":
                return DATETIME_CLASS(self)
            if name in ("timedelta", "date"):
                return ModuleRef("datetime." + name, external=True)
        if mod.name == "datetime.datetime":
            return self.datetime_static(it, name, node)
        if mod.name == "functools":
            return Builtin("functools." + name, lambda it, a, k, n: a[0])
        if mod.name == "os" and name == "path":
            return self.import_module("os.path")
        if mod.name == "re" and name == "error":
            return self.builtin_class("re.error")
        if mod.name == "re" and name == "compile":
            def f(it, a, k, n):
                if not is_strlike(a[0]):
                    it.guard(False, "TypeError", n, "first argument must be string or compiled pattern")
                if isinstance(a[0], str):
                    import re as _re
                    try:
                        _re.compile(a[0])
                    except _re.error as e:
                        it.throw("re.error", str(e), n)
                    except (OverflowError, RecursionError) as e:
                        it.throw(type(e).__name__, str(e), n)
                    return Obj(self.builtin_classes["Pattern"], {"pattern": a[0]})
                c = it.path.choose(3)
                if c == 1:
                    it.throw("re.error", "bad pattern", n)
                if c == 2:
                    it.throw("OverflowError", "repetition count too large", n)
                return Obj(self.builtin_classes["Pattern"], {"pattern": a[0]})
            return Builtin("re.compile", f)
        if mod.name == "re" and name == "match":
            def f(it, a, k, n):
                if not is_strlike(a[1]):
                    it.guard(False, "TypeError", n, "expected string or bytes-like object")
                return None if it.path.choose(2) == 0 else SElem(z3.Int(it.fresh("match")), "match")
            return Builtin("re.match", f)
        if mod.name == "re" and name == "split":
            def f(it, a, k, n):
                if not is_strlike(a[1]):
                    it.guard(False, "TypeError", n, "expected string or bytes-like object")
                # abstract result: one or two parts (the natives only copy the parts into values)
                parts = [it.fresh_str("part") for _ in range(1 + it.path.choose(2))]
                for p_ in parts:
                    it.path.assume(z3.Length(p_.z) <= 2, check=False)
                return PList(parts)
            return Builtin("re.split", f)
        if mod.name == "decimal" and name == "Decimal":
            return Builtin("decimal.Decimal", lambda it, a, k, n: SElem(z3.Int(it.fresh("decimalobj")), "decimal"))
        if mod.name == "itertools" and name == "count":
            return Builtin("itertools.count", lambda it, a, k, n: CounterVal())
        if mod.name == "sys" and name in ("stdout", "stdin", "stderr"):
            return Obj(self.builtin_classes["file"], {"_std": name})
        if mod.name == "os" and name in ("sep", "linesep", "pathsep"):
            return {"sep": "/", "linesep": "\n", "pathsep": ":"}[name]
        if mod.name == "os" and name == "environ":
            return ModuleRef("os.environ", external=True)
        # any other external function: effectful opaque call (default-deny, DESIGN section 5)
        return Builtin(full, lambda it_, a, k, n, full=full: self.external_call(it_, full, a, k, n))

    def external_call(self, it, full, a, k, n):
        it.effects.append((full, n))
        h = self.hooks.get("external_call")
        if h:
            r = h(it, full, a, k, n)
            if r is not _MISSING:
                return r
        if full.startswith("platform."):
            return it.fresh_str("platform")
        it.unsupported("call of external " + full, n)

    def math_attr(self, it, name, node):
        if name == "trunc":
            def f(it, a, k, n):
                v = a[0]
                if isinstance(v, (int, float)) and not isinstance(v, bool):
                    try:
                        import math
                        return math.trunc(v)
                    except (OverflowError, ValueError) as e:
                        it.throw(type(e).__name__, str(e), n)
                if is_intlike(v):
                    return mk_int(zi(v))
                if isinstance(v, SFloat):
                    return mk_int(trunc_real(v.z))
                it.guard(False, "TypeError", n, "type doesn't define __trunc__ method")
            return Builtin("math.trunc", f)
        if name in ("floor", "ceil"):
            def f(it, a, k, n):
                v = a[0]
                if not is_numlike(v):
                    it.guard(False, "TypeError", n, "must be real number")
                if is_intlike(v):
                    return mk_int(zi(v))
                fl = z3.ToInt(zr(v))
                if name == "floor":
                    return mk_int(fl)
                return mk_int(z3.If(z3.ToReal(fl) == zr(v), fl, fl + 1))
            return Builtin("math." + name, f)
        if name == "pow":
            def f(it, a, k, n):
                for v in a:
                    if not is_numlike(v):
                        it.guard(False, "TypeError", n, "must be real number")
                x, y = a
                # float result: rnd of the real power; exact only when small (modelled as rnd(pypow) for int args)
                if is_intlike(x) and is_intlike(y):
                    if it.path.branch(zi(y) >= 0):
                        ok = it.fresh_bool("pow_fits")
                        it.guard(ok, "OverflowError", n, "math range error")
                        return mk_float(it.rnd(z3.ToReal(self.PYPOW(zi(x), zi(y)))))
                    it.guard(mk_bool(zi(x) != 0), "ValueError", n, "math domain error")
                    return it.fresh_float("mpow")
                ok = it.fresh_bool("pow_ok")
                if not it.path.branch(ok.z):
                    if it.path.choose(2) == 0:
                        it.throw("OverflowError", "math range error", n)
                    it.throw("ValueError", "math domain error", n)
                return it.fresh_float("mpow")
            return Builtin("math.pow", f)
        if name in ("pi", "e", "tau"):
            import math
            return getattr(math, name)
        if name in ("inf", "nan"):
            raise OutOfSubset(f"math.{name}: infinities and NaN are outside the real-number model of floats")
        if name in ("isfinite", "isnan", "isinf"):
            def fin(it, a, k, n, name=name):
                v = a[0] if a else None
                if isinstance(v, float):
                    import math
                    return getattr(math, name)(v)
                if not is_numlike(v):
                    it.guard(False, "TypeError", n, "must be real number")
                # symbolic floats are reals in this model (assumption of the float encoding): finite, not NaN
                return name == "isfinite"
            return Builtin("math." + name, fin)
        # transcendental functions: result opaque; domain errors possible
        def f(it, a, k, n, name=name):
            for v in a:
                if not is_numlike(v):
                    it.guard(False, "TypeError", n, "must be real number")
                if is_intlike(v) and not isinstance(v, (int, bool)):
                    lim = z3.IntVal(2 ** 1024)
                    it.guard(mk_bool(z3.And(zi(v) < lim, zi(v) > -lim)), "OverflowError", n, "int too large to convert to float")
            if name in ("acos", "asin", "log", "sqrt", "exp", "tan", "cos", "sin", "atan", "atan2", "log10", "log2"):
                dom = {"acos": lambda x: z3.And(x >= -1, x <= 1), "asin": lambda x: z3.And(x >= -1, x <= 1),
                       "log": lambda x: x > 0, "sqrt": lambda x: x >= 0}.get(name)
                if dom is not None and a:
                    it.guard(mk_bool(dom(zr(a[0]))), "ValueError", n, "math domain error")
                if name == "exp":
                    it.guard(mk_bool(zr(a[0]) < 710), "OverflowError", n, "math range error")
                if name == "log" and len(a) > 1:
                    it.guard(mk_bool(z3.And(zr(a[1]) > 0, zr(a[1]) != 1)), "ValueError", n, "math domain error / ZeroDivision")
                return it.fresh_float("m" + name)
            it.unsupported("math." + name, n)
        return Builtin("math." + name, f)

    def datetime_static(self, it, name, node):
        if name == "fromtimestamp":
            def f(it, a, k, n):
                if a and isinstance(a[0], (int, float)) and a[0] == 0:
                    return new_datetime(self, 1970, 1, 1, _bounded(it, "tzhour", 0, 23), 0, 0, 0)      # (local time of the epoch: a valid datetime)
                d = new_datetime(self, *[it.fresh_int(x) for x in ("y", "mo", "d", "h", "mi", "s", "us")])
                assume_dt_valid(it, d)
                if not (a and _native(a[0])):
                    ok = it.fresh_bool("ts_ok")
                    if not it.path.branch(ok.z):
                        it.throw(["OverflowError", "OSError", "ValueError"][it.path.choose(3)], "timestamp out of range", n)
                return d
            return Builtin("datetime.fromtimestamp", f)
        if name == "now":
            def f(it, a, k, n):
                it.effects.append(("clock", n))
                d = new_datetime(self, *[it.fresh_int(x) for x in ("y", "mo", "d", "h", "mi", "s", "us")])
                assume_dt_valid(it, d)
                return d
            return Builtin("datetime.now", f)
        if name == "strptime":
            def f(it, a, k, n):
                if not is_strlike(a[0]):
                    it.guard(False, "TypeError", n, "strptime() argument 1 must be str")
                ok = it.fresh_bool("strptime_ok")
                it.guard(ok, "ValueError", n, "time data does not match format")
                d = new_datetime(self, *[it.fresh_int(x) for x in ("y", "mo", "d", "h", "mi", "s", "us")])
                assume_dt_valid(it, d)
                return d
            return Builtin("datetime.strptime", f)
        it.unsupported("datetime." + name, node)


_MISSING = object()
World.MISSING = _MISSING
_OPERATOR = {"add": ast.Add, "sub": ast.Sub, "mul": ast.Mult, "truediv": ast.Div, "floordiv": ast.FloorDiv, "mod": ast.Mod,
             "pow": ast.Pow, "and_": ast.BitAnd, "or_": ast.BitOr, "xor": ast.BitXor, "lshift": ast.LShift, "rshift": ast.RShift}


class CounterVal:
    """itertools.count(): only strict monotonicity of the values handed out is modelled"""

    def __init__(self):
        self.last = {}


class IterVal:
    """host iterator over a concrete spine (iter()/next())"""
    DONE = object()

    def __init__(self, live, items):
        self.live, self.items, self.i = live, items, 0

    def step(self):
        seq = self.live.items if self.live is not None else self.items
        if seq is None or self.i >= len(seq):
            return IterVal.DONE
        self.i += 1
        return seq[self.i - 1]

    def rest(self):
        out = []
        while True:
            r = self.step()
            if r is IterVal.DONE:
                return out
            out.append(r)


class BytesVal:
    def __init__(self, text):
        self.text = text


def trunc_real(r):
    """math.trunc of a real: toward zero."""
    fl = z3.ToInt(r)
    return z3.If(r >= 0, fl, z3.If(z3.ToReal(fl) == r, fl, fl + 1))


# ---------------------------------------------------------------------- datetime model

def DATETIME_CLASS(world):
    c = world.builtin_classes["datetime"]
    if "replace" not in c.methods:
        def replace(it, a, k, n):
            selfobj = a[0]
            f = dict(selfobj.fields)
            for key, v in k.items():
                if key not in ("year", "month", "day", "hour", "minute", "second", "microsecond"):
                    it.unsupported("datetime.replace " + key, n)
                if not is_intlike(v):
                    it.guard(False, "TypeError", n, f"'{_tn(v)}' object cannot be interpreted as an integer")
                f[key] = v
            d = Obj(c, f)
            it.guard(mk_bool(dt_valid(d)), "ValueError", n, "datetime field out of range")
            return d
        c.methods["replace"] = Builtin("datetime.replace", replace)
        c.methods["strftime"] = Builtin("datetime.strftime", lambda it, a, k, n: strftime(it, a[0], a[1], n))
        c.methods["timestamp"] = Builtin("datetime.timestamp", lambda it, a, k, n: it.fresh_float("timestamp"))
        c.methods["weekday"] = Builtin("datetime.weekday", lambda it, a, k, n: _bounded(it, "wd", 0, 6))
        c.methods["isoweekday"] = Builtin("datetime.isoweekday", lambda it, a, k, n: _bounded(it, "wd", 1, 7))
        world.builtins["datetime"] = Builtin("datetime", lambda it, a, k, n: _dt_ctor(world, it, a, k, n))
        for nm in ("fromtimestamp", "now", "strptime"):
            c.attrs[nm] = world.datetime_static(None, nm, None)
    return c


def _bounded(it, name, lo, hi):
    v = it.fresh_int(name)
    it.path.assume(z3.And(v.z >= lo, v.z <= hi), check=False)
    return v


def _dt_ctor(world, it, a, k, n):
    names = ["year", "month", "day", "hour", "minute", "second", "microsecond"]
    vals = dict(zip(names, a))
    vals.update(k)
    d = new_datetime(world, *[vals.get(x, 0) for x in names])
    it.guard(mk_bool(dt_valid(d)), "ValueError", n, "datetime field out of range")
    return d


def new_datetime(world, y, mo, d, h, mi, s, us):
    c = DATETIME_CLASS(world)
    return Obj(c, {"year": y, "month": mo, "day": d, "hour": h, "minute": mi, "second": s, "microsecond": us})


def z_leap(y):
    return z3.And(y % 4 == 0, z3.Or(y % 100 != 0, y % 400 == 0))


def z_days_in_month(y, m):
    return z3.If(m == 2, z3.If(z_leap(y), 29, 28),
                 z3.If(z3.Or(m == 4, m == 6, m == 9, m == 11), 30, 31))


def dt_valid(d):
    f = d.fields
    y, mo, dd = zi(f["year"]), zi(f["month"]), zi(f["day"])
    return z3.And(y >= 1, y <= 9999, mo >= 1, mo <= 12, dd >= 1, dd <= z_days_in_month(y, mo),
                  zi(f["hour"]) >= 0, zi(f["hour"]) <= 23, zi(f["minute"]) >= 0, zi(f["minute"]) <= 59,
                  zi(f["second"]) >= 0, zi(f["second"]) <= 59,
                  zi(f["microsecond"]) >= 0, zi(f["microsecond"]) <= 999999)


def assume_dt_valid(it, d):
    it.path.assume(dt_valid(d), check=False)


def dt_key(d):
    f = d.fields
    return ((((((zi(f["year"]) * 13 + zi(f["month"])) * 32 + zi(f["day"])) * 24 + zi(f["hour"])) * 60
              + zi(f["minute"])) * 60 + zi(f["second"])) * 1000000 + zi(f["microsecond"]))


STRF_NUMERAL = z3.Function("strftime_YmdHMS", z3.IntSort(), z3.StringSort())
ZFILL = z3.Function("zfill_of_numeral", z3.StringSort(), z3.IntSort(), z3.StringSort())


def strftime(it, d, fmt, n):
    if not is_strlike(fmt):
        it.guard(False, "TypeError", n, "strftime() argument 1 must be str")
    if fmt == "%Y%m%d%H%M%S" and isinstance(d, Obj) and "year" in d.fields:
        # assumed contract of CPython's strftime for this format: the decimal numeral of y*10^10 + m*10^8 + d*10^6 + H*10^4 + M*100 + S
        f = d.fields
        num = (((((zi(f["year"]) * 100 + zi(f["month"])) * 100 + zi(f["day"])) * 100 + zi(f["hour"])) * 100 + zi(f["minute"])) * 100 + zi(f["second"]))
        r = STRF_NUMERAL(num)
        w = it.world
        if 10 not in w.INTPARSE:
            w.INTPARSE[10] = (z3.Function("int_ok_10", z3.StringSort(), z3.BoolSort()), z3.Function("int_of_10", z3.StringSort(), z3.IntSort()))
        okf, valf = w.INTPARSE[10]
        # (stated through the int() model's own predicates: no string-theory reasoning needed downstream)
        it.path.assume(z3.And(okf(r), valf(r) == num, num > 0, z3.Length(r) >= 5), check=False)
        out = SStr(r)
        out.digits_only = num       # a numeral: digits only, denoting this number (used by the zfill and int() models)
        return out
    return it.fresh_str("strftime")
