from .runner import main
main()
