"""Units of verification (one real function + contract), runner, aggregation."""
import hashlib
import ast
import os
import time
import traceback
import multiprocessing as mp

import z3

from .path import StopExploration, explore, Results, OutOfSubset, Budget, Infeasible, PathEnd
from .interp import Interp, PyRaise
from .world import World
from .values import Obj


class Outcome:
    def __init__(self, kind, value=None, exc=None):
        self.kind = kind      # 'return' | 'raise'
        self.value = value
        self.exc = exc

    @property
    def exc_class(self):
        return self.exc.cls.name if self.exc is not None else None


class Unit:
    """One function of /repo under contract.

    setup(it)            -> (args, kwargs, ctx)   symbolic inputs; may it.assume(...) the precondition
    post(it, ctx, out)   -> None                  emits it.check(...) obligations on each exit
    allowed              -> exception class names allowed to escape (others are `escape:` failures)
    """

    def __init__(self, target, setup, post=None, name=None, allowed=("CklRuntimeError",), loops=None,
                 abstractions=None, config=None, replay=None, bounded=None, prepare=None, canary=True,
                 body=None):
        self.target = target
        self.name = name or target
        self.setup = setup
        self.post = post
        self.allowed = tuple(allowed)
        self.loops = loops or {}
        self.abstractions = abstractions or {}
        self.config = config or {}
        self.replay = replay
        self.bounded = bounded     # None = unbounded proof; else a string stating the bound (symbolic-bounded)
        self.prepare = prepare     # prepare(world): install hooks
        self.canary = canary
        self.body = body           # custom runner body(it, ctx) instead of calling the target


def run_unit(world, unit, timeout_ms=10000, budget_s=300, canary=False):
    res = Results()
    res.unit = unit.name
    res.target = unit.target
    res.status = "ok"
    res.exit_sat = False
    res.exit_unknown = False
    t0 = time.time()
    saved_kinds = dict(world.elem_kinds)
    try:
        if unit.prepare:
            unit.prepare(world)
        fn = world.func(unit.target) if unit.target and "::" in unit.target and unit.body is None else None
    except KeyError:
        res.status = "missing"
        res.errors.append(f"target {unit.target} not found in the source tree")
        res.wall = time.time() - t0
        return res
    qual = unit.target.partition("::")[2] if unit.target else unit.name
    loops = {qual: unit.loops} if unit.loops and not any(isinstance(v, dict) for v in unit.loops.values()) else unit.loops
    cfg = dict(unit.config)
    cfg.update({"loops": loops, "abstractions": unit.abstractions, "target": unit.name})

    def run(path):
        it = Interp(world, path, cfg)
        args, kwargs, ctx = unit.setup(it)
        res.cover(f"{unit.name}#cover:requires")
        try:
            if unit.body is not None:
                out = unit.body(it, ctx)
                if not isinstance(out, Outcome):
                    out = Outcome("return", out)
            else:
                r = it.call(fn, args, kwargs)
                out = Outcome("return", r)
        except PyRaise as e:
            out = Outcome("raise", exc=e.exc)
        if out.kind == "raise" and out.exc_class not in unit.allowed and "*" not in unit.allowed:
            origin = out.exc.fields.get("_origin", "")
            it.path.fail(f"{unit.name}#escape:{out.exc_class}@{origin}",
                         detail=f"host exception {out.exc_class} escapes ({out.exc.fields.get('msg', '')})")
            return
        res.cover(f"{unit.name}#cover:exit:{out.kind}")
        if unit.canary and not res.exit_sat:
            # vacuity guard: the assumptions made on the way (preconditions, contracts of callees, lemma instances) are
            # satisfiable together at a function exit -- the postcondition `False` would fail here
            r_ = it.path.satisfiable()
            if r_ is None:
                res.exit_unknown = True
            else:
                res.exit_sat = r_
        if canary:
            it.check("canary", z3.BoolVal(False))
            raise StopExploration()    # one reachable exit is all the vacuity check needs
        if unit.post is not None:
            unit.post(it, ctx, out)

    # hard wall-clock limit (the cooperative deadline is only looked at between paths: one path through a long symbolic loop
    # could run on for a long time) - expiry is "undecided (budget)", like the cooperative one
    import signal

    class _WallClock(BaseException):
        pass

    def _on_alarm(sig, frm):
        raise _WallClock()
    armed = False
    try:
        old_handler = signal.signal(signal.SIGALRM, _on_alarm)
        signal.setitimer(signal.ITIMER_REAL, budget_s + 20, 5)
        armed = True
    except ValueError:      # not the main thread of its process: only the cooperative deadline applies
        pass
    try:
        explore(run, res, timeout_ms=timeout_ms, deadline=t0 + budget_s, prefer=unit.config.get('prefer', 'z3'))
    except _WallClock:
        res.status = "budget"
        res.errors.append(f"{unit.name}: time budget exhausted (wall clock, inside one path)")
    except OutOfSubset as e:
        res.status = "out-of-subset"
        res.errors.append(f"{unit.name}: out-of-subset: {e}")
    except Budget as e:
        res.status = "budget"
        res.errors.append(f"{unit.name}: {e}")
    except (Infeasible, PathEnd):
        pass
    except Exception:
        res.status = "crash"
        res.errors.append(f"{unit.name}: checker crash:\n{traceback.format_exc()}")
    finally:
        if armed:
            signal.setitimer(signal.ITIMER_REAL, 0)
            signal.signal(signal.SIGALRM, old_handler)
        world.hooks.clear()
        world.elem_kinds.clear()
        world.elem_kinds.update(saved_kinds)
    res.wall = time.time() - t0
    return res


# ----------------------------------------------------------------------------- parallel driver

_WORLD = None
_UNITS = None


def _init(modname):
    global _WORLD, _UNITS
    import importlib
    _WORLD = World()
    mod = importlib.import_module(modname)
    _UNITS = mod.units(_WORLD)


def _work(job):
    idx, timeout_ms, budget_s, canary = job
    unit = _UNITS[idx]
    r = run_unit(_WORLD, unit, timeout_ms, budget_s, canary)
    return idx, pack(r)


def pack(r):
    obs = {}
    for k, a in r.obs.items():
        a = dict(a)
        a["backend"] = sorted(a["backend"])
        obs[k] = a
    return {"unit": r.unit, "target": r.target, "status": r.status, "obs": obs, "paths": r.paths,
            "solver_ms": r.solver_ms, "errors": r.errors, "covers": r.covers, "wall": r.wall,
            "exit_sat": getattr(r, "exit_sat", False), "exit_unknown": getattr(r, "exit_unknown", False)}


def run_units(modname, indices=None, timeout_ms=10000, budget_s=300, procs=None, canary=False):
    """Run all units of contracts module `modname` in a process pool; returns packed results in unit order."""
    import importlib
    mod = importlib.import_module(modname)
    w = World()
    units = mod.units(w)
    if indices is None:
        indices = list(range(len(units)))
    procs = procs or min(16, max(1, len(indices)))
    jobs = [(i, timeout_ms, budget_s, canary) for i in indices]
    out = {}
    if procs == 1 or len(jobs) == 1:
        _init(modname)
        for j in jobs:
            i, r = _work(j)
            out[i] = r
    else:
        ctx = mp.get_context("fork")
        with ctx.Pool(procs, initializer=_init, initargs=(modname,)) as pool:
            for i, r in pool.imap_unordered(_work, jobs, chunksize=1):
                out[i] = r
    return units, [out[i] for i in indices]
