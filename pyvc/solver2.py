"""Second-opinion back end: the same query as SMT-LIB text to /usr/bin/cvc5 (for z3 `unknown`s)."""
import os
import subprocess
import tempfile
import z3


def cvc5_check(constraints, timeout_ms=10000):
    if not os.path.exists("/usr/bin/cvc5"):
        return "unknown"
    s = z3.Solver()
    for c in constraints:
        s.add(c)
    try:
        text = s.to_smt2()
    except Exception:
        return "unknown"
    text = "(set-logic ALL)\n" + text.replace("seq.nth_i", "seq.nth").replace("seq.nth_u", "seq.nth")
    fd, path = tempfile.mkstemp(suffix=".smt2", dir=os.environ.get("VERIF_SCRATCH", "/var/tmp"))
    try:
        with os.fdopen(fd, "w") as f:
            f.write(text)
        try:
            out = subprocess.run(["/usr/bin/cvc5", "--strings-exp", f"--tlimit={int(timeout_ms)}", path],
                                 capture_output=True, text=True, timeout=timeout_ms / 1000 + 5).stdout
        except subprocess.TimeoutExpired:
            return "unknown"
        first = out.strip().splitlines()[0] if out.strip() else ""
        if first in ("sat", "unsat"):
            return first
        return "unknown"
    finally:
        try:
            os.unlink(path)
        except OSError:
            pass


def z3cli_check(constraints, timeout_ms=10000):
    """Third opinion: the system z3 (4.8.12, /usr/bin/z3) on the same SMT-LIB text; its sequence solver decides some
    lexicographic-order queries that z3 5.x and cvc5 leave open."""
    if not os.path.exists("/usr/bin/z3"):
        return "unknown"
    s = z3.Solver()
    for c in constraints:
        s.add(c)
    try:
        text = s.to_smt2()
    except Exception:
        return "unknown"
    fd, path = tempfile.mkstemp(suffix=".smt2", dir=os.environ.get("VERIF_SCRATCH", "/var/tmp"))
    try:
        with os.fdopen(fd, "w") as f:
            f.write(text)
        try:
            out = subprocess.run(["/usr/bin/z3", f"-T:{max(1, int(timeout_ms / 1000))}", path], capture_output=True, text=True,
                                 timeout=timeout_ms / 1000 + 5).stdout
        except subprocess.TimeoutExpired:
            return "unknown"
        first = out.strip().splitlines()[0] if out.strip() else ""
        return first if first in ("sat", "unsat") else "unknown"
    finally:
        try:
            os.unlink(path)
        except OSError:
            pass
