"""Path exploration by re-execution with a decision trace, and obligation bookkeeping."""
import os
import time
import z3


_SLOW = float(os.environ.get('PYVC_SLOW', '0') or 0)


class Infeasible(Exception):
    """The path condition became unsatisfiable (after an assume)."""


class WouldFork(Exception):
    """raised instead of forking while an expression is evaluated speculatively (Path.nofork > 0)"""


class PathEnd(Exception):
    """The path ends here without reaching a function exit (e.g. end of an arbitrary loop iteration)."""


class OutOfSubset(Exception):
    """The executor met a construct it does not model. Never reported as a violation."""


class Budget(Exception):
    pass


class StopExploration(Exception):
    """the run has seen all it needs (vacuity canary reached a function exit)"""


class Ob:
    """One obligation instance result."""
    __slots__ = ("name", "status", "detail", "model", "ms", "backend")

    def __init__(self, name, status, detail="", model=None, ms=0.0, backend="z3"):
        self.name = name
        self.status = status      # 'unsat' (discharged) | 'sat' (fails, model) | 'unknown'
        self.detail = detail
        self.model = model
        self.ms = ms
        self.backend = backend


class Results:
    def __init__(self):
        self.obs = {}         # name -> aggregated dict
        self.paths = 0
        self.solver_ms = 0.0
        self.errors = []      # out-of-subset etc.
        self.covers = {}

    def record(self, ob):
        a = self.obs.setdefault(ob.name, {"name": ob.name, "instances": 0, "unsat": 0, "sat": 0, "unknown": 0,
                                          "ms": 0.0, "fail": None, "backend": set()})
        a["instances"] += 1
        a[ob.status] += 1
        a["ms"] += ob.ms
        a["backend"].add(ob.backend)
        self.solver_ms += ob.ms
        if ob.status == "sat" and a["fail"] is None:
            a["fail"] = {"detail": ob.detail, "model": ob.model}
        if ob.status == "unknown" and a.get("unk") is None:
            a["unk"] = ob.detail

    def cover(self, name, hit=True):
        self.covers[name] = self.covers.get(name, False) or hit

    def merge(self, other):
        for name, a in other.obs.items():
            b = self.obs.get(name)
            if b is None:
                self.obs[name] = a
            else:
                for k in ("instances", "unsat", "sat", "unknown", "ms"):
                    b[k] += a[k]
                b["backend"] |= a["backend"]
                if b["fail"] is None:
                    b["fail"] = a["fail"]
        self.paths += other.paths
        self.solver_ms += other.solver_ms
        self.errors += other.errors
        for k, v in other.covers.items():
            self.covers[k] = self.covers.get(k, False) or v


def model_to_dict(model, limit=60):
    out = {}
    try:
        for d in model.decls()[:limit]:
            try:
                out[d.name()] = str(model[d])[:200]
            except Exception:
                pass
    except Exception:
        pass
    return out


class Path:
    def __init__(self, prefix, results, timeout_ms=10000):
        self.prefix = prefix
        self.trace = []
        self.alts = []
        self.nofork = 0
        self.pos = 0
        self.results = results
        self.solver = z3.Solver()
        self.solver.set("timeout", timeout_ms)
        self.timeout_ms = timeout_ms
        self.pc = []
        self.nchecks = 0
        self.prefer = "z3"

    # ---- path condition
    def assume(self, c, check=True):
        if isinstance(c, bool):
            if not c:
                raise Infeasible()
            return
        c = z3.simplify(c)
        if z3.is_true(c):
            return
        if z3.is_false(c):
            raise Infeasible()
        self.solver.add(c)
        self.pc.append(c)
        if check and self.pos >= len(self.prefix):
            if self._check() == z3.unsat:
                raise Infeasible()

    def _check(self, *assumptions):
        t0 = time.time()
        r = self.solver.check(*assumptions)
        if _SLOW and time.time() - t0 > _SLOW:
            import sys
            print(f"[slow feasibility query {time.time() - t0:.1f}s -> {r}] {[str(a)[:300] for a in assumptions]}", file=sys.stderr)
        self.results.solver_ms += (time.time() - t0) * 1000
        self.nchecks += 1
        return r

    def feasible(self, c):
        return self._check(c) != z3.unsat

    def branch(self, c):
        """Decide a symbolic boolean; forks when both sides are feasible."""
        if isinstance(c, bool):
            return c
        c = z3.simplify(c)
        if z3.is_true(c):
            return True
        if z3.is_false(c):
            return False
        if self.nofork:
            raise WouldFork()
        if self.pos < len(self.prefix):
            d = self.prefix[self.pos]
        else:
            t = self.feasible(c)
            f = self.feasible(z3.Not(c))
            if t and f:
                d = 1
                self.alts.append(self.trace + [0])
            elif t:
                d = 1
            elif f:
                d = 0
            else:
                raise Infeasible()
        self.trace.append(d)
        self.pos += 1
        cc = c if d else z3.Not(c)
        self.solver.add(cc)
        self.pc.append(cc)
        return bool(d)

    def choose(self, n, conds=None):
        """n-way nondeterministic choice, optional z3 condition per option."""
        if self.nofork:
            raise WouldFork()
        if self.pos < len(self.prefix):
            d = self.prefix[self.pos]
        else:
            options = []
            for k in range(n):
                if conds is None or conds[k] is None or self.feasible(conds[k]):
                    options.append(k)
            if not options:
                raise Infeasible()
            d = options[0]
            for k in options[1:]:
                self.alts.append(self.trace + [k])
        self.trace.append(d)
        self.pos += 1
        if conds is not None and conds[d] is not None:
            self.solver.add(conds[d])
            self.pc.append(conds[d])
        return d

    # ---- obligations
    def prove(self, name, goal, detail="", assume=True, auxiliary=False):
        """Record obligation `name`: pc => goal. Continues assuming the goal.
        auxiliary: the goal is proof scaffolding (a loop invariant applied to a function whose loops changed since the contract
        was written); if it does not hold the unit is undecided (the scaffolding no longer fits), not violated."""
        if isinstance(goal, bool):
            goal = z3.BoolVal(goal)
        g = z3.simplify(goal)
        if self.pos < len(self.prefix):
            # replay zone: this obligation was already decided by the parent path under the same pc
            self.assume(g, check=False)
            return True
        t0 = time.time()
        if z3.is_true(g):
            self.results.record(Ob(name, "unsat", detail, ms=0.0))
            return True
        from .solver2 import cvc5_check, z3cli_check
        r = None
        model = None
        backend = "z3"
        base_order = ["cvc5", "z3"] if self.prefer == "cvc5" else ["z3cli", "cvc5", "z3"] if self.prefer == "z3cli" else ["z3-short", "cvc5", "z3"]
        reason = ""
        # a second round with four times the budget before an obligation is left undecided: verdicts must not flip to
        # `unknown` because the machine is busy
        for budget in (self.timeout_ms, self.timeout_ms * 4):
            order = base_order if budget == self.timeout_ms else [b for b in base_order if b != "z3-short"]
            for be in order:
                if be == "z3cli":
                    r2 = z3cli_check(self.pc + [z3.Not(g)], budget)
                    if r2 in ("sat", "unsat"):
                        r = z3.sat if r2 == "sat" else z3.unsat
                        backend = "z3-4.8.12"
                        break
                elif be == "cvc5":
                    r2 = cvc5_check(self.pc + [z3.Not(g)], budget)
                    if r2 in ("sat", "unsat"):
                        r = z3.sat if r2 == "sat" else z3.unsat
                        backend = "cvc5"
                        if r == z3.sat:
                            # ask z3 for a model of the same query (best effort, short)
                            self.solver.push()
                            self.solver.add(z3.Not(g))
                            self.solver.set("timeout", 2000)
                            if self.solver.check() == z3.sat:
                                model = model_to_dict(self.solver.model())
                            self.solver.set("timeout", self.timeout_ms)
                            self.solver.pop()
                        break
                else:
                    self.solver.push()
                    self.solver.add(z3.Not(g))
                    self.solver.set("timeout", min(1500, budget) if be == "z3-short" else budget)
                    r = self.solver.check()
                    if r == z3.sat:
                        model = model_to_dict(self.solver.model())
                    reason = self.solver.reason_unknown() if r == z3.unknown else ""
                    self.solver.set("timeout", self.timeout_ms)
                    self.solver.pop()
                    if r != z3.unknown:
                        backend = "z3"
                        break
            if r in (z3.sat, z3.unsat):
                break
        ms = (time.time() - t0) * 1000
        if r == z3.unsat:
            self.results.record(Ob(name, "unsat", detail, ms=ms, backend=backend))
            ok = True
        elif r == z3.sat and auxiliary:
            self.results.record(Ob(name, "unknown", detail + " reason=loop contract written for an earlier shape of this function does not carry over", ms=ms))
            ok = False
        elif r == z3.sat:
            self.results.record(Ob(name, "sat", detail, model=model or {}, ms=ms, backend=backend))
            ok = False
        else:
            self.results.record(Ob(name, "unknown", detail + " reason=" + reason, ms=ms))
            ok = False
        if not assume:
            return ok
        # continue under the goal (standard: assert-then-assume)
        try:
            self.assume(g, check=True)
        except Infeasible:
            raise PathEnd()
        return ok

    def satisfiable(self):
        """is the path condition satisfiable? (z3, then cvc5 for z3's unknowns) -- vacuity guard at function exits"""
        r = self._check()
        if r == z3.sat:
            return True
        if r == z3.unsat:
            return False
        from .solver2 import cvc5_check
        r2 = cvc5_check(list(self.pc), self.timeout_ms)
        if r2 == "sat":
            return True
        if r2 == "unsat":
            return False
        return None      # neither solver decides: not counted as vacuous (only a proved contradiction is), reported as unconfirmed

    def fail(self, name, detail="", model=None):
        """an obligation that fails as soon as this point is reached: a violation only if the path condition is satisfiable"""
        if self.pos < len(self.prefix):
            return
        if model is None:
            r = self._check()
            if r == z3.sat:
                model = model_to_dict(self.solver.model())
            elif r == z3.unsat:
                return      # the path was entered on an `unknown` feasibility answer and is in fact infeasible
            else:
                from .solver2 import cvc5_check
                r2 = cvc5_check(list(self.pc), self.timeout_ms)
                if r2 == "unsat":
                    return
                if r2 != "sat":
                    self.results.record(Ob(name, "unknown", detail + " reason=reachability of this point undecided by both solvers"))
                    return
        self.results.record(Ob(name, "sat", detail, model=model or {}))

    def get_model(self):
        r = self._check()
        if r == z3.sat:
            return self.solver.model()
        return None


def explore(run, results, timeout_ms=10000, max_paths=200000, deadline=None, prefer="z3"):
    """Run `run(path)` for every feasible decision trace."""
    work = [[]]
    n = 0
    while work:
        prefix = work.pop()
        p = Path(prefix, results, timeout_ms)
        p.prefer = prefer
        n += 1
        results.paths += 1
        try:
            run(p)
        except (Infeasible, PathEnd):
            pass
        except StopExploration:
            return n
        work.extend(p.alts)
        if n >= max_paths:
            raise Budget(f"more than {max_paths} paths")
        if deadline is not None and time.time() > deadline:
            raise Budget("time budget exhausted")
    return n
